"""Variant corpus: breaking edits (expect 'fire') and benign twins (expect 'silent').
Each edit is (relative path, old text, new text[, count]); old text must be unique unless count=0 (all)."""
PRE = "src/pregex/core/pre.py"
CLS = "src/pregex/core/classes.py"
GRP = "src/pregex/core/groups.py"
OPS = "src/pregex/core/operators.py"
QUA = "src/pregex/core/quantifiers.py"
ASR = "src/pregex/core/assertions.py"
TOK = "src/pregex/core/tokens.py"
ESS = "src/pregex/meta/essentials.py"

MUTANTS = []


def M(id, pids, edits, expect="fire", rule=None):
    MUTANTS.append({"id": id, "pids": pids if isinstance(pids, list) else [pids], "edits": edits,
                    "expect": expect, "rule": rule})


# ---------------------------------------------------------------- C04
M("c04-atleast-template", "C04", [(PRE, "{{{n},}}{'' if is_greedy else '?'}", "{{{n}}}{'' if is_greedy else '?'}")], rule="R-QUANT")
M("c04-atmost-lazy-inverted", "C04", [(PRE, "{{,{n}}}{'' if is_greedy else '?'}", "{{,{n}}}{'?' if is_greedy else ''}")], rule="R-QUANT")
M("c04-atmost-1-oneormore", "C04", [(PRE, "        elif n == 1:\n            return self.optional(is_greedy)", "        elif n == 1:\n            return self.one_or_more(is_greedy)")], rule="R-QUANT")
M("c04-alam-none-atmost", "C04", [(PRE, "        elif m is None:\n            return self.at_least(n, is_greedy)", "        elif m is None:\n            return self.at_most(n, is_greedy)")], rule="R-QUANT")
M("c04-class-swaps-n-m", "C04", [(QUA, "pre.at_least_at_most(n, m, is_greedy)", "pre.at_least_at_most(m, n, is_greedy)")], rule="R-QUANT")
M("c04-exactly-drops-neg-guard", "C04", [(PRE, """            if n < 0:
                message = "Parameter \\"n\\" can't be negative."
                raise _ex.InvalidArgumentValueException(message)
            if self._get_type() == _Type.Empty:
                return self
            if not self._is_repeatable():
                raise _ex.CannotBeRepeatedException(self)
            return __class__(
                f"{self._quantify_conditional_group()}{{{n}}}",""", """            if self._get_type() == _Type.Empty:
                return self
            if not self._is_repeatable():
                raise _ex.CannotBeRepeatedException(self)
            return __class__(
                f"{self._quantify_conditional_group()}{{{n}}}",""")], rule="R-QUANT")
M("c04-optional-lazy-dropped", "C04", [(PRE, """?{'' if is_greedy else '?'}",""", """?","""  )], rule="R-QUANT")
M("c04-mul-repeat-first", ["C04", "C09"], [(PRE, """        if not isinstance(n, int) or isinstance(n, bool):
            message = "Provided argument \\"n\\" is not an integer."
            raise _ex.InvalidArgumentTypeException(message)
        if n < 0:
            message = "Using multiplication operator""", """        if not self._is_repeatable():
            raise _ex.CannotBeRepeatedException(self)
        if not isinstance(n, int) or isinstance(n, bool):
            message = "Provided argument \\"n\\" is not an integer."
            raise _ex.InvalidArgumentTypeException(message)
        if n < 0:
            message = "Using multiplication operator""", 0)])
M("c04-quantify-uses-concat-group", ["C04"], [(PRE, """f"{self._quantify_conditional_group()}+{'' if is_greedy else '?'}",""", """f"{self._concat_conditional_group()}+{'' if is_greedy else '?'}",""")], rule="R-QUANT")
M("c04-benign-equivalent-suffix", "C04", [(PRE, """f"{self._quantify_conditional_group()}?{'' if is_greedy else '?'}",""", """f"{self._quantify_conditional_group()}{{0,1}}{'' if is_greedy else '?'}",""")], expect="silent")
M("c04-benign-exactly-reorder", "C04", [(PRE, """        if n == 0:
            return Pregex()
        if n == 1:
            return self
        else:
            if n < 0:
                message = "Parameter \\"n\\" can't be negative."
                raise _ex.InvalidArgumentValueException(message)""", """        if n < 0:
            message = "Parameter \\"n\\" can't be negative."
            raise _ex.InvalidArgumentValueException(message)
        if n == 0:
            return Pregex()
        if n == 1:
            return self
        else:""")], expect="silent")

# ---------------------------------------------------------------- C02
M("c02-table-quantifier-cell", ["C02", "C04"], [(PRE, "_Type.Quantifier: (False, True, False)", "_Type.Quantifier: (False, False, False)")])
M("c02-table-alternation-concat", "C02", [(PRE, "_Type.Alternation: (True, True, True)", "_Type.Alternation: (False, True, True)")])
M("c02-accessor-wrong-column", "C02", [(PRE, "return __class__.__groupping_rules[self.__type][0]", "return __class__.__groupping_rules[self.__type][1]"),
                                       (PRE, "return __class__.__groupping_rules[self.__type][1]\n\n\n    def __get_group_on_assert_rule", "return __class__.__groupping_rules[self.__type][0]\n\n\n    def __get_group_on_assert_rule")])
M("c02-enclose-raw-self", "C02", [(PRE, 'pattern = f"{pre}{self._concat_conditional_group()}{pre}"', 'pattern = f"{pre}{self}{pre}"')], rule="R-HOLE")
M("c02-radd-orientation", "C02", [(PRE, "return __class__(str(__class__._to_pregex(pre).concat(self)), escape=False)", "return __class__(str(self.concat(__class__._to_pregex(pre))), escape=False)")], rule="R-DELEG")
M("c02-either-class-calls-concat", "C02", [(OPS, "lambda pre1, pre2: pre1.either(pre2))", "lambda pre1, pre2: pre1.concat(pre2))")], rule="R-DELEG")
M("c02-followedby-swapped", "C02", [(ASR, "lambda pre1, pre2: pre1.followed_by(pre2))", "lambda pre1, pre2: pre2.followed_by(pre1))")], rule="R-DELEG")
M("c02-conditional-raw", ["C02"], [(GRP, "        pre1 = __class__._to_pregex(pre1)._concat_conditional_group()\n", "        pre1 = str(__class__._to_pregex(pre1))\n")], rule="R-HOLE")
M("c02-benign-extra-group", "C02", [(PRE, 'pattern = f"{pre}{self._concat_conditional_group()}{pre}"', 'pattern = f"{pre}(?:{self._concat_conditional_group()}){pre}"')], expect="silent")
M("c02-benign-plus-instead-of-fstring", "C02", [(PRE, 'pattern = f"{pre}{self._concat_conditional_group()}{pre}"', 'pattern = pre + self._concat_conditional_group() + pre')], expect="silent")
M("c02-benign-table-more-grouping", "C02", [(PRE, "_Type.Other: (False, True, False)", "_Type.Other: (True, True, True)")], expect="silent")

# ---------------------------------------------------------------- C05
M("c05-concat-empty-shortcut-removed", "C05", [(PRE, """        if pre._get_type() == _Type.Empty:
            return self

        pattern = self._concat_conditional_group()""", """        pattern = self._concat_conditional_group()""")], expect="silent")  # '' + x is still x: benign
M("c05-either-empty-kept", "C05", [(PRE, """        if pre._get_type() == _Type.Empty:
            pattern = str(self)
        else:
            pattern = f"{self}|{pre}" if on_right else f"{pre}|{self}\"""", """        pattern = f"{self}|{pre}" if on_right else f"{pre}|{self}\"""")], rule="R-EMPTY")
M("c05-optional-empty-quantified", "C05", [(PRE, """        if self._get_type() == _Type.Empty:
            return self
        return __class__(
            f"{self._quantify_conditional_group()}?""", """        return __class__(
            f"{self._quantify_conditional_group()}?""")])
M("c05-capture-empty-wrapped", "C05", [(PRE, """        if self.__type == _Type.Empty:
            return self
        elif self.__type == _Type.Group:
            if self.__pattern.startswith('(?:'):""", """        if self.__type == _Type.Group:
            if self.__pattern.startswith('(?:'):""")], rule="R-EMPTY")
M("c05-followedby-empty-emits", "C05", [(PRE, """        if pre._get_type() == _Type.Empty:
            return self
        return __class__(
            f"{self._assert_conditional_group()}(?={pre})",""", """        return __class__(
            f"{self._assert_conditional_group()}(?={pre})",""")], rule="R-EMPTY")
M("c05-notfollowedby-no-raise", "C05", [(PRE, """        if pre._get_type() == _Type.Empty:
            raise _ex.EmptyNegativeAssertionException()
        pattern = f"{self._assert_conditional_group()}(?!{pre})\"""", """        if pre._get_type() == _Type.Empty:
            return self
        pattern = f"{self._assert_conditional_group()}(?!{pre})\"""")], rule="R-EMPTY")
M("c05-operator-zero-operands", "C05", [(OPS, "            result = ''\n", "            result = '(?:)'\n")], rule="R-EMPTY")
M("c05-atleast-empty-after-guard", "C05", [(PRE, """            if self._get_type() == _Type.Empty:
                return self
            if not self._is_repeatable():
                raise _ex.CannotBeRepeatedException(self)
            return __class__(
                f"{self._quantify_conditional_group()}{{{n},}}""", """            if not self._is_repeatable():
                raise _ex.CannotBeRepeatedException(self)
            return __class__(
                f"{self._quantify_conditional_group()}{{{n},}}""")])
M("c05-benign-return-new-empty", "C05", [(PRE, """        if self._get_type() == _Type.Empty:
            return self
        if not self._is_repeatable():
            raise _ex.CannotBeRepeatedException(self)
        return __class__(
            f"{self._quantify_conditional_group()}*""", """        if self._get_type() == _Type.Empty:
            return Pregex()
        if not self._is_repeatable():
            raise _ex.CannotBeRepeatedException(self)
        return __class__(
            f"{self._quantify_conditional_group()}*""")], expect="silent")

# ---------------------------------------------------------------- C09
M("c09-indefinite-no-repeat-test", ["C09", "C04"], [(PRE, """        if not self._is_repeatable():
            raise _ex.CannotBeRepeatedException(self)
        return __class__(
            f"{self._quantify_conditional_group()}*""", """        return __class__(
            f"{self._quantify_conditional_group()}*""")])
M("c09-atmost-checks-for-one", ["C09"], [(PRE, """        elif n == 1:
            return self.optional(is_greedy)
        else:""", """        elif n == 1 and self._is_repeatable():
            return self.optional(is_greedy)
        else:""")], rule="R-REPEAT")
M("c09-infer-anchor-repeatable", "C09", [(PRE, """            pattern, flags=__class__.__flags) is not None:
            return _Type.Assertion, False""", """            pattern, flags=__class__.__flags) is not None:
            return _Type.Assertion, True""")], rule="R-FLAGSRC")
M("c09-infer-other-nonrepeatable", "C09", [(PRE, "        return _Type.Other, True", "        return _Type.Other, False")], rule="R-FLAGSRC")
M("c09-recogniser-drops-Z", "C09", [(PRE, r"""(?:\^|\\A|\(\?<=.+\)).+|.+(?:(?<!\\)\$|\\Z|\(\?=.+\))""", r"""(?:\^|\\A|\(\?<=.+\)).+|.+(?:(?<!\\)\$|\(\?=.+\))""")], rule="R-RECOG")
M("c09-emitter-drifts", "C09", [(PRE, '''return __class__(f"\\\\A{self._assert_conditional_group()}", escape=False)''', '''return __class__(f"(?:\\\\A){self._assert_conditional_group()}", escape=False)''')], rule="R-RECOG")
M("c09-flag-written-elsewhere", "C09", [(PRE, """    def _is_repeatable(self) -> bool:""", """    def _set_repeatable(self) -> None:
        self.__repeatable = True


    def _is_repeatable(self) -> bool:""")], rule="R-FLAGSRC")
M("c09-benign-optional-nonrep", "C09", [(PRE, """        if self._get_type() == _Type.Empty:
            return self
        return __class__(
            f"{self._quantify_conditional_group()}?""", """        if self._get_type() == _Type.Empty or self.__pattern == '':
            return self
        return __class__(
            f"{self._quantify_conditional_group()}?""")], expect="silent")

# ---------------------------------------------------------------- C11
M("c11-compiled-arm-match", "C11", [(PRE, "if self.__compiled is None else self.__compiled.search(source))", "if self.__compiled is None else self.__compiled.match(source))")], rule="R-DUAL")
M("c11-uncompiled-no-flags", "C11", [(PRE, "return bool(_re.fullmatch(self.__pattern, source, flags=self.__flags)", "return bool(_re.fullmatch(self.__pattern, source)")], rule="R-DUAL")
M("c11-compile-no-flags", "C11", [(PRE, "self.__compiled = _re.compile(self.get_pattern(), flags=self.__flags)", "self.__compiled = _re.compile(self.get_pattern())")])
M("c11-flags-drop-dotall", "C11", [(PRE, "__flags: _re.RegexFlag = _re.MULTILINE | _re.DOTALL", "__flags: _re.RegexFlag = _re.MULTILINE")], rule="R-FLAGS")
M("c11-getmatches-wrong-iterator", "C11", [(PRE, "return list(match for match in self.iterate_matches(source, is_path))", "return list(match for match, _, _ in self.iterate_matches_and_pos(source, is_path))")], expect="silent")
M("c11-getmatches-drops-is-path", "C11", [(PRE, "return list(match for match in self.iterate_matches(source, is_path))", "return list(match for match in self.iterate_matches(source))")], rule="R-WRAP")
M("c11-getcaptures-swapped-args", "C11", [(PRE, "self.iterate_captures(source, include_empty, is_path))", "self.iterate_captures(source, is_path, include_empty))")], rule="R-WRAP")
M("c11-cache-write-in-has-match", "C11", [(PRE, """        if is_path:
            source = self.__extract_text(source)
        return bool(_re.search(""", """        if is_path:
            source = self.__extract_text(source)
        self.__compiled = None
        return bool(_re.search(""")], rule="R-CACHE")
M("c11-discard-keeps-cache", "C11", [(PRE, """        if discard_after:
            self.__compiled = None""", """        if not discard_after:
            self.__compiled = None""")], rule="R-CACHE")
M("c11-iterate-arm-inverted", "C11", [(PRE, """        return _re.finditer(self.__pattern, source, flags=self.__flags) \\
            if self.__compiled is None else self.__compiled.finditer(source)""", """        return _re.finditer(self.__pattern, source, flags=self.__flags) \\
            if self.__compiled is not None else self.__compiled.finditer(source)""")])
M("c11-matches-yield-group1", "C11", [(PRE, "            yield match.group(0)\n", "            yield match.group(1)\n")], rule="R-YIELD")
M("c11-pos-yields-group1-span", "C11", [(PRE, "yield (match.group(0), *match.span())", "yield (match.group(0), *match.span(1))")], rule="R-YIELD")
M("c11-benign-if-statement", "C11", [(PRE, """        return bool(_re.search(self.__pattern, source, flags=self.__flags) \\
            if self.__compiled is None else self.__compiled.search(source))""", """        if self.__compiled is not None:
            return bool(self.__compiled.search(source))
        return _re.search(str(self), source, self.__flags) is not None""")], expect="silent")
M("c11-benign-list-call", "C11", [(PRE, "return list(match for match in self.iterate_matches(source, is_path))", "return list(self.iterate_matches(source=source, is_path=is_path))")], expect="silent")

# ---------------------------------------------------------------- C12
M("c12-span-counter-reintroduced", "C12", [(PRE, """            groups = dict()
            for k, v in match.groupdict().items():
                if include_empty or (v != ''):
                    start, end = match.span(k)""", """            groups, counter = dict(), 0
            for k, v in match.groupdict().items():
                counter += 1
                if include_empty or (v != ''):
                    start, end = match.span(counter)""")], rule="R-GROUPID")
M("c12-counter-incremented-after-use", "C12", [(PRE, """                counter += 1
                if include_empty or (group != ''):
                    start, end = match.span(counter)
                    if relative_to_match and start > -1:
                        start, end = start - match.start(0), end - match.start(0)
                    groups.append((group, start, end))""", """                if include_empty or (group != ''):
                    start, end = match.span(counter)
                    if relative_to_match and start > -1:
                        start, end = start - match.start(0), end - match.start(0)
                    groups.append((group, start, end))
                counter += 1""")], rule="R-GROUPID")
M("c12-counter-inside-filter", "C12", [(PRE, """                counter += 1
                if include_empty or (group != ''):
                    start, end = match.span(counter)""", """                if include_empty or (group != ''):
                    counter += 1
                    start, end = match.span(counter)""")], rule="R-GROUPID")
M("c12-filter-truthiness", "C12", [(PRE, "tuple(group for group in match.groups() if group != '')", "tuple(group for group in match.groups() if group)")], rule="R-FILTER")
M("c12-named-filter-drops-none", "C12", [(PRE, "{k : v for k, v in match.groupdict().items() if v != ''}", "{k : v for k, v in match.groupdict().items() if v}")], rule="R-FILTER")
M("c12-relpos-shifts-minus-one", "C12", [(PRE, """                    start, end = match.span(counter)
                    if relative_to_match and start > -1:""", """                    start, end = match.span(counter)
                    if relative_to_match:""")], rule="R-RELPOS")
M("c12-relpos-end-unshifted", "C12", [(PRE, """                    start, end = match.span(k)
                    if relative_to_match and start > -1:
                        start, end = start - match.start(0), end - match.start(0)""", """                    start, end = match.span(k)
                    if relative_to_match and start > -1:
                        start, end = start - match.start(0), end""")], rule="R-RELPOS")
M("c12-captures-use-groupdict", "C12", [(PRE, "            yield match.groups() if include_empty else \\", "            yield tuple(match.groupdict().values()) if include_empty else \\")], rule="R-SHAPE")
M("c12-benign-enumerate", "C12", [(PRE, """            groups, counter = list(), 0
            for group in match.groups():
                counter += 1
                if include_empty or (group != ''):""", """            groups = list()
            for counter, group in enumerate(match.groups(), 1):
                if include_empty or (group is None or len(group) > 0):""")], expect="silent")

# ---------------------------------------------------------------- C13
M("c13-index-start", "C13", [(PRE, """            split_list.append(source[index:start])
            index = end
        split_list.append(source[index:])
        return split_list


    def split_by_capture""", """            split_list.append(source[index:start])
            index = start
        split_list.append(source[index:])
        return split_list


    def split_by_capture""")], rule="R-CURSOR")
M("c13-final-piece-dropped", "C13", [(PRE, """                split_list.append(source[index:start])
                index = end
        split_list.append(source[index:])""", """                split_list.append(source[index:start])
                index = end
        if index < len(source):
            split_list.append(source[index:])""")], rule="R-CURSOR")
M("c13-cursor-moves-for-none", "C13", [(PRE, """                if group is None:
                    continue""", """                if group is None:
                    index = end
                    continue""")], rule="R-CURSOR")
M("c13-capture-ignores-include-empty", "C13", [(PRE, "for groups in self.iterate_captures_and_pos(source, include_empty):", "for groups in self.iterate_captures_and_pos(source):")], rule="R-CURSOR")
M("c13-capture-skips-falsy", "C13", [(PRE, """                if group is None:
                    continue""", """                if not group:
                    continue""")], rule="R-CURSOR")
M("c13-sub-args-swapped", "C13", [(PRE, "return _re.sub(str(self), repl, source, count, flags=self.__flags)", "return _re.sub(str(self), source, repl, count, flags=self.__flags)")], rule="R-REPLACE")
M("c13-sub-count-dropped", "C13", [(PRE, "return _re.sub(str(self), repl, source, count, flags=self.__flags)", "return _re.sub(str(self), repl, source, flags=self.__flags)")], rule="R-REPLACE")
M("c13-sub-flags-dropped", "C13", [(PRE, "return _re.sub(str(self), repl, source, count, flags=self.__flags)", "return _re.sub(str(self), repl, source, count)")], rule="R-REPLACE")
M("c13-count-guard-removed", "C13", [(PRE, """        if count < 0:
            message = "Parameter \\"count\\" can't be negative."
            raise _ex.InvalidArgumentValueException(message)
        if is_path:""", """        if is_path:""")], rule="R-REPLACE")
M("c13-count-guard-off-by-one", "C13", [(PRE, """        if count < 0:
            message = "Parameter \\"count\\" can't be negative.\"""", """        if count < -1:
            message = "Parameter \\"count\\" can't be negative.\"""")], rule="R-REPLACE")
M("c13-benign-enumerate-temp", "C13", [(PRE, """        for _, start, end in self.iterate_matches_and_pos(source):
            split_list.append(source[index:start])
            index = end
        split_list.append(source[index:])
        return split_list


    def split_by_capture""", """        for i, (_, start, end) in enumerate(self.iterate_matches_and_pos(source)):
            piece = source[index:start]
            split_list.append(piece)
            index = end
        split_list += [source[index:]]
        return split_list


    def split_by_capture""")], expect="silent")

# ---------------------------------------------------------------- C14
M("c14-prologue-removed-split", "C14", [(PRE, """        if is_path:
            source = self.__extract_text(source)
        split_list, index = list(), 0
        for _, start, end in self.iterate_matches_and_pos(source):""", """        split_list, index = list(), 0
        for _, start, end in self.iterate_matches_and_pos(source):""")], rule="R-PATHSTATE")
M("c14-double-extraction", "C14", [(PRE, """        if is_path:
            source = self.__extract_text(source)
        split_list, index = list(), 0
        for _, start, end in self.iterate_matches_and_pos(source):""", """        if is_path:
            source = self.__extract_text(source)
        split_list, index = list(), 0
        for _, start, end in self.iterate_matches_and_pos(source, is_path):""")], rule="R-PATHSTATE")
M("c14-context-slices-path", "C14", [(PRE, """        if is_path:
            source = self.__extract_text(source)
        for _, start, end in self.iterate_matches_and_pos(source):
            yield source[max""", """        for _, start, end in self.iterate_matches_and_pos(source, is_path):
            yield source[max""")], rule="R-PATHSTATE")
M("c14-has-match-ignores-is-path", "C14", [(PRE, """        if is_path:
            source = self.__extract_text(source)
        return bool(_re.search(""", """        return bool(_re.search(""")], rule="R-PATHSTATE")
M("c14-captures-drop-is-path", "C14", [(PRE, "for match in self.__iterate_match_objects(source, is_path):\n            yield match.groups() if include_empty", "for match in self.__iterate_match_objects(source, False):\n            yield match.groups() if include_empty")], rule="R-PATHSTATE")
M("c14-reader-latin1", "C14", [(PRE, "with open(file=source, mode='r', encoding='utf-8') as f:", "with open(file=source, mode='r', encoding='latin-1') as f:")], rule="R-READER")
M("c14-window-plus-left", "C14", [(PRE, "yield source[max(start - n_left, 0):min(end + n_right, len(source))]", "yield source[max(start + n_left, 0):min(end + n_right, len(source))]")], rule="R-WINDOW")
M("c14-window-no-clamp", "C14", [(PRE, "yield source[max(start - n_left, 0):min(end + n_right, len(source))]", "yield source[start - n_left:min(end + n_right, len(source))]")], rule="R-WINDOW")
M("c14-window-from-end", "C14", [(PRE, "yield source[max(start - n_left, 0):min(end + n_right, len(source))]", "yield source[max(start - n_left, 0):min(start + n_right, len(source))]")], rule="R-WINDOW")
M("c14-nright-guard-removed", "C14", [(PRE, """        if n_right < 0:
            message = "Parameter \\"n_right\\" can't be negative."
            raise _ex.InvalidArgumentValueException(message)
""", "")], rule="R-WINARGS")
M("c14-nleft-accepts-bool", "C14", [(PRE, "if not isinstance(n_left, int) or isinstance(n_left, bool):", "if not isinstance(n_left, int):")], rule="R-WINARGS")
M("c14-benign-no-min", "C14", [(PRE, "yield source[max(start - n_left, 0):min(end + n_right, len(source))]", "yield source[max(start - n_left, 0):end + n_right]")], expect="silent")
M("c14-benign-helper", "C14", [(PRE, """        if is_path:
            source = self.__extract_text(source)
        return bool(_re.search(""", """        source = self.__extract_text(source) if is_path else source
        return bool(_re.search(""")], expect="silent")

# ---------------------------------------------------------------- C20
M("c20-concat-writes-pattern", "C20", [(PRE, """        pattern = pattern + pre if on_right else pre + pattern

        return __class__(pattern, escape=False)""", """        pattern = pattern + pre if on_right else pre + pattern
        self.__pattern = pattern
        return self""")], rule="R-WRITEONCE")
M("c20-write-on-operand", "C20", [(PRE, """        pre = __class__._to_pregex(pre)

        if pre._get_type() == _Type.Empty:
            return self

        pattern = self._concat_conditional_group()""", """        pre = __class__._to_pregex(pre)
        pre._used = True

        if pre._get_type() == _Type.Empty:
            return self

        pattern = self._concat_conditional_group()""")], rule="R-WRITEONCE")
M("benign-exact-memo-of-operand", "C20", [(PRE, "class _Type(_enum.Enum):", "_MEMO = {}\n\n\nclass _Type(_enum.Enum):"),
                             (PRE, """        if isinstance(pre, str):
            return Pregex(pre, escape=True)""", """        if isinstance(pre, str):
            if pre not in _MEMO:
                _MEMO[pre] = Pregex(pre, escape=True)
            return _MEMO[pre]""")], expect="silent")   # an exact memo (key = the only parameter) of an immutable value: the property still holds
M("c20-table-mutated", "C20", [(PRE, """        return __class__.__groupping_rules[self.__type][0]""", """        __class__.__groupping_rules.setdefault(self.__type, (False, False, False))
        return __class__.__groupping_rules[self.__type][0]""")], rule="R-NOSHARED")
M("c20-infix-append", "C20", [(ESS, """        if not isinstance(infix, list):
            infix = [infix]
        for s in infix:""", """        if not isinstance(infix, list):
            infix = [infix]
        else:
            infix.append(infix[0])
        for s in infix:""")], rule="R-NOARGMUT")
M("c20-reduce-chars-unfresh", "C20", [(CLS, "ranges, chars = reduce_chars(list(ranges), list(chars))", "chars = list(chars)\n        ranges, chars = reduce_chars(list(ranges), chars)")], expect="fire", rule="R-NOARGMUT")
M("c20-alternation-from-set", "C20", [(ESS, "        either_sign = _op.Either('+', '-')\n", "        either_sign = _op.Either(*{'+', '-'})\n")], rule="R-SETORDER")
M("c20-join-set-as-alternation", "C20", [(CLS, """            f"[{'^' if pre1.__is_negated else ''}{''.join(result)}]",
            pre1.__is_negated, simplify_word)""", """            f"(?:{'|'.join(result)})",
            pre1.__is_negated, simplify_word)""")], rule="R-SETORDER")
M("c20-hash-in-text", "C20", [(PRE, "    def __str__(self) -> str:", "    def _key(self) -> str:\n        return str(hash(self.__pattern))\n\n\n    def __str__(self) -> str:")], rule="R-NOHIDDEN")
M("c20-global-counter", "C20", [(PRE, "class _Type(_enum.Enum):", "_COUNT = 0\n\n\nclass _Type(_enum.Enum):"),
                                (PRE, "        self.__compiled: _re.Pattern = None\n", "        self.__compiled: _re.Pattern = None\n        global _COUNT\n        _COUNT += 1\n")], rule="R-NOSHARED")
M("c20-mutable-default", "C20", [(ESS, "    def __init__(self, formats: _Optional[_Union[str, list[str]]] = None, is_extensible: bool = False) -> _pre.Pregex:", "    def __init__(self, formats: _Optional[_Union[str, list[str]]] = [], is_extensible: bool = False) -> _pre.Pregex:")], rule="R-NOSHARED")
M("c20-benign-local-list", "C20", [(ESS, "        dates: list[_pre.Pregex] = []\n", "        dates = list()\n")], expect="silent")
M("c20-benign-sorted-set", "C20", [(PRE, "        for c in {'^', '$', '(', ')', '[', ']', '{', '}', '?', '+', '*', '.', '|', '/'}:", "        for c in sorted({'^', '$', '(', ')', '[', ']', '{', '}', '?', '+', '*', '.', '|', '/'}):")], expect="silent")

# ---------------------------------------------------------------- C10
_GUARD = '''        if _re.search(_re.sub(r"\\s", "", r"""
            (?<!\\\\)(?:\\\\\\\\)*(?<!\\()(?:\\?|\\*|\\+|\\{,\\d+\\}|\\{\\d+,\\}|\\{\\d+,\\d+\\})|
            (?<!\\\\)(?:\\\\\\\\)*\\\\\\((?:\\?|\\*|\\+|\\{,\\d+\\}|\\{\\d+,\\}|\\{\\d+,\\d+\\})
        """), str(pre)) is not None:
            raise _ex.NonFixedWidthPatternException(pre)
'''
M("c10-guard-removed-not-preceded-by", "C10", [(PRE, _GUARD + '''        pattern = f"(?<!{pre}){self._assert_conditional_group()}"''', '''        pattern = f"(?<!{pre}){self._assert_conditional_group()}"''')], rule="R-LB-GUARD")
M("c10-one-copy-without-star", "C10", [(PRE, '''            (?<!\\\\)(?:\\\\\\\\)*(?<!\\()(?:\\?|\\*|\\+|\\{,\\d+\\}|\\{\\d+,\\}|\\{\\d+,\\d+\\})|
            (?<!\\\\)(?:\\\\\\\\)*\\\\\\((?:\\?|\\*|\\+|\\{,\\d+\\}|\\{\\d+,\\}|\\{\\d+,\\d+\\})
        """), str(pre)) is not None:
            raise _ex.NonFixedWidthPatternException(pre)
        return __class__(
            f"(?<={pre}){self._assert_conditional_group()}",''', '''            (?<!\\\\)(?:\\\\\\\\)*(?<!\\()(?:\\?|\\+|\\{,\\d+\\}|\\{\\d+,\\}|\\{\\d+,\\d+\\})|
            (?<!\\\\)(?:\\\\\\\\)*\\\\\\((?:\\?|\\*|\\+|\\{,\\d+\\}|\\{\\d+,\\}|\\{\\d+,\\d+\\})
        """), str(pre)) is not None:
            raise _ex.NonFixedWidthPatternException(pre)
        return __class__(
            f"(?<={pre}){self._assert_conditional_group()}",''')])
M("c10-guard-after-emit-order", "C10", [(PRE, '''        pre = __class__._to_pregex(pre)
        if pre._get_type() == _Type.Empty:
            raise _ex.EmptyNegativeAssertionException()
''' + _GUARD + '''        pattern = f"(?<!{pre}){self._assert_conditional_group()}(?!{pre})"''', '''        pre = __class__._to_pregex(pre)
''' + _GUARD + '''        if pre._get_type() == _Type.Empty:
            raise _ex.EmptyNegativeAssertionException()
        pattern = f"(?<!{pre}){self._assert_conditional_group()}(?!{pre})"''')], expect="silent")  # '' never trips the guard: benign reorder
M("c10-guard-on-self-instead-of-pre", "C10", [(PRE, '''        """), str(pre)) is not None:
            raise _ex.NonFixedWidthPatternException(pre)
        return __class__(
            f"(?<={pre}){self._assert_conditional_group()}(?={pre})",''', '''        """), str(self)) is not None:
            raise _ex.NonFixedWidthPatternException(pre)
        return __class__(
            f"(?<={pre}){self._assert_conditional_group()}(?={pre})",''')], rule="R-LB-GUARD")
M("c10-followed-by-gets-guard", "C10", [(PRE, '''        return __class__(
            f"{self._assert_conditional_group()}(?={pre})",''', '''        if "*" in str(pre) or "+" in str(pre):
            raise _ex.NonFixedWidthPatternException(pre)
        return __class__(
            f"{self._assert_conditional_group()}(?={pre})",''')], rule="R-LB-GUARD")
M("c10-guard-drops-range-form", "C10", [(PRE, "(?<!\\\\)(?:\\\\\\\\)*(?<!\\()(?:\\?|\\*|\\+|\\{,\\d+\\}|\\{\\d+,\\}|\\{\\d+,\\d+\\})|", "(?<!\\\\)(?:\\\\\\\\)*(?<!\\()(?:\\?|\\*|\\+|\\{,\\d+\\}|\\{\\d+,\\})|", 0)], rule="R-LB-GUARD")

# ---------------------------------------------------------------- C18
M("c18-ipv4-octet-256", "C18", [(ESS, "'5' + (any_digit_up_to_four | '5')", "'5' + (any_digit_up_to_four | '5' | '6')")], rule="R-IPV4")
M("c18-ipv4-leading-zero", "C18", [(ESS, "            any_digit_but_zero + _cl.AnyDigit(),\n            '1' + 2 * _cl.AnyDigit(),", "            _cl.AnyDigit() + _cl.AnyDigit(),\n            '1' + 2 * _cl.AnyDigit(),")], rule="R-IPV4")
M("c18-ipv4-three-octets", "C18", [(ESS, 'pre = 3 * (ip_octet + ".") + ip_octet', 'pre = 2 * (ip_octet + ".") + ip_octet')], rule="R-IPV4")
M("c18-ipv4-guard-dropped", "C18", [(ESS, '            pre = pre.not_enclosed_by(_op.Either(_cl.AnyDigit(), "."))', '            pre = pre.not_preceded_by(_op.Either(_cl.AnyDigit(), "."))')], rule="R-IPV4")
M("c18-ipv4-up-to-four", "C18", [(ESS, "any_digit_up_to_four = _cl.AnyBetween('0', '4')", "any_digit_up_to_four = _cl.AnyBetween('0', '3')")], rule="R-IPV4")
M("c18-ipv6-right-bound", "C18", [(ESS, "m=6-i) if i < 6 else empty", "m=7-i) if i < 7 else empty")], rule="R-IPV6")
M("c18-ipv6-range-7", "C18", [(ESS, "        for i in range(8):\n            pre = _op.Either(", "        for i in range(7):\n            pre = _op.Either(")], rule="R-IPV6")
M("c18-ipv6-left-bound", "C18", [(ESS, 'n=0, m=i-1) if i > 1 else empty', 'n=0, m=i) if i > 1 else empty')], rule="R-IPV6")
M("c18-ipv6-seven-groups", "C18", [(ESS, 'pre = 7 * (hex_group + ":") + hex_group', 'pre = 6 * (hex_group + ":") + hex_group')], rule="R-IPV6")
M("c18-ipv6-group-length", "C18", [(ESS, "hex_group = Numeral(base=16, n_min=1, n_max=4, is_extensible=is_extensible)", "hex_group = Numeral(base=16, n_min=1, n_max=5, is_extensible=is_extensible)")], rule="R-IPV6")
M("c18-ipv6-no-bare-double-colon", "C18", [(ESS, '        pre = _op.Either(pre, "::")\n', '')], rule="R-IPV6")
M("c18-benign-octet-reordered", "C18", [(ESS, """            _cl.AnyDigit(),
            any_digit_but_zero + _cl.AnyDigit(),
            '1' + 2 * _cl.AnyDigit(),""", """            '1' + 2 * _cl.AnyDigit(),
            any_digit_but_zero + _cl.AnyDigit(),
            _cl.AnyDigit(),""")], expect="silent")
M("c18-benign-explicit-octets", "C18", [(ESS, 'pre = 3 * (ip_octet + ".") + ip_octet', 'pre = ip_octet + "." + ip_octet + "." + ip_octet + "." + ip_octet')], expect="silent")

# ---------------------------------------------------------------- C19
M("c19-benign-dead-first-digit", "C19", [(ESS, "either_one_or_two.either('3') + \\", "either_one_or_two.either('3').either('4') + \\")], expect="silent")  # '4' can never be followed: language unchanged
M("c19-dd-32", "C19", [(ESS, "either_zero_or_one.preceded_by('3')", "either_one_or_two.either('0').preceded_by('3')")], rule="R-DATE-TOKENS")
M("c19-dd-lookbehind-dropped", "C19", [(ESS, "_cl.AnyDigit().preceded_by(either_one_or_two),", "_cl.AnyDigit(),")], rule="R-DATE-TOKENS")
M("c19-mm-13", "C19", [(ESS, "'1' + either_zero_or_one.either('2')),", "'1' + either_zero_or_one.either('2').either('3')),")], rule="R-DATE-TOKENS")
M("c19-yyyy-three-digits", "C19", [(ESS, "'yyyy': _cl.AnyDigit() * 4,", "'yyyy': _cl.AnyDigit() * 3,")], rule="R-DATE-TOKENS")
M("c19-d-allows-zero", "C19", [(ESS, "'d': any_digit_but_zero, ", "'d': _cl.AnyDigit(), ")], rule="R-DATE-TOKENS")
M("c19-format-dropped", "C19", [(ESS, "                    date_formats.append((y, m, d))\n", "                    if d == 'dd':\n                        date_formats.append((y, m, d))\n")], rule="R-DATE-FORMATS")
M("c19-wrong-separator", "C19", [(ESS, "            if i < len(values) - 1:\n                pre += separator", "            if i < len(values) - 1:\n                pre += '-'")], rule="R-DATE-SKELETON")
M("c19-day-month-swapped-table", "C19", [(ESS, "            'm': any_digit_but_zero,\n            'mm': _op.Either(", "            'm': any_digit_but_zero,\n            'MM': _op.Either(")], expect="fire")
M("c19-validation-removed", "C19", [(ESS, """            if format not in date_formats:
                message = f"Provided date format \\"{format}\\" is not valid."
                raise _ex.InvalidArgumentValueException(message)
""", "")], expect="fire")
M("c19-boundary-dropped", "C19", [(ESS, "        pre = _op.Either(*dates)\n\n        if not is_extensible:\n            pre = pre.enclose(_asr.WordBoundary())", "        pre = _op.Either(*dates)\n\n        if is_extensible:\n            pre = pre.enclose(_asr.WordBoundary())")], rule="R-DATE-SELECT")
M("c19-benign-loop-order", "C19", [(ESS, """        day = ("dd", "d")
        month = ("mm", "m")""", """        day = ("d", "dd")
        month = ("m", "mm")""")], expect="silent")
M("c19-benign-mm-respelled", "C19", [(ESS, "'1' + either_zero_or_one.either('2')),", "'1' + _cl.AnyBetween('0', '2')),")], expect="silent")

# ---------------------------------------------------------------- C17
M("c17-digit-map-wrong-letter", "C17", [(ESS, '12 : _cl.AnyFrom("b", "B")', '12 : _cl.AnyFrom("b", "D")')], rule="R-NUM-ALPHABET")
M("c17-range-off-by-one", "C17", [(ESS, "for i in range(2, base + 1):", "for i in range(2, base):")], rule="R-NUM-ALPHABET")
M("c17-benign-any-between-0-2", "C17", [(ESS, 'pre = _cl.AnyBetween("0", "1")', 'pre = _cl.AnyBetween("0", "2")')], expect="silent")  # only reached for base >= 3, where '2' is a digit anyway
M("c17-base2-digits", "C17", [(ESS, 'pre = _op.Either("0", "1")', 'pre = _op.Either("0", "1", "2")')], rule="R-NUM-ALPHABET")
M("c17-numeral-bounds-swapped", "C17", [(ESS, "pre = pre.at_least_at_most(n=n_min, m=n_max)", "pre = pre.at_least_at_most(n=n_min, m=n_min)")], rule="R-NUM-BOUNDS")
M("c17-word-bounds-off", "C17", [(ESS, "pre = pre.at_least_at_most(n=min_chars, m=max_chars)", "pre = pre.at_least_at_most(n=min_chars - 1, m=max_chars)")])
M("c17-word-boundary-inverted", "C17", [(ESS, "        if not is_extensible:\n            pre = pre.enclose(_asr.WordBoundary())\n        super().__init__(str(pre), escape=False)\n\n\n\nclass Word(", "        if is_extensible:\n            pre = pre.enclose(_asr.WordBoundary())\n        super().__init__(str(pre), escape=False)\n\n\n\nclass Word(")])
M("c17-prefix-on-wrong-side", "C17", [(ESS, "        pre = _op.Either(*prefix)\n        pre = pre + _qu.Indefinite(_cl.AnyWordChar(is_global=is_global))", "        pre = _op.Either(*prefix)\n        pre = _qu.Indefinite(_cl.AnyWordChar(is_global=is_global)) + pre")], rule="R-WORD-SKELETON")
M("c17-contains-one-or-more", "C17", [(ESS, "            _op.Either(*infix),\n            _qu.Indefinite(_cl.AnyWordChar(is_global=is_global))", "            _op.Either(*infix),\n            _qu.OneOrMore(_cl.AnyWordChar(is_global=is_global))")], rule="R-WORD-SKELETON")
M("c17-global-not-forwarded", "C17", [(ESS, "        pre = _op.Either(*suffix)\n        pre = _qu.Indefinite(_cl.AnyWordChar(is_global=is_global)) + pre", "        pre = _op.Either(*suffix)\n        pre = _qu.Indefinite(_cl.AnyWordChar()) + pre")], rule="R-WORD-SKELETON")
M("c17-base-guard-16", "C17", [(ESS, "if base < 2 or base > 16:", "if base < 2 or base > 17:")])
M("c17-benign-nmin-bool-rejected-downstream", "C17", [(ESS, "if not isinstance(n_min, int) or isinstance(n_min, bool):", "if not isinstance(n_min, int):")], expect="silent")  # at_least_at_most still raises the same exception
M("c17-nmin-guard-removed", "C17", [(ESS, """        elif n_min < 0:
            message = "Parameter \\"n_min\\" must be positive."
            raise _ex.InvalidArgumentValueException(message)
        elif not isinstance(n_max, int)""", """        elif not isinstance(n_max, int)""")], expect="silent")  # idem: the quantifier validates n
M("c17-benign-concat-class", "C17", [(ESS, "        pre = _op.Either(*prefix)\n        pre = pre + _qu.Indefinite(_cl.AnyWordChar(is_global=is_global))", "        pre = _op.Concat(_op.Either(*prefix), _cl.AnyWordChar(is_global=is_global).indefinite())")], expect="silent")
M("c17-benign-digit-map-respelled", "C17", [(ESS, '11 : _cl.AnyFrom("a", "A")', '11 : _cl.AnyFrom("A", "a")')], expect="silent")

# ---------------------------------------------------------------- C16
M("c16-bounds-swapped", "C16", [(ESS, 'pre += "." + Numeral(n_min=min_decimal, n_max=max_decimal, is_extensible=is_extensible)', 'pre += "." + Numeral(n_min=max_decimal, n_max=min_decimal, is_extensible=is_extensible)')])
M("c16-wrong-integer-class", "C16", [(ESS, "        integer_part = NegativeInteger(start, end, is_extensible)", "        integer_part = PositiveInteger(start, end, is_extensible)")], rule="R-DEC-VARIANT")
M("c16-start-test-altered", "C16", [(ESS, """        integer_part = PositiveInteger(start, end, is_extensible)
        if start == 0:""", """        integer_part = PositiveInteger(start, end, is_extensible)
        if start <= 1:""")], rule="R-DEC-VARIANT")
M("c16-negative-optional-sign", "C16", [(ESS, "            no_integer_part += '-'\n", "            no_integer_part += _qu.Optional('-')\n")], rule="R-DEC-SIGN")
M("c16-positive-allows-minus", "C16", [(ESS, '            no_integer_part += _qu.Optional("+")\n', '            no_integer_part += _qu.Optional(_op.Either("+", "-"))\n')], rule="R-DEC-SIGN")
M("c16-digit-guard-lost", "C16", [(ESS, """        if start == 0:
            no_integer_part = _pre.Pregex().not_preceded_by(_cl.AnyDigit())
            if include_sign:""", """        if start == 0:
            no_integer_part = _pre.Pregex()
            if include_sign:""")], rule="R-DEC-SIGN")
M("c16-dot-dropped", "C16", [(ESS, 'pre += "." + Numeral(n_min=min_decimal', 'pre += Numeral(n_min=min_decimal')], rule="R-DEC-SKELETON")
M("c16-extensible-not-forwarded", "C16", [(ESS, 'Numeral(n_min=min_decimal, n_max=max_decimal, is_extensible=is_extensible)', 'Numeral(n_min=min_decimal, n_max=max_decimal)')], rule="R-DEC-SKELETON")
M("c16-min-decimal-zero-ok", "C16", [(ESS, "        elif min_decimal < 1:", "        elif min_decimal < 0:")], rule="R-ARGS")
M("c16-integer-args-swapped", "C16", [(ESS, "integer_part = UnsignedInteger(start, end, is_extensible)", "integer_part = UnsignedInteger(end, start, is_extensible)")])
M("c16-benign-keyword-args", "C16", [(ESS, "integer_part = UnsignedInteger(start, end, is_extensible)", "integer_part = UnsignedInteger(start=start, end=end, is_extensible=is_extensible)")], expect="silent")

# ---------------------------------------------------------------- C06
M("c06-letter-typo-A-z", "C06", [(CLS, "super().__init__('[^a-zA-Z]', is_negated=True)", "super().__init__('[^a-zA-z]', is_negated=True)")], rule="R-CLASSCONST")
M("c06-anybutdigit-flag", "C06", [(CLS, "super().__init__('[^0-9]', is_negated=True)", "super().__init__('[^0-9]', is_negated=False)")], rule="R-CLASSCONST")
M("c06-twin-edited-alone", "C06", [(CLS, "super().__init__('[^\\u4e00-\\u9fd5]', is_negated=True)", "super().__init__('[^\\u4e00-\\u9fff]', is_negated=True)")], rule="R-CLASSCONST")
M("c06-punctuation-gap", "C06", [(CLS, "super().__init__('[!-\\/:-@\\[-`{-~]', is_negated=False)", "super().__init__('[!-\\/:-@\\[-_{-~]', is_negated=False)")], rule="R-CLASSCONST")
M("c06-dollar-unescaped", "C06", [(TOK, 'super().__init__("\\\\\\u0024")', 'super().__init__("\\u0024")')])
M("c06-euro-wrong-codepoint", "C06", [(TOK, 'super().__init__("\\u20ac")', 'super().__init__("\\u20ad")')], rule="R-TOKENS")
M("c06-to-escape-minus-bracket", "C06", [(CLS, "_to_escape = ('\\\\', '^', '[', ']', '-', '/', '$')", "_to_escape = ('\\\\', '^', '[', '-', '/', '$')")])
M("c06-to-escape-minus-dollar", "C06", [(CLS, "_to_escape = ('\\\\', '^', '[', ']', '-', '/', '$')", "_to_escape = ('\\\\', '^', '[', ']', '-', '/')")])
M("c06-range-pattern-minus-dash", "C06", [(CLS, 'r"(?:\\\\(?:\\[|\\]|\\^|\\$|\\-|\\/|[a-z]|\\\\)|[^\\[\\]\\^\\$\\-\\/\\\\])" + \\', 'r"(?:\\\\(?:\\[|\\]|\\^|\\$|\\/|[a-z]|\\\\)|[^\\[\\]\\^\\$\\-\\/\\\\])" + \\')])
M("c06-anybutfrom-no-escape", "C06", [(CLS, """        chars = tuple((f"\\{c}" if c in __class__._to_escape else c)
            if isinstance(c, str) else str(c) for c in chars)""", """        chars = tuple(c
            if isinstance(c, str) else str(c) for c in chars)""")])
M("c06-anybetween-end-unescaped", "C06", [(CLS, """        end = f"\\\\{end}" if end in __class__._to_escape else end
        super().__init__(f"[{start}-{end}]", is_negated=False)""", """        super().__init__(f"[{start}-{end}]", is_negated=False)""")], rule="R-ROUNDTRIP")
M("c06-anybutbetween-not-negated", "C06", [(CLS, 'super().__init__(f"[^{start}-{end}]", is_negated=True)', 'super().__init__(f"[{start}-{end}]", is_negated=True)')])
M("c06-range-check-weak", "C06", [(CLS, """        if ord(start) >= ord(end):
            raise _ex.InvalidRangeException(start, end)
        start = f"\\\\{start}" if start in __class__._to_escape else start
        end = f"\\\\{end}" if end in __class__._to_escape else end
        super().__init__(f"[{start}-{end}]", is_negated=False)""", """        if ord(start) > ord(end):
            raise _ex.InvalidRangeException(start, end)
        start = f"\\\\{start}" if start in __class__._to_escape else start
        end = f"\\\\{end}" if end in __class__._to_escape else end
        super().__init__(f"[{start}-{end}]", is_negated=False)""")], rule="R-ARGS")
M("c06-anyfrom-accepts-no-args", "C06", [(CLS, """        if len(chars) == 0:
            message = f"No characters were provided to \\"{__class__.__name__}\\"."
            raise _ex.NotEnoughArgumentsException(message)
""", "", -1)], rule="R-ARGS")
M("c06-benign-respelled-constant", "C06", [(CLS, "super().__init__('[a-zA-Z]', is_negated=False)", "super().__init__('[A-Za-z]', is_negated=False)"),
                                          (CLS, "super().__init__('[^a-zA-Z]', is_negated=True)", "super().__init__('[^\\u0041-\\u005aa-z]', is_negated=True)")], expect="silent")
M("c06-benign-escape-more", "C06", [(CLS, "_to_escape = ('\\\\', '^', '[', ']', '-', '/', '$')", "_to_escape = ('\\\\', '^', '[', ']', '-', '/', '$', '&')")], expect="fire")  # '&' is not readable after a backslash: R_esc >= W

# ---------------------------------------------------------------- C07
M("c07-covered-range-split-again", "C07", [(CLS, "if start_1 >= start_2 and end_1 <= end_2:\n                            ranges1.pop(i)", "if start_1 == start_2 and end_1 == end_2:\n                            ranges1.pop(i)")], rule="R-SETALG")
M("c07-subtract-minus-to-plus", "C07", [(CLS, "split_rng.append((start_1, chr(ord(start_2) - 1)))\n                        elif", "split_rng.append((start_1, chr(ord(start_2) + 1)))\n                        elif")], rule="R-SETALG")
M("c07-reduce-ranges-strict", "C07", [(CLS, "if start_i <= start_j and ord(end_i) + 1 >= ord(start_j):", "if start_i <= start_j and ord(end_i) + 1 > ord(start_j):")], expect="silent")  # adjacent ranges stay separate: same set
M("c07-reduce-ranges-wrong-max", "C07", [(CLS, "ranges[i] = start_i, max(end_i, end_j)", "ranges[i] = start_i, end_j")], rule="R-SETALG")
M("c07-reduce-chars-wrong-side", "C07", [(CLS, "                    elif ord(end) == ord(chars[i]) - 1:\n                        ranges[j][1] = chars[i]", "                    elif ord(end) == ord(chars[i]) - 1:\n                        ranges[j][0] = chars[i]")], rule="R-SETALG")
M("c07-char-steps-before-ranges", "C07", [(CLS, "        # 2.d Subtract chars2 from chars1.\n        chars1 = chars1.difference(chars2)\n", "        # 2.d Subtract chars2 from chars1.\n        chars1 = chars1.difference(set())\n")], rule="R-SETALG")
M("c07-empty-test-removed", "C07", [(CLS, "        if len(result) == 0:\n            raise _ex.EmptyClassException(pre1, pre2)\n", "")], rule="R-SETALG")
M("c07-or-polarity-test-removed", "C07", [(CLS, "        if  pre1.__is_negated != pre2.__is_negated:\n            raise _ex.CannotBeUnionedException(pre2, True)\n", "")], rule="R-ALG-GUARD")
M("c07-invert-same-polarity", "C07", [(CLS, "}]\", not self.__is_negated)", "}]\", self.__is_negated)")])
M("c07-invert-strip-again", "C07", [(CLS, "self.__verbose[len('[' + rs):-1]", "self.__verbose.lstrip('[' + rs).rstrip(']')")], rule="R-INVERT")
M("c07-benign-negated-wraps-char", "C07", [(CLS, "        if not self.__is_negated:\n            if isinstance(pre, str) and (len(pre) == 1):", "        if True:\n            if isinstance(pre, str) and (len(pre) == 1):", -1)], expect="silent")  # still CannotBeUnionedException (polarity mix)
M("c07-any-minus-x", "C07", [(CLS, "        if isinstance(pre1, Any):\n            return ~ pre2", "        if isinstance(pre1, Any):\n            return pre2")], rule="R-ALG-GUARD")
M("c07-global-subtraction-allowed", "C07", [(CLS, "        if isinstance(pre1, (AnyWordChar, AnyButWordChar)) and pre1._is_global():\n            raise _ex.GlobalWordCharSubtractionException(pre1)\n", "")], rule="R-ALG-GUARD")
M("c07-wordchar-invert-loses-global", "C07", [(CLS, "        return AnyButWordChar(is_global=self._is_global())", "        return AnyButWordChar()")], rule="R-ALG-GUARD")
M("c07-benign-slice-removeprefix", "C07", [(CLS, "self.__verbose[len('[' + rs):-1]", "self.__verbose.removeprefix('[' + rs).removesuffix(']')")], expect="silent")

# ---------------------------------------------------------------- C08
M("c08-capture-count-dropped", "C08", [(PRE, "f'(?P<{name}>', pattern, count=1)", "f'(?P<{name}>', pattern)")], rule="R-GROUP-CASE")
M("c08-group-count-dropped", "C08", [(PRE, """                    f"(?{'i' if is_case_insensitive else ''}:", str(self), count=1)""", """                    f"(?{'i' if is_case_insensitive else ''}:", str(self))""")], rule="R-GROUP-CASE")
M("c08-noncap-to-cap-wrong-prefix", "C08", [(PRE, "pattern = self.__pattern.replace('?:', '', 1)", "pattern = self.__pattern.replace('?', '', 1)")], rule="R-GROUP-CASE")
M("c08-flag-reset-all", "C08", [(PRE, """                    self.__pattern,
                    count=1)
            elif self.__pattern.startswith('(?'):""", """                    self.__pattern)
            elif self.__pattern.startswith('(?'):""")], rule="R-GROUP-CASE")
M("c08-uncapture-all-parens", "C08", [(PRE, """                pattern = self.__pattern.replace('(',
                    f"(?{'i' if is_case_insensitive else ''}:", 1)""", """                pattern = self.__pattern.replace('(',
                    f"(?{'i' if is_case_insensitive else ''}:")""")], rule="R-GROUP-CASE")
M("c08-lookaround-as-group-again", "C08", [(PRE, "            elif self.__pattern.startswith('(?') and not self.__pattern.startswith('(?P<'):", "            elif _re.match('\\(\\?[i].+', self.__pattern):")], rule="R-GROUP-CASE")
M("c08-named-capture-keeps-old-name", "C08", [(PRE, """                if pattern.startswith('(?P'):
                    pattern =""", """                if pattern.startswith('(?P<x'):
                    pattern =""")], rule="R-GROUP-CASE")
M("c08-capture-nongroup-no-name", "C08", [(PRE, """            pattern = f"({f'?P<{name}>' if name != None else ''}{self})\"""", """            pattern = f"({self})\"""")], rule="R-GROUP-CASE")
M("c08-name-validator-admits-dash", "C08", [(PRE, '''if _re.fullmatch("[A-Za-z_]\\w*", name) is None or not name.isidentifier():''', '''if _re.fullmatch("[A-Za-z_][\\w-]*", name) is None:''')], rule="R-NAME")
M("c08-name-check-after-empty", "C08", [(PRE, """        if name is not None:
            if not isinstance(name, str):
                message = "Provided argument \\"name\\" is not a string."
                raise _ex.InvalidArgumentTypeException(message)
            if _re.fullmatch("[A-Za-z_]\\w*", name) is None or not name.isidentifier():
                raise _ex.InvalidCapturingGroupNameException(name)
        if self.__type == _Type.Empty:
            return self""", """        if self.__type == _Type.Empty:
            return self
        if name is not None:
            if not isinstance(name, str):
                message = "Provided argument \\"name\\" is not a string."
                raise _ex.InvalidArgumentTypeException(message)
            if _re.fullmatch("[A-Za-z_]\\w*", name) is None or not name.isidentifier():
                raise _ex.InvalidCapturingGroupNameException(name)""")], rule="R-NAME")
M("c08-backref-accepts-bool", "C08", [(GRP, """            if isinstance(ref, bool):
                message = "Parameter \\"ref\\" is neither an integer nor a string."
                raise _ex.InvalidArgumentTypeException(message)
""", "")], rule="R-BACKREF")
M("c08-backref-range-100", "C08", [(GRP, "if ref < 1 or ref > 99:", "if ref < 1 or ref > 100:")], rule="R-BACKREF")
M("c08-backref-template", "C08", [(GRP, 'transform = lambda s : f"(?P={s})"', 'transform = lambda s : f"(?P<{s}>)"')], rule="R-BACKREF")
M("c08-conditional-name-unchecked", "C08", [(GRP, """        if _re.fullmatch("[A-Za-z_][\\w]*", name) is None or not name.isidentifier():
            raise _ex.InvalidCapturingGroupNameException(name)
""", "")], rule="R-BACKREF")
M("c08-benign-slicing", "C08", [(PRE, "pattern = self.__pattern.replace('?:', '', 1)", "pattern = '(' + self.__pattern[3:]")], expect="silent")

# ---------------------------------------------------------------- C01
M("c01-escape-minus-pipe", "C01", [(PRE, "for c in {'^', '$', '(', ')', '[', ']', '{', '}', '?', '+', '*', '.', '|', '/'}:", "for c in {'^', '$', '(', ')', '[', ']', '{', '}', '?', '+', '*', '.', '/'}:")], rule="R-ESC")
M("c01-escape-minus-paren", "C01", [(PRE, "for c in {'^', '$', '(', ')', '[', ']', '{', '}', '?', '+', '*', '.', '|', '/'}:", "for c in {'^', '$', ')', '[', ']', '{', '}', '?', '+', '*', '.', '|', '/'}:")], rule="R-ESC")
M("c01-backslash-step-last", "C01", [(PRE, """        pattern = pattern.replace("\\\\", "\\\\\\\\")
        for c in {'^', '$', '(', ')', '[', ']', '{', '}', '?', '+', '*', '.', '|', '/'}:
            pattern = pattern.replace(c, f"\\\\{c}")
        return pattern""", """        for c in {'^', '$', '(', ')', '[', ']', '{', '}', '?', '+', '*', '.', '|', '/'}:
            pattern = pattern.replace(c, f"\\\\{c}")
        pattern = pattern.replace("\\\\", "\\\\\\\\")
        return pattern""")], rule="R-ESC")
M("c01-escape-letter-d", "C01", [(PRE, "for c in {'^', '$', '(', ')', '[', ']', '{', '}', '?', '+', '*', '.', '|', '/'}:", "for c in {'^', '$', '(', ')', '[', ']', '{', '}', '?', '+', '*', '.', '|', '/', 'd'}:")], rule="R-ESC")
M("c01-escape-order-dependent", "C01", [(PRE, "for c in {'^', '$', '(', ')', '[', ']', '{', '}', '?', '+', '*', '.', '|', '/'}:\n            pattern = pattern.replace(c, f\"\\\\{c}\")", "for c in {'^', '$', '(', ')', '[', ']', '{', '}', '?', '+', '*', '.', '|', '/'}:\n            pattern = pattern.replace(c, f\"\\\\{c}\" if c != '/' else '[/]')")], rule="R-ESC")
M("c01-to-pregex-no-escape", "C01", [(PRE, "            return Pregex(pre, escape=True)", "            return Pregex(pre, escape=False)")])
M("c01-escape-default-false", "C01", [(PRE, "def __init__(self, pattern: str = '', escape: bool = True) -> 'Pregex':", "def __init__(self, pattern: str = '', escape: bool = False) -> 'Pregex':")], rule="R-SANIT")
M("c01-concat-forgets-to-pregex", "C01", [(PRE, """        pre = __class__._to_pregex(pre)

        if pre._get_type() == _Type.Empty:
            return self

        pattern = self._concat_conditional_group()
        pre = pre._concat_conditional_group()""", """        if isinstance(pre, str):
            pre = __class__(pre, escape=False)

        if pre._get_type() == _Type.Empty:
            return self

        pattern = self._concat_conditional_group()
        pre = pre._concat_conditional_group()""")], rule="R-CTX")
M("c01-followed-by-raw", "C01", [(PRE, """        pre = __class__._to_pregex(pre)
        if pre._get_type() == _Type.Empty:
            return self
        return __class__(
            f"{self._assert_conditional_group()}(?={pre})",""", """        if not isinstance(pre, str) and pre._get_type() == _Type.Empty:
            return self
        return __class__(
            f"{self._assert_conditional_group()}(?={pre})",""")], rule="R-CTX")
M("c01-conditional-raw-pre2", "C01", [(GRP, "            pre2 = __class__._to_pregex(pre2)._concat_conditional_group()\n", "            pre2 = str(pre2)\n")], rule="R-CTX")
M("c01-operator-first-raw", "C01", [(OPS, "            result = __class__._to_pregex(pres[0])", "            result = pres[0] if not isinstance(pres[0], str) else _pre.Pregex(pres[0], escape=len(pres) > 1)")], rule="R-CTX")
M("c01-affix-bypasses-either", "C01", [(ESS, "        pre = _op.Either(*prefix)\n        pre = pre +", "        pre = _pre.Pregex('|'.join(prefix), escape=False)\n        pre = pre +")], rule="R-AFFIX")
M("c01-benign-escape-regex", "C01", [(PRE, """        pattern = pattern.replace("\\\\", "\\\\\\\\")
        for c in {'^', '$', '(', ')', '[', ']', '{', '}', '?', '+', '*', '.', '|', '/'}:
            pattern = pattern.replace(c, f"\\\\{c}")
        return pattern""", """        return _re.sub(r"([\\\\^$()\\[\\]{}?+*.|/])", r"\\\\\\1", pattern)""")], expect="silent")
M("c01-benign-escape-more", "C01", [(PRE, "for c in {'^', '$', '(', ')', '[', ']', '{', '}', '?', '+', '*', '.', '|', '/'}:", "for c in {'^', '$', '(', ')', '[', ']', '{', '}', '?', '+', '*', '.', '|', '/', '#', '&', '~'}:")], expect="silent")

# ---------------------------------------------------------------- C03
M("c03-builtin-exception", "C03", [(PRE, """        if not isinstance(pattern, str):
            message = "Provided argument \\"pattern\\" is not a string."
            raise _ex.InvalidArgumentTypeException(message)""", """        if not isinstance(pattern, str):
            message = "Provided argument \\"pattern\\" is not a string."
            raise TypeError(message)""")], rule="R-RAISE")
M("c03-try-except-swallow", "C03", [(PRE, """        pre = __class__._to_pregex(pre)._concat_conditional_group()
        pattern = f"{pre}{self._concat_conditional_group()}{pre}\"""", """        try:
            pre = __class__._to_pregex(pre)._concat_conditional_group()
        except Exception:
            pre = ''
        pattern = f"{pre}{self._concat_conditional_group()}{pre}\"""")], rule="R-RAISE")
M("c03-progress-test-removed", "C03", [(PRE, "return temp if temp == repl or temp == pattern else remove_groups(temp, repl)", "return temp if temp == repl else remove_groups(temp, repl)")], rule="R-TERM")
M("c03-mutual-recursion", "C03", [(PRE, """        if self.__type == _Type.Empty:
            return self
        elif self.__type == _Type.Group:
            if self.__pattern.startswith('(?P<'):""", """        if self.__type == _Type.Empty:
            return self
        elif self.__type == _Type.Other:
            return self.capture().group(is_case_insensitive)
        elif self.__type == _Type.Group:
            if self.__pattern.startswith('(?P<'):"""), (PRE, """        if self.__type == _Type.Empty:
            return self
        elif self.__type == _Type.Group:
            if self.__pattern.startswith('(?:'):""", """        if self.__type == _Type.Empty:
            return self
        elif self.__type == _Type.Token:
            return self.group().capture(name)
        elif self.__type == _Type.Group:
            if self.__pattern.startswith('(?:'):""")], rule="R-TERM")
M("c03-to-pregex-no-type-check", "C03", [(PRE, """        elif issubclass(pre.__class__, __class__):
            return pre
        else:
            message = "Parameter \\"pre\\" must either be a string or an instance of \\"Pregex\\"."
            raise _ex.InvalidArgumentTypeException(message)""", """        else:
            return pre""")], rule="R-TOTAL")
M("c03-exactly-no-type-check", "C03", [(PRE, """        if not isinstance(n, int) or isinstance(n, bool):
            message = "Provided argument \\"n\\" is not an integer."
            raise _ex.InvalidArgumentTypeException(message)
        if n == 0:
            return Pregex()""", """        if n == 0:
            return Pregex()""")], rule="R-TOTAL")
M("c03-backref-no-else", "C03", [(GRP, """        else:
            message = "Parameter \\"ref\\" is neither an integer nor a string."
            raise _ex.InvalidArgumentTypeException(message)
        super().__init__(str(ref), transform)""", """        super().__init__(str(ref), transform)""")], rule="R-TOTAL")
M("c03-lookaround-arity-check-removed", "C03", [(ASR, """        if len(pres) < 2:
            message = "At least one assertion pattern is required."
            raise _ex.NotEnoughArgumentsException(message)
""", "")], rule="R-GUARD")
M("c03-numeral-base-type-check", "C03", [(ESS, """        if not isinstance(base, int):
            message = "Provided argument \\"base\\" must be an integer."
            raise _ex.InvalidArgumentTypeException(message)
""", "")], rule="R-TOTAL")
M("c03-benign-word-max-type-downstream", "C03", [(ESS, """            if max_chars is not None:
                message = "Provided argument \\"max_chars\\" must be either an integer nor \\"None\\"."
                raise _ex.InvalidArgumentTypeException(message)""", """            pass""")], expect="silent")  # at_least_at_most raises the same exception
M("c03-date-wraps-only-str", "C03", [(ESS, "        if not isinstance(formats, (list, tuple)):\n            formats = [formats]", "        if isinstance(formats, str):\n            formats = [formats]")], rule="R-TOTAL")
M("c03-repr-no-unescape", "C03", [(PRE, 'return _re.sub(r"\\\\\\\\", r"\\\\", repr(self.__pattern)[1:-1])', 'return repr(self.__pattern)[1:-1]')], rule="R-EXPORT")
M("c03-repr-str", "C03", [(PRE, 'return _re.sub(r"\\\\\\\\", r"\\\\", repr(self.__pattern)[1:-1])', 'return self.__pattern')], rule="R-EXPORT")
M("c03-benign-guard-helper", "C03", [(PRE, """        if not isinstance(n, int) or isinstance(n, bool):
            message = "Provided argument \\"n\\" is not an integer."
            raise _ex.InvalidArgumentTypeException(message)
        if n == 0:
            return Pregex()""", """        if type(n) is not int:
            raise _ex.InvalidArgumentTypeException("Provided argument \\"n\\" is not an integer.")
        if n == 0:
            return Pregex()""")], expect="silent")

# ---------------------------------------------------------------- C06 pipeline
M("c06-reader-findall-ranges-first", "C06", [(CLS, """        tokens = _re.findall(f"({range_pattern})|(\\\\\\\\?.)", classes, flags=_re.DOTALL)
        return (set(rng for rng, _ in tokens if rng), set(c for _, c in tokens if c))""", """        ranges = set(_re.findall(range_pattern, classes))
        classes = _re.sub(pattern=range_pattern, repl="", string=classes)
        return (ranges, set(_re.findall(r"\\\\?.", classes, flags=_re.DOTALL)))""")], rule="R-PIPELINE")
M("c06-collapse-unanchored", "C06", [(CLS, 'simplified_pattern = _re.sub(r"\\A\\[([^\\\\]|\\\\.)\\]\\Z", lambda m:', 'simplified_pattern = _re.sub(r"\\[([^\\\\]|\\\\.)\\]", lambda m:')], rule="R-PIPELINE")
M("c06-collapse-no-reescape", "C06", [(CLS, """lambda m: str(__class__._to_pregex(m.group(1))) \\
            if len(m.group(1)) == 1 else m.group(1), simplified_pattern)""", """lambda m: m.group(1), simplified_pattern)""")], rule="R-PIPELINE")
M("c06-shorthand-digit-always", "C06", [(CLS, "        elif classes.issuperset(digit_set):", "        elif classes.issuperset(digit_set) or '0-8' in classes:")], expect="silent")
M("c06-chars-to-ranges-off-by-one", "C06", [(CLS, "                    if ord(start) == ord(c_j) + 1:\n                        chars[i] = c_j + end", "                    if ord(start) == ord(c_j) + 2:\n                        chars[i] = c_j + end")], rule="R-PIPELINE")

# ---------------------------------------------------------------- compose (C02 R-COMPOSE / C09 R-REPEAT-LIT)
M("compose-escaped-bracket-class", "C02", [(PRE, 'pattern = _re.sub(r"(?<!\\\\)\\[.+?(?<!\\\\)\\]", "[a]", pattern)', 'pattern = _re.sub(r"\\[.+?(?<!\\\\)\\]", "[a]", pattern)')], rule="R-COMPOSE")
M("compose-escaped-dollar-anchor", "C09", [(PRE, '.+(?:(?<!\\\\)\\$|\\\\Z|\\(\\?=.+\\))', '.+(?:\\$|\\\\Z|\\(\\?=.+\\))')], rule="R-REPEAT-LIT")
M("compose-alternation-split-escaped", "C02", [(PRE, 'if len(_re.split(pattern=r"(?<!\\\\)\\|", string=temp)) > 1:', 'if len(_re.split(pattern=r"\\|", string=temp)) > 2:')], rule="R-COMPOSE")
M("compose-backslash-pairs-not-neutralised", ["C02"], [(PRE, '        pattern = _re.sub(r"\\\\{2}", "a", pattern)\n', '')], rule="R-COMPOSE")
M("compose-quantifier-recogniser-drops-lazy", ["C02", "C04"], [(PRE, 'r"(?:\\\\.|[^\\\\])?(?:\\?|\\*|\\+|\\{(?:\\d+|\\d+,|,\\d+|\\d+,\\d+)\\})"', 'r"(?:\\\\.|[^\\\\])?(?:\\*|\\+|\\{(?:\\d+|\\d+,|,\\d+|\\d+,\\d+)\\})"')], expect="silent")  # 'a?' then typed Other: still grouped when quantified
M("compose-is-group-ignores-escapes", "C02", [(PRE, '                    if prev_char != "\\\\": ', '                    if True: ')], rule="R-COMPOSE")

# ---------------------------------------------------------------- scale-dependent variants
M("c04-two-digit-bound-truncated", "C04", [(PRE, """            return __class__(
                f"{self._quantify_conditional_group()}{{{n}}}",
                escape=False)""", """            return __class__(
                f"{self._quantify_conditional_group()}{{{n if n < 10 else 9}}}",
                escape=False)""")], rule="R-QUANT")
M("c04-magic-bound-37", "C04", [(PRE, """                f"{self._quantify_conditional_group()}{{{n},}}{'' if is_greedy else '?'}",""", """                f"{self._quantify_conditional_group()}{{{n if n != 37 else 36},}}{'' if is_greedy else '?'}",""")], rule="R-QUANT")
M("c04-range-upper-mod-100", "C04", [(PRE, """                    f"{self._quantify_conditional_group()}{{{n},{m}}}{'' if is_greedy else '?'}",""", """                    f"{self._quantify_conditional_group()}{{{n},{m % 100 if m >= 100 else m}}}{'' if is_greedy else '?'}",""")], rule="R-QUANT")

# ---- end-to-end (R-E2E): core builder defects that only show on the shapes a meta class feeds them
M("e2e-enclose-skips-trailing-boundary", ["C17"], [(PRE, '        pattern = f"{pre}{self._concat_conditional_group()}{pre}"\n        return __class__(pattern, escape=False)',
    '        body = self._concat_conditional_group()\n        pattern = f"{pre}{body}" + ("" if body.endswith(pre) else pre)\n        return __class__(pattern, escape=False)')], rule="R-E2E")
M("e2e-enclose-skips-trailing-boundary/core", ["C02"], [(PRE, '        pattern = f"{pre}{self._concat_conditional_group()}{pre}"\n        return __class__(pattern, escape=False)',
    '        body = self._concat_conditional_group()\n        pattern = f"{pre}{body}" + ("" if body.endswith(pre) else pre)\n        return __class__(pattern, escape=False)')])
M("e2e-enclose-skips-leading-word-class", ["C17"], [(PRE, '        pattern = f"{pre}{self._concat_conditional_group()}{pre}"\n        return __class__(pattern, escape=False)',
    '        body = self._concat_conditional_group()\n        pattern = ("" if body.startswith("\\\\w") and len(body) > 12 else pre) + f"{body}{pre}"\n        return __class__(pattern, escape=False)')], rule="R-E2E")
M("e2e-not-enclosed-drops-group-for-long-alternation", ["C18"], [(PRE, '        pattern = f"(?<!{pre}){self._assert_conditional_group()}(?!{pre})"',
    '        pattern = f"(?<!{pre}){self._assert_conditional_group() if len(str(self)) < 40 else str(self)}(?!{pre})"')], rule="R-E2E")

# ---- renaming of private (name-mangled) helpers: anchors are located by role, every check stays silent
M("benign-rename-private-pre", ["C01", "C02", "C03", "C05", "C08", "C09", "C10", "C11", "C12", "C13", "C14", "C20"],
  [(PRE, "__escape(", "__escape_text(", 0), (PRE, "__infer_type(", "__classify(", 0), (PRE, "__extract_text(", "__read_file(", 0),
   (PRE, "__iterate_match_objects(", "__scan(", 0)], expect="silent")
M("benign-rename-private-classes", ["C03", "C06", "C07", "C20"],
  [(CLS, "__or(", "__union(", 0), (CLS, "__sub(", "__difference(", 0)], expect="silent")

M("benign-rename-private-fields-classes", ["C03", "C06", "C07", "C20"],
  [(CLS, "__verbose", "__long_form", 0), (CLS, "__is_negated", "__negated", 0), (CLS, "self.__is_global", "self.__everywhere", 0)], expect="silent")
M("benign-rename-private-fields-pre", ["C01", "C02", "C04", "C05", "C08", "C09", "C10", "C11", "C20"],
  [(PRE, "self.__type", "self.__kind", 0), (PRE, "self.__repeatable", "self.__may_repeat", 0), (PRE, "self.__pattern", "self.__text", 0),
   (PRE, "self.__compiled", "self.__engine", 0)], expect="silent")

# ---- instrumentation: state the library only writes cannot reach a result; state it reads back can
_IMP = (PRE, "import re as _re\n", "import re as _re\nimport time as _time\n_STATS: dict = {}\n", 1)
M("benign-write-only-stats", ["C20", "C01", "C03"], [_IMP, (PRE, "        if not isinstance(pattern, str):",
   "        _STATS[\"init\"] = _STATS.get(\"init\", 0) + 1\n        _STATS[\"t\"] = _time.perf_counter()\n        if not isinstance(pattern, str):")], expect="silent")
M("c20-stats-read-back", ["C20"], [_IMP, (PRE, "        if not isinstance(pattern, str):",
   "        _STATS[\"init\"] = _STATS.get(\"init\", 0) + 1\n        escape = escape and _STATS.get(\"init\", 0) < 1000\n        if not isinstance(pattern, str):")], rule="R-NOSHARED")
M("c20-clock-in-result", ["C20"], [_IMP, (PRE, "        if not isinstance(pattern, str):",
   "        escape = escape and _time.perf_counter() >= 0\n        if not isinstance(pattern, str):")], rule="R-NOHIDDEN")

# ---- caches: a correct cache on a pure function with immutable results is not a violation; one that hands out a mutable object is
M("benign-lru-cache-on-classifier", ["C20", "C09", "C02"], [(PRE, "import re as _re\n", "import re as _re\nimport functools as _functools\n", 1),
   (PRE, "    @staticmethod\n    def __infer_type(", "    @staticmethod\n    @_functools.lru_cache(maxsize=None)\n    def __infer_type(")], expect="silent")
M("c20-lru-cache-on-split-range", ["C20"], [(CLS, "import re as _re\n", "import re as _re\nimport functools as _functools\n", 1),
   (CLS, "    @staticmethod\n    def __split_range(", "    @staticmethod\n    @_functools.lru_cache(maxsize=None)\n    def __split_range(")], rule="R-NOHIDDEN")
M("benign-exact-memo-on-classifier", ["C20", "C09", "C02"], [(PRE, "    @staticmethod\n    def __infer_type(pattern: str) -> tuple[_Type, bool]:\n",
   "    __memo: dict = {}\n\n    @staticmethod\n    def __infer_type(pattern: str) -> tuple[_Type, bool]:\n        if pattern not in __class__.__memo:\n            __class__.__memo[pattern] = __class__.__infer_type_uncached(pattern)\n        return __class__.__memo[pattern]\n\n    @staticmethod\n    def __infer_type_uncached(pattern: str) -> tuple[_Type, bool]:\n")], expect="silent")
_EX_OLD = "            return __class__(\n                f\"{self._quantify_conditional_group()}{{{n}}}\",\n                escape=False)\n\n\n    def at_least(self"
M("c20-memo-of-receiver-method", ["C20"], [(PRE, _EX_OLD,
   "            if n not in __class__._exact_memo:\n                __class__._exact_memo[n] = self._exact_text(n)\n            return __class__(__class__._exact_memo[n], escape=False)\n\n"
   "    _exact_memo: dict = {}\n\n    def _exact_text(self, n: int) -> str:\n        return f\"{self._quantify_conditional_group()}{{{n}}}\"\n\n\n    def at_least(self")], rule="R-NOSHARED")
M("benign-memo-of-static-suffix", ["C20", "C04"], [(PRE, _EX_OLD,
   "            if n not in __class__._exact_memo:\n                __class__._exact_memo[n] = __class__._exact_suffix(n)\n"
   "            return __class__(f\"{self._quantify_conditional_group()}{__class__._exact_memo[n]}\", escape=False)\n\n"
   "    _exact_memo: dict = {}\n\n    @staticmethod\n    def _exact_suffix(n: int) -> str:\n        return \"{\" + str(n) + \"}\"\n\n\n    def at_least(self")], expect="silent")
M("sig-word-bounds-swapped", ["C17", "C03"], [(ESS, "    def __init__(self, min_chars: int = 1, max_chars: _Optional[int] = None,",
   "    def __init__(self, max_chars: _Optional[int] = None, min_chars: int = 1,")], rule="R-SIGNATURE")
M("benign-sig-word-trailing-optional", ["C17", "C03"], [(ESS, "    def __init__(self, min_chars: int = 1, max_chars: _Optional[int] = None,\n        is_global: bool = True, is_extensible: bool = False)",
   "    def __init__(self, min_chars: int = 1, max_chars: _Optional[int] = None,\n        is_global: bool = True, is_extensible: bool = False, _reserved: object = None)")], expect="silent")
M("c20-reinit-method", ["C20"], [(PRE, "    @staticmethod\n    def purge() -> None:",
   "    def reset(self, pattern: str) -> 'Pregex':\n        self.__init__(pattern)\n        return self\n\n\n    @staticmethod\n    def purge() -> None:")], rule="R-WRITEONCE")
M("c20-lossy-memo-on-classifier", ["C20"], [(PRE, "    @staticmethod\n    def __infer_type(pattern: str) -> tuple[_Type, bool]:\n",
   "    __memo: dict = {}\n\n    @staticmethod\n    def __infer_type(pattern: str) -> tuple[_Type, bool]:\n        key = pattern.lower()\n        if key not in __class__.__memo:\n            __class__.__memo[key] = __class__.__infer_type_uncached(pattern)\n        return __class__.__memo[key]\n\n    @staticmethod\n    def __infer_type_uncached(pattern: str) -> tuple[_Type, bool]:\n")], rule="R-NOSHARED")

# ---------------------------------------------------------------- round 14 (shapes of the seeded/*-j changes)
M("c02-group-fastpath-before-class-collapse", "C02", [(PRE, """        # Simplify classes by removing extra characters.
        pattern = _re.sub(""", """        if __is_group(pattern):
            return _Type.Group, True

        # Simplify classes by removing extra characters.
        pattern = _re.sub(""")], rule="R-COMPOSE")
M("c07-eager-neighbour-code-points", "C07", [(CLS, """                    if start_1 <= end_2 and end_1 >= start_2:
                        if start_1 >= start_2 and end_1 <= end_2:""", """                    if start_1 <= end_2 and end_1 >= start_2:
                        before, after = chr(ord(start_2) - 1), chr(ord(end_2) + 1)
                        if start_1 >= start_2 and end_1 <= end_2:""")], rule="R-SETALG")
M("c20-memo-answers-hash-equal-arguments", "C20", [
    (ESS, "class Numeral(", "_NUMERALS = {}\n\n\nclass Numeral(", 1),
    (ESS, """        if not isinstance(base, int):
            message = "Provided argument \\"base\\" must be an integer."
            raise _ex.InvalidArgumentTypeException(message)
        if base < 2 or base > 16:""", """        key = (base, n_min, n_max)
        hit = _NUMERALS.get(key)
        if hit is not None:
            super().__init__(hit, is_extensible)
            return
        if not isinstance(base, int):
            message = "Provided argument \\"base\\" must be an integer."
            raise _ex.InvalidArgumentTypeException(message)
        if base < 2 or base > 16:"""),
    (ESS, """        pre = pre.at_least_at_most(n=n_min, m=n_max)
        super().__init__(pre, is_extensible)


class __Integer""", """        pre = pre.at_least_at_most(n=n_min, m=n_max)
        _NUMERALS[key] = pre
        super().__init__(pre, is_extensible)


class __Integer""")], rule="R-HISTORY")
M("benign-lazy-class-constant", ["C20", "C19"], [
    (ESS, "    def __init__(self, formats: _Optional[_Union[str, list[str]]] = None, is_extensible: bool = False) -> _pre.Pregex:",
     "    __all_formats = None\n\n    def __init__(self, formats: _Optional[_Union[str, list[str]]] = None, is_extensible: bool = False) -> _pre.Pregex:"),
    (ESS, "        date_formats = __class__.__date_formats()\n", "        if __class__.__all_formats is None:\n            __class__.__all_formats = tuple(__class__.__date_formats())\n        date_formats = __class__.__all_formats\n")], expect="silent")
M("c20-lazy-class-attribute-from-argument", "C20", [
    (ESS, "    def __init__(self, formats: _Optional[_Union[str, list[str]]] = None, is_extensible: bool = False) -> _pre.Pregex:",
     "    __first_formats = None\n\n    def __init__(self, formats: _Optional[_Union[str, list[str]]] = None, is_extensible: bool = False) -> _pre.Pregex:"),
    (ESS, "        date_formats = __class__.__date_formats()\n", "        date_formats = __class__.__date_formats()\n        if __class__.__first_formats is None:\n            __class__.__first_formats = formats\n        formats = formats if formats is not None else __class__.__first_formats\n")], rule="R-WRITEONCE")
