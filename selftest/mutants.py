"""Variant corpus: breaking edits (expect 'fire') and benign twins (expect 'silent').
Each edit is (relative path, old text, new text[, count]); old text must be unique unless count=0 (all)."""
PRE = "src/pregex/core/pre.py"
CLS = "src/pregex/core/classes.py"
GRP = "src/pregex/core/groups.py"
OPS = "src/pregex/core/operators.py"
QUA = "src/pregex/core/quantifiers.py"
ASR = "src/pregex/core/assertions.py"
TOK = "src/pregex/core/tokens.py"
ESS = "src/pregex/meta/essentials.py"

MUTANTS = []


def M(id, pids, edits, expect="fire", rule=None):
    MUTANTS.append({"id": id, "pids": pids if isinstance(pids, list) else [pids], "edits": edits,
                    "expect": expect, "rule": rule})


# ---------------------------------------------------------------- C04
M("c04-atleast-template", "C04", [(PRE, "{{{n},}}{'' if is_greedy else '?'}", "{{{n}}}{'' if is_greedy else '?'}")], rule="R-QUANT")
M("c04-atmost-lazy-inverted", "C04", [(PRE, "{{,{n}}}{'' if is_greedy else '?'}", "{{,{n}}}{'?' if is_greedy else ''}")], rule="R-QUANT")
M("c04-atmost-1-oneormore", "C04", [(PRE, "        elif n == 1:\n            return self.optional(is_greedy)", "        elif n == 1:\n            return self.one_or_more(is_greedy)")], rule="R-QUANT")
M("c04-alam-none-atmost", "C04", [(PRE, "        elif m is None:\n            return self.at_least(n, is_greedy)", "        elif m is None:\n            return self.at_most(n, is_greedy)")], rule="R-QUANT")
M("c04-class-swaps-n-m", "C04", [(QUA, "pre.at_least_at_most(n, m, is_greedy)", "pre.at_least_at_most(m, n, is_greedy)")], rule="R-QUANT")
M("c04-exactly-drops-neg-guard", "C04", [(PRE, """            if n < 0:
                message = "Parameter \\"n\\" can't be negative."
                raise _ex.InvalidArgumentValueException(message)
            if self._get_type() == _Type.Empty:
                return self
            if not self._is_repeatable():
                raise _ex.CannotBeRepeatedException(self)
            return __class__(
                f"{self._quantify_conditional_group()}{{{n}}}",""", """            if self._get_type() == _Type.Empty:
                return self
            if not self._is_repeatable():
                raise _ex.CannotBeRepeatedException(self)
            return __class__(
                f"{self._quantify_conditional_group()}{{{n}}}",""")], rule="R-QUANT")
M("c04-optional-lazy-dropped", "C04", [(PRE, """?{'' if is_greedy else '?'}",""", """?","""  )], rule="R-QUANT")
M("c04-mul-repeat-first", ["C04", "C09"], [(PRE, """        if not isinstance(n, int) or isinstance(n, bool):
            message = "Provided argument \\"n\\" is not an integer."
            raise _ex.InvalidArgumentTypeException(message)
        if n < 0:
            message = "Using multiplication operator""", """        if not self._is_repeatable():
            raise _ex.CannotBeRepeatedException(self)
        if not isinstance(n, int) or isinstance(n, bool):
            message = "Provided argument \\"n\\" is not an integer."
            raise _ex.InvalidArgumentTypeException(message)
        if n < 0:
            message = "Using multiplication operator""", 0)])
M("c04-quantify-uses-concat-group", ["C04"], [(PRE, """f"{self._quantify_conditional_group()}+{'' if is_greedy else '?'}",""", """f"{self._concat_conditional_group()}+{'' if is_greedy else '?'}",""")], rule="R-QUANT")
M("c04-benign-equivalent-suffix", "C04", [(PRE, """f"{self._quantify_conditional_group()}?{'' if is_greedy else '?'}",""", """f"{self._quantify_conditional_group()}{{0,1}}{'' if is_greedy else '?'}",""")], expect="silent")
M("c04-benign-exactly-reorder", "C04", [(PRE, """        if n == 0:
            return Pregex()
        if n == 1:
            return self
        else:
            if n < 0:
                message = "Parameter \\"n\\" can't be negative."
                raise _ex.InvalidArgumentValueException(message)""", """        if n < 0:
            message = "Parameter \\"n\\" can't be negative."
            raise _ex.InvalidArgumentValueException(message)
        if n == 0:
            return Pregex()
        if n == 1:
            return self
        else:""")], expect="silent")

# ---------------------------------------------------------------- C02
M("c02-table-quantifier-cell", ["C02", "C04"], [(PRE, "_Type.Quantifier: (False, True, False)", "_Type.Quantifier: (False, False, False)")])
M("c02-table-alternation-concat", "C02", [(PRE, "_Type.Alternation: (True, True, True)", "_Type.Alternation: (False, True, True)")])
M("c02-accessor-wrong-column", "C02", [(PRE, "return __class__.__groupping_rules[self.__type][0]", "return __class__.__groupping_rules[self.__type][1]"),
                                       (PRE, "return __class__.__groupping_rules[self.__type][1]\n\n\n    def __get_group_on_assert_rule", "return __class__.__groupping_rules[self.__type][0]\n\n\n    def __get_group_on_assert_rule")])
M("c02-enclose-raw-self", "C02", [(PRE, 'pattern = f"{pre}{self._concat_conditional_group()}{pre}"', 'pattern = f"{pre}{self}{pre}"')], rule="R-HOLE")
M("c02-radd-orientation", "C02", [(PRE, "return __class__(str(__class__._to_pregex(pre).concat(self)), escape=False)", "return __class__(str(self.concat(__class__._to_pregex(pre))), escape=False)")], rule="R-DELEG")
M("c02-either-class-calls-concat", "C02", [(OPS, "lambda pre1, pre2: pre1.either(pre2))", "lambda pre1, pre2: pre1.concat(pre2))")], rule="R-DELEG")
M("c02-followedby-swapped", "C02", [(ASR, "lambda pre1, pre2: pre1.followed_by(pre2))", "lambda pre1, pre2: pre2.followed_by(pre1))")], rule="R-DELEG")
M("c02-conditional-raw", ["C02"], [(GRP, "        pre1 = __class__._to_pregex(pre1)._concat_conditional_group()\n", "        pre1 = str(__class__._to_pregex(pre1))\n")], rule="R-HOLE")
M("c02-benign-extra-group", "C02", [(PRE, 'pattern = f"{pre}{self._concat_conditional_group()}{pre}"', 'pattern = f"{pre}(?:{self._concat_conditional_group()}){pre}"')], expect="silent")
M("c02-benign-plus-instead-of-fstring", "C02", [(PRE, 'pattern = f"{pre}{self._concat_conditional_group()}{pre}"', 'pattern = pre + self._concat_conditional_group() + pre')], expect="silent")
M("c02-benign-table-more-grouping", "C02", [(PRE, "_Type.Other: (False, True, False)", "_Type.Other: (True, True, True)")], expect="silent")

# ---------------------------------------------------------------- C05
M("c05-concat-empty-shortcut-removed", "C05", [(PRE, """        if pre._get_type() == _Type.Empty:
            return self

        pattern = self._concat_conditional_group()""", """        pattern = self._concat_conditional_group()""")], expect="silent")  # '' + x is still x: benign
M("c05-either-empty-kept", "C05", [(PRE, """        if pre._get_type() == _Type.Empty:
            pattern = str(self)
        else:
            pattern = f"{self}|{pre}" if on_right else f"{pre}|{self}\"""", """        pattern = f"{self}|{pre}" if on_right else f"{pre}|{self}\"""")], rule="R-EMPTY")
M("c05-optional-empty-quantified", "C05", [(PRE, """        if self._get_type() == _Type.Empty:
            return self
        return __class__(
            f"{self._quantify_conditional_group()}?""", """        return __class__(
            f"{self._quantify_conditional_group()}?""")])
M("c05-capture-empty-wrapped", "C05", [(PRE, """        if self.__type == _Type.Empty:
            return self
        elif self.__type == _Type.Group:
            if self.__pattern.startswith('(?:'):""", """        if self.__type == _Type.Group:
            if self.__pattern.startswith('(?:'):""")], rule="R-EMPTY")
M("c05-followedby-empty-emits", "C05", [(PRE, """        if pre._get_type() == _Type.Empty:
            return self
        return __class__(
            f"{self._assert_conditional_group()}(?={pre})",""", """        return __class__(
            f"{self._assert_conditional_group()}(?={pre})",""")], rule="R-EMPTY")
M("c05-notfollowedby-no-raise", "C05", [(PRE, """        if pre._get_type() == _Type.Empty:
            raise _ex.EmptyNegativeAssertionException()
        pattern = f"{self._assert_conditional_group()}(?!{pre})\"""", """        if pre._get_type() == _Type.Empty:
            return self
        pattern = f"{self._assert_conditional_group()}(?!{pre})\"""")], rule="R-EMPTY")
M("c05-operator-zero-operands", "C05", [(OPS, "            result = ''\n", "            result = '(?:)'\n")], rule="R-EMPTY")
M("c05-atleast-empty-after-guard", "C05", [(PRE, """            if self._get_type() == _Type.Empty:
                return self
            if not self._is_repeatable():
                raise _ex.CannotBeRepeatedException(self)
            return __class__(
                f"{self._quantify_conditional_group()}{{{n},}}""", """            if not self._is_repeatable():
                raise _ex.CannotBeRepeatedException(self)
            return __class__(
                f"{self._quantify_conditional_group()}{{{n},}}""")])
M("c05-benign-return-new-empty", "C05", [(PRE, """        if self._get_type() == _Type.Empty:
            return self
        if not self._is_repeatable():
            raise _ex.CannotBeRepeatedException(self)
        return __class__(
            f"{self._quantify_conditional_group()}*""", """        if self._get_type() == _Type.Empty:
            return Pregex()
        if not self._is_repeatable():
            raise _ex.CannotBeRepeatedException(self)
        return __class__(
            f"{self._quantify_conditional_group()}*""")], expect="silent")

# ---------------------------------------------------------------- C09
M("c09-indefinite-no-repeat-test", ["C09", "C04"], [(PRE, """        if not self._is_repeatable():
            raise _ex.CannotBeRepeatedException(self)
        return __class__(
            f"{self._quantify_conditional_group()}*""", """        return __class__(
            f"{self._quantify_conditional_group()}*""")])
M("c09-atmost-checks-for-one", ["C09"], [(PRE, """        elif n == 1:
            return self.optional(is_greedy)
        else:""", """        elif n == 1 and self._is_repeatable():
            return self.optional(is_greedy)
        else:""")], rule="R-REPEAT")
M("c09-infer-anchor-repeatable", "C09", [(PRE, """            pattern, flags=__class__.__flags) is not None:
            return _Type.Assertion, False""", """            pattern, flags=__class__.__flags) is not None:
            return _Type.Assertion, True""")], rule="R-FLAGSRC")
M("c09-infer-other-nonrepeatable", "C09", [(PRE, "        return _Type.Other, True", "        return _Type.Other, False")], rule="R-FLAGSRC")
M("c09-recogniser-drops-Z", "C09", [(PRE, r"""(?:\^|\\A|\(\?<=.+\)).+|.+(?:\$|\\Z|\(\?=.+\))""", r"""(?:\^|\\A|\(\?<=.+\)).+|.+(?:\$|\(\?=.+\))""")], rule="R-RECOG")
M("c09-emitter-drifts", "C09", [(PRE, '''return __class__(f"\\\\A{self._assert_conditional_group()}", escape=False)''', '''return __class__(f"(?:\\\\A){self._assert_conditional_group()}", escape=False)''')], rule="R-RECOG")
M("c09-flag-written-elsewhere", "C09", [(PRE, """    def _is_repeatable(self) -> bool:""", """    def _set_repeatable(self) -> None:
        self.__repeatable = True


    def _is_repeatable(self) -> bool:""")], rule="R-FLAGSRC")
M("c09-benign-optional-nonrep", "C09", [(PRE, """        if self._get_type() == _Type.Empty:
            return self
        return __class__(
            f"{self._quantify_conditional_group()}?""", """        if self._get_type() == _Type.Empty or self.__pattern == '':
            return self
        return __class__(
            f"{self._quantify_conditional_group()}?""")], expect="silent")
