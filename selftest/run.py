#!/venv/bin/python
"""Mutation self-test of the checkers (DESIGN section 6).

Every variant is an edit of the *current* /repo tree, materialised in a scratch copy
under $(mktemp -d) (outside /repo and /verif, removed afterwards), verified to still
byte-compile, and analysed with `./check <pid> --root <scratch> --no-evidence`.
Breaking variants must give exit 1 and name the expected rule; benign twins exit 0.

usage: selftest/run.py [--only PID[,PID]] [--jobs N] [--id MUTANT_ID] [-v]
Exit 0 when every applicable variant behaves as expected, else 3.
"""
import argparse
import concurrent.futures as cf
import os
import shutil
import subprocess
import sys
import tempfile

HERE = os.path.dirname(os.path.abspath(__file__))
VERIF = os.path.dirname(HERE)
sys.path.insert(0, VERIF)
sys.dont_write_bytecode = True


def materialise(root, edits):
    """edits: list of (relpath, old, new[, count]) -> scratch dir or raises LookupError."""
    d = tempfile.mkdtemp(prefix="pregex-mut-")
    shutil.copytree(os.path.join(root, "src", "pregex"), os.path.join(d, "src", "pregex"),
                    ignore=shutil.ignore_patterns("__pycache__"))
    try:
        for e in edits:
            rel, old, new = e[0], e[1], e[2]
            cnt = e[3] if len(e) > 3 else 1
            p = os.path.join(d, rel)
            s = open(p, encoding="utf-8").read()
            if s.count(old) < 1 or (cnt == 1 and s.count(old) != 1):
                raise LookupError(f"{rel}: anchor text occurs {s.count(old)} times: {old[:50]!r}")
            if cnt == 0:
                s = s.replace(old, new)
            elif cnt < 0:          # -k: only the k-th occurrence
                idx = -1
                for _ in range(-cnt):
                    idx = s.index(old, idx + 1)
                s = s[:idx] + new + s[idx + len(old):]
            else:
                s = s.replace(old, new, cnt)
            open(p, "w", encoding="utf-8").write(s)
            import warnings
            with warnings.catch_warnings():
                warnings.simplefilter("ignore")
                compile(s, p, "exec")
    except Exception:
        shutil.rmtree(d, ignore_errors=True)
        raise
    return d


def run_one(m, root="/repo", verbose=False):
    try:
        d = materialise(root, m["edits"])
    except LookupError as e:
        return m, "inapplicable", str(e)
    except SyntaxError as e:
        return m, "broken-mutant", f"does not compile: {e}"
    try:
        res = []
        for pid in m["pids"]:
            try:
                p = subprocess.run([os.path.join(VERIF, "check"), pid, "--root", d, "--no-evidence", "--tier", "quick"],
                                   capture_output=True, text=True, cwd=VERIF, timeout=300,
                                   env=dict(os.environ, VERIF_NO_SELFTEST="1"))
                res.append((pid, p.returncode, p.stdout + p.stderr))
            except subprocess.TimeoutExpired:
                res.append((pid, -9, "TIMEOUT after 300 s"))
    finally:
        shutil.rmtree(d, ignore_errors=True)
    want = m["expect"]          # 'fire' | 'silent'
    ok = True
    msgs = []
    for pid, code, out in res:
        if want == "fire":
            good = code == 1 and "VIOLATION property=" + pid in out
            if good and m.get("rule") and f"rule={m['rule']}" not in out:
                good = False
                msgs.append(f"{pid}: fired but not rule {m['rule']}")
        else:
            good = code == 0
        if not good:
            ok = False
            tail = " | ".join(l for l in out.strip().splitlines()[-4:])
            msgs.append(f"{pid}: exit {code}: {tail[:400]}")
    return m, ("ok" if ok else "FAIL"), "; ".join(msgs)


def main():
    ap = argparse.ArgumentParser()
    ap.add_argument("--only", default=None)
    ap.add_argument("--id", default=None, help="comma-separated mutant ids")
    ap.add_argument("--jobs", type=int, default=16)
    ap.add_argument("--root", default="/repo")
    ap.add_argument("-v", action="store_true")
    a = ap.parse_args()
    from selftest.mutants import MUTANTS
    ms = MUTANTS
    if a.only:
        pids = set(a.only.upper().split(","))
        ms = [dict(m, pids=[p for p in m["pids"] if p in pids]) for m in ms if pids & set(m["pids"])]
    if a.id:
        ms = [m for m in ms if m["id"] in a.id.split(",")]
    bad = 0
    counts = {}
    with cf.ThreadPoolExecutor(max_workers=a.jobs) as ex:
        for m, status, msg in ex.map(lambda m: run_one(m, a.root, a.v), ms):
            counts[status] = counts.get(status, 0) + 1
            if status != "ok" or a.v:
                print(f"[{status}] {m['id']} ({','.join(m['pids'])} expect {m['expect']}) {msg}")
            if status in ("FAIL", "broken-mutant"):
                bad += 1
    print("selftest:", ", ".join(f"{k}={v}" for k, v in sorted(counts.items())), f"of {len(ms)} variants")
    return 3 if bad else 0


if __name__ == "__main__":
    sys.exit(main())
