"""Abstract Pregex operands, witnesses and the regex-syntax oracle (re._parser).

An abstract operand is an `Obj` of class Pregex (or a subclass) whose *type tag*
and *repeatable flag* are abstract inputs chosen by the rule and whose text is a
witness string.  `Pregex.__infer_type` is never interpreted: for objects built by
the interpreted code its result is a `Lazy` pair (forked on first use), except for
the empty text, whose classification is read off the source by `infer_empty_rule`.
"""
from __future__ import annotations

import ast
import re
import re._parser as sre_parse
import re._constants as sre_c

from .interp import Hooks, Interp, Lazy, Obj, EnumVal, Incomplete, PyRaise
from .model import AnalysisError, Model, mangle

TYPE_NAMES = ["Alternation", "Assertion", "Class", "Empty", "Group", "Other", "Quantifier", "Token"]

FLAGS = re.MULTILINE | re.DOTALL


def type_enum(model: Model):
    return model.cls("pregex.core.pre", "_Type")


def tval(model: Model, name: str) -> EnumVal:
    ci = type_enum(model)
    if name not in ci.attrs:
        raise AnalysisError(f"anchor vanished: _Type.{name}")
    v = ci.attrs[name]
    return EnumVal(ci, name, v.value if isinstance(v, ast.Constant) else None)


def check_type_enum(model: Model):
    ci = type_enum(model)
    names = sorted(ci.attrs)
    if names != sorted(TYPE_NAMES):
        raise AnalysisError(f"_Type members changed: {names}; the abstract type domain must be revisited")


def cache_field(model: Model) -> str:
    """Mangled name of the compiled-pattern cache field, located by role: the one instance field that the public
    method `compile` assigns (its name is private and may change)."""
    c = model.__dict__.get("_cache_field")
    if c is None:
        c = "_Pregex__compiled"
        comp = model.pregex.methods.get("compile")
        names = []
        if comp is not None:
            for n in ast.walk(comp.node):
                if isinstance(n, ast.Attribute) and isinstance(n.ctx, ast.Store) and isinstance(n.value, ast.Name) and n.value.id == "self":
                    names.append(mangle(n.attr, "Pregex"))
        if len(set(names)) == 1:
            c = names[0]
        model.__dict__["_cache_field"] = c
    return c


class _Fields:
    pass


def F(model: Model):
    """Mangled names of Pregex's instance fields, located by role in Pregex.__init__ (private names may change):
    pattern = the field assigned from the `pattern` parameter (escaped or not); type / repeatable = the two targets of
    the tuple assignment from the classifier; cache = see cache_field."""
    f = model.__dict__.get("_field_names")
    if f is None:
        f = _Fields()
        f.pattern, f.type, f.repeatable = "_Pregex__pattern", "_Pregex__type", "_Pregex__repeatable"
        init = model.pregex.methods.get("__init__")
        if init is not None:
            params = init.params
            for n in ast.walk(init.node):
                if isinstance(n, ast.Assign) and len(n.targets) == 1:
                    t = n.targets[0]
                    is_self_attr = lambda x: isinstance(x, ast.Attribute) and isinstance(x.value, ast.Name) and x.value.id == "self"
                    if isinstance(t, ast.Tuple) and len(t.elts) == 2 and all(is_self_attr(e) for e in t.elts):
                        f.type, f.repeatable = mangle(t.elts[0].attr, "Pregex"), mangle(t.elts[1].attr, "Pregex")
                    elif is_self_attr(t) and len(params) > 1 and any(isinstance(x, ast.Name) and x.id == params[1] for x in ast.walk(n.value)):
                        f.pattern = mangle(t.attr, "Pregex")
        f.cache = cache_field(model)
        model.__dict__["_field_names"] = f
    global CURRENT, CURRENT_MODEL
    CURRENT = f
    CURRENT_MODEL = model
    return f


CURRENT = None
CURRENT_MODEL = None


def pattern_of(o):
    """Pattern text of an interpreted Pregex object (field located by role; see F)."""
    if not isinstance(o, Obj):
        return None
    if CURRENT_MODEL is not None and CURRENT_MODEL.__dict__.get("_layout"):
        return slot_of(CURRENT_MODEL, o, "pattern")
    if CURRENT is not None and CURRENT.pattern in o.fields:
        v = o.fields[CURRENT.pattern]
        if isinstance(v, tuple) and CURRENT_MODEL is not None:
            return slot_of(CURRENT_MODEL, o, "pattern")
        return v
    if CURRENT_MODEL is not None and "_Pregex__pattern" not in o.fields:
        return slot_of(CURRENT_MODEL, o, "pattern")
    return o.fields.get("_Pregex__pattern")


class _Slot:
    def __init__(self, what):
        self.what = what


class _Layout:
    """How Pregex.__init__ lays out an instance: a template of its fields with three kinds of slot (pattern text, type,
    repeatable flag), discovered by PROBING - the constructor is interpreted on two marker texts with the classifier's
    answer forced to two different (type, flag) pairs, and the two resulting objects are compared field by field
    (recursing into tuples and records).  No private field name or classifier signature is assumed."""
    template = None        # {field name: value | _Slot | (tuple type, [items...])}
    rec_ci = None          # ClassInfo of the record the classifier returns (None: a bare pair)


def _classifier_sample(model: Model):
    """What the classifier really returns for the empty text (its SHAPE is what matters: pair or record)."""
    infer = model.method("pregex.core.pre", "Pregex", "__infer_type")
    box = {}

    class Sample(Hooks):
        inside = False

        def intercept(self, interp, target, args, kwargs, node):
            if target is infer and not self.inside and "r" not in box:
                self.inside = True
                try:
                    box["r"] = interp._call_func(target, args, kwargs, node)
                finally:
                    self.inside = False
                return box["r"]
            return NotImplemented
    it = Interp(model, Sample())
    it.construct(model.pregex, ["", False])
    return it, box.get("r")


def layout(model: Model):
    lay = model.__dict__.get("_layout", 0)
    if CURRENT_MODEL is not model:
        F(model)                 # pattern_of() reads through the field names / layout of the model in use
    if lay != 0:
        return lay
    lay = None
    try:
        it0, sample = _classifier_sample(model)
        L = _Layout()
        if sample is not None and type(sample) in it0._nt_by_type:
            L.rec_ci = it0._nt_by_type[type(sample)]
        elif isinstance(sample, Obj):
            raise Incomplete("the classifier returns an object")
        model.__dict__["_layout"] = L          # PregexHooks._record consults rec_ci while probing
        probes = []
        for text, forced in (("\uE001A", ("Alternation", True)), ("\uE001B", ("Assertion", False))):
            hooks = PregexHooks(model, oracle=lambda t, forced=forced: forced, fork_unknown=False)
            o = Interp(model, hooks).construct(model.pregex, [text, False])
            probes.append((text, forced, o))
        (ta, fa, oa), (tb, fb, ob) = probes
        found = set()

        def merge(a, b):
            if a == ta and b == tb:
                found.add("pattern")
                return _Slot("pattern")
            if isinstance(a, EnumVal) and isinstance(b, EnumVal) and (a.name, b.name) == (fa[0], fb[0]):
                found.add("type")
                return _Slot("type")
            if a is True and b is False:
                found.add("rep")
                return _Slot("rep")
            if isinstance(a, tuple) and isinstance(b, tuple) and type(a) is type(b) and len(a) == len(b):
                return (type(a), [merge(x, y) for x, y in zip(a, b)])
            if isinstance(a, (Obj, Lazy)) or isinstance(b, (Obj, Lazy)):
                raise Incomplete("an instance field holds an object")
            return a
        if set(oa.fields) != set(ob.fields):
            raise Incomplete("the constructor sets different fields for different patterns")
        L.template = {k: merge(oa.fields[k], ob.fields[k]) for k in oa.fields}
        if found != {"pattern", "type", "rep"}:
            raise Incomplete(f"slots found: {sorted(found)}")
        lay = L
    except (Incomplete, PyRaise, AnalysisError, RecursionError) as e:
        lay = None
        model.__dict__["_layout_error"] = f"{type(e).__name__}: {e}"
    model.__dict__["_layout"] = lay
    return lay


def _fill(v, text, tv, rep):
    if isinstance(v, _Slot):
        return {"pattern": text, "type": tv, "rep": rep}[v.what]
    if isinstance(v, tuple) and len(v) == 2 and isinstance(v[0], type) and isinstance(v[1], list):
        items = [_fill(x, text, tv, rep) for x in v[1]]
        return v[0](*items) if hasattr(v[0], "_fields") else v[0](items)
    return v


def _find(v, what, o_v):
    """Value at the slot `what` of template v inside the concrete value o_v (None when absent)."""
    if isinstance(v, _Slot):
        return (o_v,) if v.what == what else None
    if isinstance(v, tuple) and len(v) == 2 and isinstance(v[0], type) and isinstance(v[1], list) and isinstance(o_v, tuple) \
            and len(o_v) == len(v[1]):
        for x, y in zip(v[1], o_v):
            r = _find(x, what, y)
            if r is not None:
                return r
    return None


def slot_of(model: Model, o, what):
    """The pattern text / type / repeatable flag of an interpreted Pregex object, read through the probed layout."""
    lay = layout(model)
    if lay is not None and isinstance(o, Obj):
        for k, v in lay.template.items():
            if k in o.fields:
                r = _find(v, what, o.fields[k])
                if r is not None:
                    return r[0]
    fn = F(model)
    return o.fields.get({"pattern": fn.pattern, "type": fn.type, "rep": fn.repeatable}[what]) if isinstance(o, Obj) else None


def slot_field(model: Model, what):
    """Mangled name of the instance field that holds the given slot (None without a probed layout)."""
    lay = layout(model)
    if lay is None:
        return None

    def has(v):
        if isinstance(v, _Slot):
            return v.what == what
        return isinstance(v, tuple) and len(v) == 2 and isinstance(v[0], type) and isinstance(v[1], list) and any(has(x) for x in v[1])
    for k, v in lay.template.items():
        if has(v):
            return k
    return None


def class_fields(model: Model):
    """(polarity field, verbose-text field) of the character-class base class, located by PROBING: AnyDigit() and
    AnyButDigit() are constructed by interpretation; the polarity field is the one holding False / True, the verbose
    text the one holding '[...]' / '[^...]' (the emitted pattern is the shorthand there, so it cannot be confused)."""
    r = model.__dict__.get("_class_fields")
    if r is None:
        r = ("_Class__is_negated", "_Class__verbose")
        try:
            CLS = "pregex.core.classes"
            it = Interp(model, PregexHooks(model), fuel=400000)
            a = it.construct(model.cls(CLS, "AnyDigit"), [])
            b = it.construct(model.cls(CLS, "AnyButDigit"), [])
            neg = [k for k in a.fields if a.fields[k] is False and b.fields.get(k) is True]
            verb = [k for k in a.fields if isinstance(a.fields[k], str) and a.fields[k].startswith("[") and not a.fields[k].startswith("[^")
                    and isinstance(b.fields.get(k), str) and b.fields[k].startswith("[^")]
            if len(neg) == 1 and len(verb) == 1:
                r = (neg[0], verb[0])
        except (Incomplete, PyRaise, AnalysisError, RecursionError):
            pass
        model.__dict__["_class_fields"] = r
    return r


def flag_field(model: Model, cname: str, param: str):
    """The instance field in which class `cname` keeps its boolean constructor parameter `param` (probed)."""
    key = ("_flag_field", cname, param)
    r = model.__dict__.get(key)
    if r is None:
        r = f"_{cname}__{param}"
        try:
            ci = model.cls("pregex.core.classes", cname)
            a = Interp(model, PregexHooks(model), fuel=400000).construct(ci, [], {param: True})
            b = Interp(model, PregexHooks(model), fuel=400000).construct(ci, [], {param: False})
            c = [k for k in a.fields if a.fields[k] is True and b.fields.get(k) is False]
            if len(c) == 1:
                r = c[0]
        except (Incomplete, PyRaise, AnalysisError, RecursionError):
            pass
        model.__dict__[key] = r
    return r


def make_operand(model: Model, text: str, tname: str, repeatable: bool = True, cls=None, tag=None) -> Obj:
    ci = cls or model.pregex
    o = Obj(ci)
    lay = layout(model)
    if lay is not None:
        tv = tval(model, tname)
        for k, v in lay.template.items():
            o.fields[k] = _fill(v, text, tv, repeatable)
    else:
        fn = F(model)
        o.fields[fn.pattern] = text
        o.fields[fn.type] = tval(model, tname)
        o.fields[fn.repeatable] = repeatable
    o.fields[cache_field(model)] = None
    o.tag = tag or f"{tname}:{text!r}"
    return o


def tag_feasible(tag: str, text: str) -> bool:
    """Necessary condition for a type tag on a concrete text (a tag the classifier could not possibly give is not
    explored: builders may rely on the shape a tag implies, e.g. a Group-typed text being parenthesised).  Generous on
    purpose; whether the classifier gives the RIGHT tag is C02 R-COMPOSE / C08 R-GROUP-REAL / C09 R-REPEAT-LIT."""
    if tag == "Group":
        return len(text) >= 2 and text[0] == "(" and text[-1] == ")"
    if tag == "Class":
        return text[:1] == "[" or text == "." or (len(text) == 2 and text[0] == "\\")
    if tag == "Token":
        return len(text) == 1 or (text[:1] == "\\" and len(text) <= 10)
    if tag == "Alternation":
        return "|" in text
    if tag == "Quantifier":
        return text[-1:] in "?*+}"
    if tag == "Assertion":
        return any(k in text for k in ("^", "$", "\\A", "\\Z", "\\b", "\\B", "(?=", "(?!", "(?<"))
    return True


class PregexHooks(Hooks):
    """Default hooks: `__infer_type` is replaced by an oracle.

    oracle(text) -> (type name, repeatable) | None.  None => Lazy fork over all
    non-empty types (with Assertion both repeatable and not).
    """

    def __init__(self, model: Model, oracle=None, fork_unknown=True):
        self.model = model
        self.oracle = oracle
        self.fork_unknown = fork_unknown
        self.infer = model.method("pregex.core.pre", "Pregex", "__infer_type")
        self.texts: list = []   # (node, frame.func, value)
        self.infer_calls: list = []

    def intercept(self, interp, target, args, kwargs, node):
        if target is self.infer:
            strs = [a for a in list(args) + list(kwargs.values()) if isinstance(a, str)]
            text = strs[0] if strs else (args[0] if args else kwargs.get("pattern"))
            self.infer_calls.append(text)
            if not isinstance(text, str):
                raise Incomplete("__infer_type on non-string")
            if text == "":
                return self._record(interp, (tval(self.model, "Empty"), True))
            if self.oracle is not None:
                r = self.oracle(text)
                if r is not None:
                    return self._record(interp, (tval(self.model, r[0]), r[1]))
            if not self.fork_unknown:
                raise Incomplete(f"type of constructed text {text!r} needed but unknown")
            opts = [(n, True) for n in TYPE_NAMES if n != "Empty" and tag_feasible(n, text)]
            if tag_feasible("Assertion", text):
                opts.append(("Assertion", False))
            pair = Lazy([(tval(self.model, n), rep) for n, rep in opts], f"infer_type({text!r})")
            return _LazyPair(pair, self._record_fields())
        return NotImplemented

    def _record_fields(self):
        """Field names of the record the classifier returns, when it returns a NamedTuple instead of a bare pair."""
        if not hasattr(self, "_rec"):
            self._rec = None
            lay = self.model.__dict__.get("_layout", 0)
            if lay == 0:
                lay = layout(self.model)
            if lay is not None and lay.rec_ci is not None:
                self._rec = lay.rec_ci
                return [x for x, _ in self._rec.fields]
            for n in ast.walk(self.infer.node):
                if isinstance(n, ast.Return) and isinstance(n.value, ast.Call):
                    ci = self.model.resolve_class_expr(self.infer.module, n.value.func)
                    if ci is not None and len(ci.fields) == 2:
                        self._rec = ci
                        break
        return [x for x, _ in self._rec.fields] if self._rec is not None else None

    def _record(self, interp, pair):
        if self._record_fields() is None:
            return pair
        return interp._make_record(self._rec, list(pair), {}, None, True)

    def on_text(self, interp, node, frame, value):
        self.texts.append((node, frame.func, value))


class _LazyPair:
    """Result of the unknown `__infer_type`: unpacks into two linked lazy fields."""

    def __init__(self, lazy: Lazy, fields=None):
        self.lazy = lazy
        self.resolved = None
        self.fields = fields       # attribute names when the classifier returns a two-field record

    def __iter__(self):
        return iter((_LinkedLazy(self, 0), _LinkedLazy(self, 1)))

    def __getattr__(self, name):
        fields = self.__dict__.get("fields")
        if fields and name in fields:
            return _LinkedLazy(self, fields.index(name))
        raise AttributeError(name)

    def __getitem__(self, k):
        return _LinkedLazy(self, (0, 1)[k])


class _LinkedLazy(Lazy):
    sticky = True        # the pair remembers its resolution: safe to resolve wherever the value is needed

    def __init__(self, pair: _LazyPair, idx: int):
        self.pair = pair
        self.idx = idx
        self.tag = pair.lazy.tag

    @property
    def options(self):
        # resolved jointly: once one component is forced the other follows
        if self.pair.resolved is not None:
            return [self.pair.resolved[self.idx]]
        return _JointOptions(self)


class _JointOptions(list):
    def __init__(self, ll: _LinkedLazy):
        super().__init__(o[ll.idx] for o in ll.pair.lazy.options)
        self.ll = ll

    def __getitem__(self, k):
        self.ll.pair.resolved = self.ll.pair.lazy.options[k]
        return self.ll.pair.resolved[self.ll.idx]


def classify_real(model: Model, text: str, fuel=400000):
    """(type member name, repeatable flag) the library itself assigns to raw text: `Pregex(text, escape=False)` is
    interpreted with nothing replaced and the two values are read through the probed layout - neither the classifier's
    name, signature nor return shape is assumed.  Raises PyRaise / Incomplete like any interpretation."""
    it = Interp(model, Hooks(), fuel=fuel)
    o = it.construct(model.pregex, [text, False])
    t, rep = slot_of(model, o, "type"), slot_of(model, o, "rep")
    return t, rep


def infer_empty_rule(model: Model):
    if layout(model) is not None:
        try:
            t, rep = classify_real(model, "")
        except PyRaise as e:
            return False, f"Pregex('') raises {e.name}"
        except Incomplete as e:
            return False, f"Pregex('') cannot be interpreted: {e}"
        if isinstance(t, EnumVal) and t.name == "Empty" and rep is True:
            return True, "ok"
        return False, f"Pregex('') is classified ({t!r}, {rep!r}) instead of (_Type.Empty, True)"
    return _infer_empty_rule_direct(model)


def _infer_empty_rule_direct(model: Model):
    """Justification of the oracle "'' -> (Empty, True)": `__infer_type('')` is interpreted (it is the
    classifier applied to one constant, the empty text) and must return (_Type.Empty, True)."""
    f = model.method("pregex.core.pre", "Pregex", "__infer_type")
    from .interp import FuncRef
    it = Interp(model, Hooks())
    try:
        r = it.call(FuncRef(f), [""])
    except PyRaise as e:
        return False, f"__infer_type('') raises {e.name}"
    except Incomplete as e:
        return False, f"__infer_type('') cannot be interpreted: {e}"
    try:
        t, rep = r
    except Exception:
        return False, f"__infer_type('') returns {r!r}"
    if isinstance(t, EnumVal) and t.name == "Empty" and rep is True:
        return True, "ok"
    return False, f"__infer_type('') returns ({t!r}, {rep!r}) instead of (_Type.Empty, True)"


# --------------------------------------------------------------------------
# regex syntax oracle
def norm_tree(p):
    """re._parser SubPattern -> nested tuples (hashable, comparable)."""
    if isinstance(p, sre_parse.SubPattern):
        return tuple(norm_tree(x) for x in p.data)
    if isinstance(p, tuple):
        return tuple(norm_tree(x) for x in p)
    if isinstance(p, list):
        return tuple(norm_tree(x) for x in p)
    if isinstance(p, sre_c._NamedIntConstant):
        return str(p)
    return p


def parse_regex(text: str, flags=FLAGS):
    """Parse with CPython's regex parser; returns (tree, n_groups, groupdict) or raises re.error."""
    import warnings
    with warnings.catch_warnings():
        warnings.simplefilter("ignore")
        p = sre_parse.parse(text, flags)
    return norm_tree(p), p.state.groups - 1, dict(p.state.groupdict)


def compiles(text: str, flags=FLAGS):
    """CPython's whole front end (parser + compiler checks such as fixed-width look-behind) on a witness text."""
    import warnings
    with warnings.catch_warnings():
        warnings.simplefilter("ignore")
        try:
            re.compile(text, flags)
            return True, ""
        except re.error as e:
            return False, str(e)
        except (RecursionError, OverflowError) as e:
            return False, f"{type(e).__name__}: {e}"


def same_regex(a: str, b: str):
    """True iff both parse and yield the same syntax tree (non-capturing groups without
    flags are transparent in CPython's tree, so extra (?:...) never matters)."""
    try:
        ta = parse_regex(a)
    except re.error as e:
        return False, f"does not parse: {a!r}: {e}"
    try:
        tb = parse_regex(b)
    except re.error as e:
        return False, f"reference does not parse: {b!r}: {e}"
    if ta == tb:
        return True, ""
    return False, f"{a!r} parses differently from reference {b!r}"


# witnesses ------------------------------------------------------------------
# One or more witness texts per type tag.  `recv` witnesses use letters s,t,u,v;
# `arg` witnesses use p,q,r,w so that their origin is visible in emitted text.
def witnesses(role: str):
    a, b, c = ("s", "t", "u") if role == "recv" else ("p", "q", "r")
    return {
        "Alternation": [(f"{a}|{b}{c}", True), (f"{a}{b}|{c}", True)],
        "Assertion": [(f"^{a}{b}", False), (f"{a}{b}$", False), (f"(?<={a}){b}", False), (f"{a}(?={b})", False),
                      (f"\\A{a}", False), (f"{a}\\Z", False),
                      (f"{a}\\b", True), (f"(?<!{a}){b}", True), (f"{a}(?!{b})", True), (f"\\b{a}{b}\\b", True)],
        "Class": [(f"[{a}{b}]", True), (".", True), ("\\d", True), (f"[^{a}]", True)],
        "Empty": [("", True)],
        "Group": [(f"({a}{b})", True), (f"(?:{a}{b})", True), (f"(?P<g{a}>{a}{b})", True), (f"(?i:{a}{b})", True)],
        "Other": [(f"{a}{b}", True), (f"{a}{b}{c}", True), (f"\\.{a}", True), (f"{a}[{b}]", True), (f"({a}){b}", True)],
        "Quantifier": [(f"{a}+", True), (f"{a}?", True), (f"{a}{{2}}", True), (f"[{a}{b}]*", True), (f"(?:{a}{b}){{2,3}}", True), (f"{a}*?", True)],
        "Token": [(a, True), ("\\$", True), ("\\\\", True), ("\n", True)],
    }
