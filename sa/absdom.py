"""Abstract Pregex operands, witnesses and the regex-syntax oracle (re._parser).

An abstract operand is an `Obj` of class Pregex (or a subclass) whose *type tag*
and *repeatable flag* are abstract inputs chosen by the rule and whose text is a
witness string.  `Pregex.__infer_type` is never interpreted: for objects built by
the interpreted code its result is a `Lazy` pair (forked on first use), except for
the empty text, whose classification is read off the source by `infer_empty_rule`.
"""
from __future__ import annotations

import ast
import re
import re._parser as sre_parse
import re._constants as sre_c

from .interp import Hooks, Interp, Lazy, Obj, EnumVal, Incomplete, PyRaise
from .model import AnalysisError, Model, mangle

TYPE_NAMES = ["Alternation", "Assertion", "Class", "Empty", "Group", "Other", "Quantifier", "Token"]

FLAGS = re.MULTILINE | re.DOTALL


def type_enum(model: Model):
    return model.cls("pregex.core.pre", "_Type")


def tval(model: Model, name: str) -> EnumVal:
    ci = type_enum(model)
    if name not in ci.attrs:
        raise AnalysisError(f"anchor vanished: _Type.{name}")
    v = ci.attrs[name]
    return EnumVal(ci, name, v.value if isinstance(v, ast.Constant) else None)


def check_type_enum(model: Model):
    ci = type_enum(model)
    names = sorted(ci.attrs)
    if names != sorted(TYPE_NAMES):
        raise AnalysisError(f"_Type members changed: {names}; the abstract type domain must be revisited")


def cache_field(model: Model) -> str:
    """Mangled name of the compiled-pattern cache field, located by role: the one instance field that the public
    method `compile` assigns (its name is private and may change)."""
    c = model.__dict__.get("_cache_field")
    if c is None:
        c = "_Pregex__compiled"
        comp = model.pregex.methods.get("compile")
        names = []
        if comp is not None:
            for n in ast.walk(comp.node):
                if isinstance(n, ast.Attribute) and isinstance(n.ctx, ast.Store) and isinstance(n.value, ast.Name) and n.value.id == "self":
                    names.append(mangle(n.attr, "Pregex"))
        if len(set(names)) == 1:
            c = names[0]
        model.__dict__["_cache_field"] = c
    return c


class _Fields:
    pass


def F(model: Model):
    """Mangled names of Pregex's instance fields, located by role in Pregex.__init__ (private names may change):
    pattern = the field assigned from the `pattern` parameter (escaped or not); type / repeatable = the two targets of
    the tuple assignment from the classifier; cache = see cache_field."""
    f = model.__dict__.get("_field_names")
    if f is None:
        f = _Fields()
        f.pattern, f.type, f.repeatable = "_Pregex__pattern", "_Pregex__type", "_Pregex__repeatable"
        init = model.pregex.methods.get("__init__")
        if init is not None:
            params = init.params
            for n in ast.walk(init.node):
                if isinstance(n, ast.Assign) and len(n.targets) == 1:
                    t = n.targets[0]
                    is_self_attr = lambda x: isinstance(x, ast.Attribute) and isinstance(x.value, ast.Name) and x.value.id == "self"
                    if isinstance(t, ast.Tuple) and len(t.elts) == 2 and all(is_self_attr(e) for e in t.elts):
                        f.type, f.repeatable = mangle(t.elts[0].attr, "Pregex"), mangle(t.elts[1].attr, "Pregex")
                    elif is_self_attr(t) and len(params) > 1 and any(isinstance(x, ast.Name) and x.id == params[1] for x in ast.walk(n.value)):
                        f.pattern = mangle(t.attr, "Pregex")
        f.cache = cache_field(model)
        model.__dict__["_field_names"] = f
    global CURRENT
    CURRENT = f
    return f


CURRENT = None


def pattern_of(o):
    """Pattern text of an interpreted Pregex object (field located by role; see F)."""
    if not isinstance(o, Obj):
        return None
    if CURRENT is not None and CURRENT.pattern in o.fields:
        return o.fields[CURRENT.pattern]
    return o.fields.get("_Pregex__pattern")


def make_operand(model: Model, text: str, tname: str, repeatable: bool = True, cls=None, tag=None) -> Obj:
    ci = cls or model.pregex
    o = Obj(ci)
    fn = F(model)
    o.fields[fn.pattern] = text
    o.fields[fn.type] = tval(model, tname)
    o.fields[fn.repeatable] = repeatable
    o.fields[cache_field(model)] = None
    o.tag = tag or f"{tname}:{text!r}"
    return o


def tag_feasible(tag: str, text: str) -> bool:
    """Necessary condition for a type tag on a concrete text (a tag the classifier could not possibly give is not
    explored: builders may rely on the shape a tag implies, e.g. a Group-typed text being parenthesised).  Generous on
    purpose; whether the classifier gives the RIGHT tag is C02 R-COMPOSE / C08 R-GROUP-REAL / C09 R-REPEAT-LIT."""
    if tag == "Group":
        return len(text) >= 2 and text[0] == "(" and text[-1] == ")"
    if tag == "Class":
        return text[:1] == "[" or text == "." or (len(text) == 2 and text[0] == "\\")
    if tag == "Token":
        return len(text) == 1 or (text[:1] == "\\" and len(text) <= 10)
    if tag == "Alternation":
        return "|" in text
    if tag == "Quantifier":
        return text[-1:] in "?*+}"
    if tag == "Assertion":
        return any(k in text for k in ("^", "$", "\\A", "\\Z", "\\b", "\\B", "(?=", "(?!", "(?<"))
    return True


class PregexHooks(Hooks):
    """Default hooks: `__infer_type` is replaced by an oracle.

    oracle(text) -> (type name, repeatable) | None.  None => Lazy fork over all
    non-empty types (with Assertion both repeatable and not).
    """

    def __init__(self, model: Model, oracle=None, fork_unknown=True):
        self.model = model
        self.oracle = oracle
        self.fork_unknown = fork_unknown
        self.infer = model.method("pregex.core.pre", "Pregex", "__infer_type")
        self.texts: list = []   # (node, frame.func, value)
        self.infer_calls: list = []

    def intercept(self, interp, target, args, kwargs, node):
        if target is self.infer:
            text = args[0] if args else kwargs.get("pattern")
            self.infer_calls.append(text)
            if not isinstance(text, str):
                raise Incomplete("__infer_type on non-string")
            if text == "":
                return self._record(interp, (tval(self.model, "Empty"), True))
            if self.oracle is not None:
                r = self.oracle(text)
                if r is not None:
                    return self._record(interp, (tval(self.model, r[0]), r[1]))
            if not self.fork_unknown:
                raise Incomplete(f"type of constructed text {text!r} needed but unknown")
            opts = [(n, True) for n in TYPE_NAMES if n != "Empty" and tag_feasible(n, text)]
            if tag_feasible("Assertion", text):
                opts.append(("Assertion", False))
            pair = Lazy([(tval(self.model, n), rep) for n, rep in opts], f"infer_type({text!r})")
            return _LazyPair(pair, self._record_fields())
        return NotImplemented

    def _record_fields(self):
        """Field names of the record the classifier returns, when it returns a NamedTuple instead of a bare pair."""
        if not hasattr(self, "_rec"):
            self._rec = None
            for n in ast.walk(self.infer.node):
                if isinstance(n, ast.Return) and isinstance(n.value, ast.Call):
                    ci = self.model.resolve_class_expr(self.infer.module, n.value.func)
                    if ci is not None and len(ci.fields) == 2:
                        self._rec = ci
                        break
        return [x for x, _ in self._rec.fields] if self._rec is not None else None

    def _record(self, interp, pair):
        if self._record_fields() is None:
            return pair
        return interp._make_record(self._rec, list(pair), {}, None, True)

    def on_text(self, interp, node, frame, value):
        self.texts.append((node, frame.func, value))


class _LazyPair:
    """Result of the unknown `__infer_type`: unpacks into two linked lazy fields."""

    def __init__(self, lazy: Lazy, fields=None):
        self.lazy = lazy
        self.resolved = None
        self.fields = fields       # attribute names when the classifier returns a two-field record

    def __iter__(self):
        return iter((_LinkedLazy(self, 0), _LinkedLazy(self, 1)))

    def __getattr__(self, name):
        fields = self.__dict__.get("fields")
        if fields and name in fields:
            return _LinkedLazy(self, fields.index(name))
        raise AttributeError(name)

    def __getitem__(self, k):
        return _LinkedLazy(self, (0, 1)[k])


class _LinkedLazy(Lazy):
    def __init__(self, pair: _LazyPair, idx: int):
        self.pair = pair
        self.idx = idx
        self.tag = pair.lazy.tag

    @property
    def options(self):
        # resolved jointly: once one component is forced the other follows
        if self.pair.resolved is not None:
            return [self.pair.resolved[self.idx]]
        return _JointOptions(self)


class _JointOptions(list):
    def __init__(self, ll: _LinkedLazy):
        super().__init__(o[ll.idx] for o in ll.pair.lazy.options)
        self.ll = ll

    def __getitem__(self, k):
        self.ll.pair.resolved = self.ll.pair.lazy.options[k]
        return self.ll.pair.resolved[self.ll.idx]


def infer_empty_rule(model: Model):
    """Justification of the oracle "'' -> (Empty, True)": `__infer_type('')` is interpreted (it is the
    classifier applied to one constant, the empty text) and must return (_Type.Empty, True)."""
    f = model.method("pregex.core.pre", "Pregex", "__infer_type")
    from .interp import FuncRef
    it = Interp(model, Hooks())
    try:
        r = it.call(FuncRef(f), [""])
    except PyRaise as e:
        return False, f"__infer_type('') raises {e.name}"
    except Incomplete as e:
        return False, f"__infer_type('') cannot be interpreted: {e}"
    try:
        t, rep = r
    except Exception:
        return False, f"__infer_type('') returns {r!r}"
    if isinstance(t, EnumVal) and t.name == "Empty" and rep is True:
        return True, "ok"
    return False, f"__infer_type('') returns ({t!r}, {rep!r}) instead of (_Type.Empty, True)"


# --------------------------------------------------------------------------
# regex syntax oracle
def norm_tree(p):
    """re._parser SubPattern -> nested tuples (hashable, comparable)."""
    if isinstance(p, sre_parse.SubPattern):
        return tuple(norm_tree(x) for x in p.data)
    if isinstance(p, tuple):
        return tuple(norm_tree(x) for x in p)
    if isinstance(p, list):
        return tuple(norm_tree(x) for x in p)
    if isinstance(p, sre_c._NamedIntConstant):
        return str(p)
    return p


def parse_regex(text: str, flags=FLAGS):
    """Parse with CPython's regex parser; returns (tree, n_groups, groupdict) or raises re.error."""
    import warnings
    with warnings.catch_warnings():
        warnings.simplefilter("ignore")
        p = sre_parse.parse(text, flags)
    return norm_tree(p), p.state.groups - 1, dict(p.state.groupdict)


def compiles(text: str, flags=FLAGS):
    """CPython's whole front end (parser + compiler checks such as fixed-width look-behind) on a witness text."""
    import warnings
    with warnings.catch_warnings():
        warnings.simplefilter("ignore")
        try:
            re.compile(text, flags)
            return True, ""
        except re.error as e:
            return False, str(e)
        except (RecursionError, OverflowError) as e:
            return False, f"{type(e).__name__}: {e}"


def same_regex(a: str, b: str):
    """True iff both parse and yield the same syntax tree (non-capturing groups without
    flags are transparent in CPython's tree, so extra (?:...) never matters)."""
    try:
        ta = parse_regex(a)
    except re.error as e:
        return False, f"does not parse: {a!r}: {e}"
    try:
        tb = parse_regex(b)
    except re.error as e:
        return False, f"reference does not parse: {b!r}: {e}"
    if ta == tb:
        return True, ""
    return False, f"{a!r} parses differently from reference {b!r}"


# witnesses ------------------------------------------------------------------
# One or more witness texts per type tag.  `recv` witnesses use letters s,t,u,v;
# `arg` witnesses use p,q,r,w so that their origin is visible in emitted text.
def witnesses(role: str):
    a, b, c = ("s", "t", "u") if role == "recv" else ("p", "q", "r")
    return {
        "Alternation": [(f"{a}|{b}{c}", True), (f"{a}{b}|{c}", True)],
        "Assertion": [(f"^{a}{b}", False), (f"{a}{b}$", False), (f"(?<={a}){b}", False), (f"{a}(?={b})", False),
                      (f"\\A{a}", False), (f"{a}\\Z", False),
                      (f"{a}\\b", True), (f"(?<!{a}){b}", True), (f"{a}(?!{b})", True), (f"\\b{a}{b}\\b", True)],
        "Class": [(f"[{a}{b}]", True), (".", True), ("\\d", True), (f"[^{a}]", True)],
        "Empty": [("", True)],
        "Group": [(f"({a}{b})", True), (f"(?:{a}{b})", True), (f"(?P<g{a}>{a}{b})", True), (f"(?i:{a}{b})", True)],
        "Other": [(f"{a}{b}", True), (f"{a}{b}{c}", True), (f"\\.{a}", True), (f"{a}[{b}]", True), (f"({a}){b}", True)],
        "Quantifier": [(f"{a}+", True), (f"{a}?", True), (f"{a}{{2}}", True), (f"[{a}{b}]*", True), (f"(?:{a}{b}){{2,3}}", True), (f"{a}*?", True)],
        "Token": [(a, True), ("\\$", True), ("\\\\", True), ("\n", True)],
    }
