"""Static-analysis machinery specific to manoss96/pregex (see /verif/DESIGN.md)."""
