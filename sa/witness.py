"""Witness values shared by the rules: arguments in rarely used but legitimate FORMS.

SubStr / LabelStr are instances of user subclasses of `str` - every one of them IS a str, carries ordinary characters
and must be treated exactly like the plain string with the same characters.  LabelStr mimics a member of
`class Unit(str, enum.Enum)`: its characters are the value, but str() / format() / f-strings show a label.
Code that tests `type(x) is str`, keeps the caller's object instead of a built-in str, or interpolates the object
into an f-string treats them differently from the plain string."""


class SubStr(str):
    __slots__ = ()


class LabelStr(str):
    __slots__ = ()

    def __str__(self):
        return "Label.X"

    def __format__(self, spec):
        return format("Label.X", spec)

    def __repr__(self):
        return "<Label.X: " + str.__repr__(self) + ">"


def plain(s):
    """The built-in str with the same characters."""
    return "".join(s)
