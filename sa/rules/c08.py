"""C08 - capturing-group structure is exactly what the expression spells out.

R-GROUP-CASE  capture(name) / group(flag) (method and class form) on every kind of receiver: empty, non-group of
              every type tag, and Group-typed text for each parenthesised construct of the re grammar, with and
              without nested named / unnamed / flagged groups; the emitted text is parsed by CPython's regex
              parser and its syntax tree, number of groups and name table are compared with the specified result
R-NAME        names are validated before any emit; invalid names raise the documented exceptions; (thorough) every
              name the validators accept is a name `re` accepts (per code point, whole Unicode range)
R-BACKREF     Backreference / Conditional emit \\N, (?P=name), (?(name)...) under their guards
"""
from __future__ import annotations

import ast
import re
import sys

from ..absdom import parse_regex
from ..consts import fold_str
from ..interp import FuncRef
from ..model import AnalysisError, norm_text
from . import builders as B
from .builders import PRE

GR = "pregex.core.groups"

# (label, text, kind)   kinds: cap, named, noncap, flagged, paren (other parenthesised construct), plain
GROUP_WITNESSES = [
    ("capturing group", "(st)", "cap"),
    ("named group", "(?P<g>st)", "named"),
    ("non-capturing group", "(?:st)", "noncap"),
    ("flagged group", "(?i:st)", "flagged"),
    ("capturing group with nested named group", "((?P<h>s)t)", "cap"),
    ("named group with nested named group", "(?P<g>(?P<h>s)t)", "named"),
    ("named group with nested named and plain groups", "(?P<g>(?P<h>s)(t)(?P<k>u))", "named"),
    ("named group with nested non-capturing and flagged groups", "(?P<g>s(?:t)(?i:u))", "named"),
    ("named group whose name has non-ASCII letters", "(?P<gr\u00f6\u00dfe>st)", "named"),
    ("named group with a non-ASCII name and a nested named group", "(?P<x_\u03b4>s(?P<h>t)u)", "named"),
    ("named group with a long name", "(?P<a_rather_long_group_name_0123456789>st)", "named"),
    ("capturing group with nested non-capturing group", "((?:s)t)", "cap"),
    ("capturing group with nested capturing group", "((s)t)", "cap"),
    ("non-capturing group with nested named group", "(?:(?P<h>s)(u)t)", "noncap"),
    ("non-capturing group with nested non-capturing group", "(?:s(?:t))", "noncap"),
    ("non-capturing group with nested flagged group", "(?:s(?i:t))", "noncap"),
    ("flagged group with nested named group", "(?i:(?P<h>s)t)", "flagged"),
    ("flagged group with nested non-capturing group", "(?i:s(?:t))", "flagged"),
    ("group containing an escaped parenthesis", "(s\\(t)", "cap"),
    ("non-capturing group containing '?:' literally", "(?:s\\?:t)", "noncap"),
    ("look-ahead", "(?=st)", "paren"), ("negative look-ahead", "(?!st)", "paren"),
    ("look-behind", "(?<=st)", "paren"), ("negative look-behind", "(?<!st)", "paren"),
    ("look-ahead with nested group", "(?=(?:s)(?P<h>t))", "paren"),
    ("conditional", "(?(g)st)", "paren"), ("named back-reference", "(?P=g)", "paren"),
]
PLAIN = [("Other", "st"), ("Token", "s"), ("Class", "[st]"), ("Alternation", "s|tu"), ("Quantifier", "s+"),
         ("Assertion", "^st"), ("Other", "(s)t"), ("Other", "(?P<h>s)t(?P<k>u)"), ("Other", "s\\(t\\)"), ("Other", "\\(st\\)")]


def inner(text, kind):
    if kind == "cap":
        return text[1:-1]
    if kind == "named":
        return text[text.index(">") + 1:-1]
    if kind == "noncap":
        return text[3:-1]
    if kind == "flagged":
        return text[4:-1]
    return None


def ref_capture(text, kind, name):
    open_ = f"(?P<{name}>" if name else "("
    if kind in ("plain", "paren"):
        return f"{open_}{text})"
    if kind in ("cap", "named"):
        return text if not name else f"{open_}{inner(text, kind)})"
    if kind == "noncap":
        return f"{open_}{inner(text, kind)})"
    if kind == "flagged":
        return f"{open_}{text})"
    raise AssertionError(kind)


def ref_group(text, kind, flag):
    open_ = "(?i:" if flag else "(?:"
    if kind in ("plain", "paren"):
        return f"{open_}{text})"
    return f"{open_}{inner(text, kind)})"


def needs_g(text):
    return "(?(g)" in text or "(?P=g)" in text


def run(ctx, model):
    from . import signatures as _sig
    _n_sig = _sig.check(ctx, model, "R-SIGNATURE", lambda k: k.startswith('pregex.core.groups:') or k.split('.')[-1] in ('capture', 'group'))
    ctx.floor("R-SIGNATURE", _n_sig, 1, "public entry points")
    ctx.explanation = __doc__.strip().replace("\n", " ")
    ctx.assumptions += [
        "what counts as Group-typed is decided by __is_group on run-time text (not decided); the receivers enumerated are the "
        "parenthesised constructs the DSL's own emitters can produce as a whole text",
        "grouping never changes which text is matched beyond the parsed structure: re's semantics",
    ]
    B.prepare(model)
    ctx.exhaustive = False
    cap_f = model.method(PRE, "Pregex", "capture")
    grp_f = model.method(PRE, "Pregex", "group")
    receivers = [(f"Group[{label}]", "Group", text, kind) for label, text, kind in GROUP_WITNESSES]
    receivers += [(f"{t}:{x!r}", t, x, "plain") for t, x in PLAIN]
    n = 0
    for label, tname, text, kind in receivers:
        spec = (label, tname, text, tname != "Assertion")
        pre = "(?P<g>x)" if needs_g(text) else ""
        for name in (None, "nm", "n\u00e4m_\u03b4"):
            for form in ("method", "class"):
                if form == "method":
                    outs, f = B.call_method_ident(model, "capture", spec, [], [name])
                else:
                    ci = model.cls(GR, "Capture")
                    outs = B.run_thunk(model, lambda it, ci=ci, spec=spec, name=name: it.construct(ci, [B.mk(model, spec), name]))
                    f = cap_f
                ref = ref_capture(text, kind, name)
                n += _judge(ctx, f, f"capture({name!r}) [{form}]", label, text, outs, pre, ref)
        for flag in (False, True):
            for form in ("method", "class"):
                if form == "method":
                    outs, f = B.call_method_ident(model, "group", spec, [], [flag])
                else:
                    ci = model.cls(GR, "Group")
                    outs = B.run_thunk(model, lambda it, ci=ci, spec=spec, flag=flag: it.construct(ci, [B.mk(model, spec), flag]))
                    f = grp_f
                ref = ref_group(text, kind, flag)
                n += _judge(ctx, f, f"group({flag}) [{form}]", label, text, outs, pre, ref)
    n += B.same_object_twice(ctx, model, "R-GROUP-CASE", [("Group:'(p)'", "Group", "(p)", True), ("Group:'(?P<g>p)'", "Group", "(?P<g>p)", True),
                                                         ("Other:'(p)q'", "Other", "(p)q", True)])
    ctx.floor("R-GROUP-CASE", n, 250, "capture/group cases")

    # ---------------- R-GROUP-REAL (classifier interpreted; shared family of C02 R-COMPOSE)
    from . import compose
    recs = compose.run_all(ctx, model)
    n_real = compose.judge_c08(ctx, model, recs)
    ctx.floor("R-GROUP-REAL", n_real, 3000, "capture/group applications on library-built operands")

    # ---------------- R-NAME
    _names(ctx, model)
    # ---------------- R-BACKREF
    _backref(ctx, model)


def _judge(ctx, f, what, label, text, outs, pre, ref):
    k = 0
    for o in outs:
        k += 1
        inp = f"{what} on {label} {text!r}"
        ctx.instance("R-GROUP-CASE", key=inp, sample=f"{inp} -> {o.describe()}  [required structure {ref!r}]")
        if o.kind == "raise" or o.text is None:
            file, func, line, construct = o.where(f)
            ctx.violation("R-GROUP-CASE", file, func, construct, f"{what.split(' [')[0]} fails on a valid receiver", line,
                          inp=f"{what.split(' [')[0]} on {label}", detail=f"{inp}: {o.describe()}")
            continue
        ok, why = B.same_structure(pre + o.text, pre + ref)
        if ok is None:
            raise AnalysisError(f"reference {ref!r} does not parse")
        if not ok:
            ctx.violation("R-GROUP-CASE", f.relpath, f.short, f"{what.split('(')[0]}: {_branch(text)}",
                          f"{what.split(' [')[0]}: the capturing-group structure of the result is not what the expression spells out",
                          f.node.lineno, inp=f"{what.split(' [')[0]} on {label}", detail=f"{inp}: {why}")
    return k


def _branch(text):
    if text.startswith("(?P<"):
        return "named-group branch"
    if text.startswith("(?:"):
        return "non-capturing branch"
    if text.startswith("(?i"):
        return "flagged-group branch"
    if text.startswith("(?"):
        return "other parenthesised construct"
    if text.startswith("("):
        return "capturing-group branch"
    return "non-group branch"


def _names(ctx, model):
    cap_f = model.method(PRE, "Pregex", "capture")
    recv = ("Other:'st'", "Other", "st", True)
    bad_names = ["1a", "a-b", "a b", "", "a.b", "a)", "(", "n>", "a\n", " a", "a\u00b2", "a\u00bd", "\u00b2"]
    good_names = ["a", "_", "A1", "a_b", "nm"]
    for name, exc in [(5, "InvalidArgumentTypeException"), (1.5, "InvalidArgumentTypeException"), (["a"], "InvalidArgumentTypeException"),
                      (True, "InvalidArgumentTypeException")] + [(nm, "InvalidCapturingGroupNameException") for nm in bad_names]:
        for r in (recv, ("Empty:''", "Empty", "", True), ("Group:'(st)'", "Group", "(st)", True)):
            outs, f = B.call_method_ident(model, "capture", r, [], [name])
            for o in outs:
                inp = f"capture(name={name!r}) on {r[0]}"
                ctx.instance("R-NAME", key=inp, sample=f"{inp} -> {o.describe()}")
                if not (o.kind == "raise" and o.exc.name == exc):
                    ctx.violation("R-NAME", f.relpath, f.short, "name validation",
                                  f"an invalid group name must raise {exc} before anything is emitted", f.node.lineno, inp=inp,
                                  detail=o.describe())
    for nm in good_names:
        outs, f = B.call_method_ident(model, "capture", recv, [], [nm])
        for o in outs:
            ctx.instance("R-NAME", key=("good", nm), sample=f"capture(name={nm!r}) -> {o.describe()}")
            if o.kind == "raise":
                ctx.violation("R-NAME", f.relpath, f.short, "name validation", f"the valid name {nm!r} is refused", f.node.lineno, inp=nm)
    # validators as constants
    sites = []
    for fn in model.all_functions():
        for node in ast.walk(fn.node):
            if isinstance(node, ast.Raise) and "InvalidCapturingGroupNameException" in ast.unparse(node):
                p = model.parents.get(node)
                while p is not None and not isinstance(p, ast.If):
                    p = model.parents.get(p)
                if p is None:
                    continue
                for c in ast.walk(p.test):
                    if isinstance(c, ast.Call) and isinstance(c.func, ast.Attribute) and c.func.attr == "fullmatch" and c.args:
                        const = fold_str(model, fn, c.args[0])
                        if const is not None:
                            sites.append((fn, const))
    have = {fn.short for fn, _ in sites}
    for need, (mod, cls, meth) in {"Pregex.capture": (PRE, "Pregex", "capture"), "Backreference.__init__": (GR, "Backreference", "__init__"),
                                   "Conditional.__init__": (GR, "Conditional", "__init__")}.items():
        if need not in have:
            # the validator is spelled differently (helper, hoisted constant, str methods): no constant to pre-filter
            # with, so every word character is a candidate and the whole guard is interpreted on each (below and in
            # the invalid-name rows above, which do not depend on how the guard is written)
            fn = model.method(mod, cls, meth)
            sites.append((fn, "\\w+"))
            ctx.note(f"{need}: no regex-constant name validator found at the raise site; the guard is judged by interpretation only")
    for fn, const in sites:
        ctx.instance("R-NAME", key=("validator", fn.short), sample=f"{fn.short}: validator {const!r}")
        try:
            rx = re.compile(const)
        except re.error as e:
            ctx.violation("R-NAME", fn.relpath, fn.short, "name validator", f"validator does not compile: {e}", fn.node.lineno)
            continue
        for s in ["a)", "a>", "a(", "a b", "a-b", "1", "", "a|b", "a\\"]:
            if const != "\\w+" and rx.fullmatch(s):
                ctx.violation("R-NAME", fn.relpath, fn.short, "name validator",
                              "the group-name validator admits a regex metacharacter / non-identifier", fn.node.lineno, inp=repr(s))
        if ctx.tier == "thorough":
            bad_first, bad_cont = [], []
            for cp in range(sys.maxunicode + 1):
                ch = chr(cp)
                if 0xD800 <= cp <= 0xDFFF:
                    continue
                if rx.fullmatch(ch) and not ch.isidentifier():
                    bad_first.append(cp)
                if rx.fullmatch("a" + ch) and not ("a" + ch).isidentifier():
                    bad_cont.append(cp)
            # the regex constant is only a pre-filter: the whole guard is then interpreted on each candidate name
            def guard_rejects(nm):
                if fn.node.name == "capture":
                    outs, _ = B.call_method_ident(model, "capture", ("Other:'st'", "Other", "st", True), [], [nm])
                elif fn.cls is not None and fn.node.name == "__init__":
                    args = [nm, "x"] if fn.cls.name == "Conditional" else [nm]
                    outs = B.run_thunk(model, lambda it: it.construct(fn.cls, args))
                else:
                    return False
                return all(o.kind == "raise" and o.exc.name == "InvalidCapturingGroupNameException" for o in outs)
            n_cand = len(bad_first) + len(bad_cont)
            bad_first = [c for c in bad_first if not guard_rejects(chr(c))]
            bad_cont = [c for c in bad_cont if not guard_rejects("a" + chr(c))]
            ctx.instance("R-NAME", key=("unicode", fn.short), sample=f"{fn.short}: {n_cand} code points pass the regex constant but are not identifier characters; {len(bad_first) + len(bad_cont)} of them pass the whole guard", n=max(2, n_cand))
            if bad_first or bad_cont:
                ex = [f"U+{c:04X}" for c in (bad_first + bad_cont)[:6]]
                ctx.violation("R-NAME", fn.relpath, fn.short, "name validator vs re",
                              "the validator accepts names that re rejects (bad character in group name)", fn.node.lineno,
                              inp=f"{len(bad_first)} first-position and {len(bad_cont)} continuation code points",
                              detail=f"e.g. {ex}: 'a' + chr(0x{(bad_cont or bad_first)[0]:X}) passes {const!r} but is not an identifier")


def _backref(ctx, model):
    ci = model.cls(GR, "Backreference")
    f = ci.methods["__init__"]
    rows = [(1, ("text", "\\1")), (9, ("text", "\\9")), (10, ("text", "\\10")), (99, ("text", "\\99")),
            (0, ("raise", "InvalidArgumentValueException")), (100, ("raise", "InvalidArgumentValueException")),
            (-1, ("raise", "InvalidArgumentValueException")), (True, ("raise", "InvalidArgumentTypeException")),
            (1.0, ("raise", "InvalidArgumentTypeException")), (None, ("raise", "InvalidArgumentTypeException")),
            ("nm", ("text", "(?P=nm)")), ("_a1", ("text", "(?P=_a1)")), ("1a", ("raise", "InvalidCapturingGroupNameException")),
            ("a-b", ("raise", "InvalidCapturingGroupNameException")), ("", ("raise", "InvalidCapturingGroupNameException")),
            ("a)", ("raise", "InvalidCapturingGroupNameException"))]
    for ref, exp in rows:
        outs = B.run_thunk(model, lambda it, ref=ref: it.construct(ci, [ref]))
        for o in outs:
            inp = f"Backreference({ref!r})"
            ctx.instance("R-BACKREF", key=inp, sample=f"{inp} -> {o.describe()}")
            ok = (o.kind == "raise" and o.exc.name == exp[1]) if exp[0] == "raise" else (o.kind == "return" and o.text == exp[1])
            if not ok:
                ctx.violation("R-BACKREF", f.relpath, f.short, "back-reference template / guard",
                              f"{inp} must {'raise ' + exp[1] if exp[0] == 'raise' else 'emit ' + repr(exp[1])}", f.node.lineno,
                              inp=inp, detail=o.describe())
    ci = model.cls(GR, "Conditional")
    f = ci.methods["__init__"]
    for name, exc in [(5, "InvalidArgumentTypeException"), (None, "InvalidArgumentTypeException"), ("1a", "InvalidCapturingGroupNameException"),
                      ("a b", "InvalidCapturingGroupNameException"), ("", "InvalidCapturingGroupNameException"), ("a)", "InvalidCapturingGroupNameException")]:
        outs = B.run_thunk(model, lambda it, name=name: it.construct(ci, [name, "x"]))
        for o in outs:
            inp = f"Conditional({name!r}, 'x')"
            ctx.instance("R-BACKREF", key=inp, sample=f"{inp} -> {o.describe()}")
            if not (o.kind == "raise" and o.exc.name == exc):
                ctx.violation("R-BACKREF", f.relpath, f.short, "conditional name guard", f"{inp} must raise {exc}", f.node.lineno,
                              inp=inp, detail=o.describe())
    ctx.floor("R-BACKREF", ctx.rule_counts.get("R-BACKREF", 0), 20, "back-reference / conditional rows")
