"""C19 - Date patterns match exactly the selected numeric formats.

R-DATE-FORMATS   __date_formats() yields exactly the 48 documented formats, no duplicates
R-DATE-TOKENS    every token of every format has a table entry whose language (enumerated, look-behinds
                 honoured) is d,m=1-9  dd=01-31  mm=01-12  yy=2 digits  yyyy=4 digits
R-DATE-SKELETON  each format denotes tok sep tok sep tok in the format's order with its own separator
R-DATE-SELECT    None selects all, a str one, a list those listed (in order); anything else raises
                 InvalidArgumentValueException; word boundaries iff not is_extensible
"""
from __future__ import annotations

import itertools

from .. import finlang as FL
from ..finlang import Alt, Bnd, Lit
from ..model import AnalysisError

ESS = "pregex.meta.essentials"


def documented_formats():
    out = []
    for d, m, y in itertools.product(("dd", "d"), ("mm", "m"), ("yyyy", "yy")):
        for order in ((d, m, y), (m, d, y), (y, m, d)):
            for sep in ("-", "/"):
                out.append(sep.join(order))
    return out


def token_language(tok):
    if tok in ("d", "m"):
        return {str(i) for i in range(1, 10)}
    if tok == "dd":
        return {f"{i:02d}" for i in range(1, 32)}
    if tok == "mm":
        return {f"{i:02d}" for i in range(1, 13)}
    if tok == "yy":
        return {f"{i:02d}" for i in range(100)}
    if tok == "yyyy":
        return {f"{i:04d}" for i in range(10000)}
    raise KeyError(tok)


def run(ctx, model):
    from . import signatures as _sig
    _n_sig = _sig.check(ctx, model, "R-SIGNATURE", lambda k: ':Date.' in k)
    ctx.floor("R-SIGNATURE", _n_sig, 1, "public entry points")
    ctx.explanation = (
        "Date.__date_formats, Date.__date_pre and Date.__init__ are walked by the abstract interpreter in meta mode "
        "(E6: constant loops unrolled, pregex.core calls replaced by documented denotations).  The format list must "
        "equal the 48 documented formats; for each format the term must split at its own separator into three "
        "segments whose finite languages - enumerated exhaustively with the look-behind conditions honoured - are "
        "the documented token languages in the format's order; selection (None / str / list / invalid) and the "
        "word-boundary enclosure are evaluated on representatives of each kind.")
    ctx.assumptions += ["denotations of core DSL operators are their documented meaning (C01-C10)",
                        "preference among overlapping alternatives when searching inside longer text is re's rule (exact matches decided)"]
    ctx.exhaustive = True
    ci = model.cls(ESS, "Date")
    f_init = ci.methods["__init__"]
    want = documented_formats()
    # the two private helpers are used when they exist under their pinned names (sharper reports); otherwise the same
    # facts are obtained through the public constructor (Date([fmt], True) is the format's own pattern; Date() selects all)
    try:
        f_fmt = model.method(ESS, "Date", "__date_formats")
        f_pre = model.method(ESS, "Date", "__date_pre")
        k, fmts = FL.call_static(model, "Date", "__date_formats")

        def per_format(fmt):
            k, t = FL.call_static(model, "Date", "__date_pre", [fmt])
            if k == "raise" and t.name == "TypeError":      # the helper no longer has the signature (format): go through the constructor
                return FL.build(model, "Date", [[fmt], True])
            return k, t
    except AnalysisError:
        f_fmt = f_pre = f_init
        k, fmts = "value", list(want)
        per_format = lambda fmt: FL.build(model, "Date", [[fmt], True])
        ctx.note("Date's private helpers are not under their pinned names: formats are evaluated through the constructor")
    # ---------------- formats
    ctx.instance("R-DATE-FORMATS", key="list", sample=f"{len(fmts) if isinstance(fmts, list) else fmts!r} formats: {list(fmts)[:6] if isinstance(fmts, list) else ''}...")
    if k == "value" and isinstance(fmts, tuple):
        fmts = list(fmts)
    if k != "value" or not isinstance(fmts, list):
        raise AnalysisError("__date_formats did not evaluate to a list / tuple of formats")
    if sorted(fmts) != sorted(want) or len(set(fmts)) != len(fmts):
        ctx.violation("R-DATE-FORMATS", f_fmt.relpath, f_fmt.short, "format list",
                      "the list of valid date formats is not exactly the 48 documented ones", f_fmt.node.lineno,
                      detail=f"missing {sorted(set(want) - set(fmts))[:6]} extra {sorted(set(fmts) - set(want))[:6]} "
                             f"duplicates {len(fmts) - len(set(fmts))}")
    # ---------------- per-format term
    terms = {}
    lang_cache = {}
    for fmt in want:
        sep = "-" if "-" in fmt else "/"
        toks = fmt.split(sep)
        k, t = per_format(fmt)
        inp = f"format {fmt}"
        if k != "term":
            ctx.instance("R-DATE-SKELETON", key=fmt)
            ctx.violation("R-DATE-TOKENS" if k == "raise" and t.name == "KeyError" else "R-DATE-SKELETON",
                          f_pre.relpath, f_pre.short, "<format term>",
                          f"no pattern can be built for a documented format ({getattr(t, 'name', k)})", f_pre.node.lineno, inp=inp)
            continue
        terms[fmt] = t
        seq = FL.flatten(t)
        segs, cur, seps = [], [], []
        for it in seq:
            if isinstance(it, Lit) and it.s in ("-", "/"):
                segs.append(cur)
                seps.append(it.s)
                cur = []
            else:
                cur.append(it)
        segs.append(cur)
        ctx.instance("R-DATE-SKELETON", key=fmt, sample=f"{fmt}: {len(segs)} segments, separators {seps}")
        if len(segs) != 3 or seps != [sep, sep]:
            ctx.violation("R-DATE-SKELETON", f_pre.relpath, f_pre.short, "skeleton",
                          "a date is not three parts joined by the format's own separator", f_pre.node.lineno, inp=inp,
                          detail=f"separators {seps}, {len(segs)} parts: {FL.show(t)[:160]}")
            continue
        for tok, seg in zip(toks, segs):
            st = FL.cat(*seg)
            key = (tok, st)
            if key not in lang_cache:
                try:
                    lang_cache[key] = FL.language(st)
                except FL.Unbounded as e:
                    lang_cache[key] = None
            lang = lang_cache[key]
            wantl = token_language(tok)
            ctx.instance("R-DATE-TOKENS", key=(fmt, tok), sample=f"{fmt}: part {tok} |L|={len(lang) if lang is not None else 'inf'}")
            if lang != wantl:
                extra = sorted((lang or set()) - wantl)[:6]
                missing = sorted(wantl - (lang or set()))[:6]
                ctx.violation("R-DATE-TOKENS", f_pre.relpath, f_pre.short, f"date_to_pre[{tok!r}]",
                              f"part `{tok}` does not denote its documented values (in the format's order)",
                              f_pre.node.lineno, inp=f"{tok} in {fmt}",
                              detail=f"wrongly accepted {extra}; wrongly rejected {missing}")
    ctx.floor("R-DATE-TOKENS", ctx.rule_counts.get("R-DATE-TOKENS", 0), 100, "format parts")

    # ---------------- selection
    def strip_b(t):
        lead, core, trail = FL.strip_looks(t)
        return lead, FL.cat(*core) if len(core) != 1 else core[0], trail

    def alts(t):
        return list(t.items) if isinstance(t, Alt) else [t]

    cases = [("None", [None], want), ("default", [], want), ("one str", ["dd/mm/yyyy"], ["dd/mm/yyyy"]),
             ("list of two", [["d/m/yy", "mm-dd-yyyy"]], ["d/m/yy", "mm-dd-yyyy"]),
             ("list of one", [["yyyy-mm-dd"]], ["yyyy-mm-dd"]),
             # the same layout with both separators, NOT next to each other (grouping by layout must not lose one), and the
             # same format twice
             ("interleaved layouts", [["dd/mm/yyyy", "mm/dd/yyyy", "dd-mm-yyyy"]], ["dd/mm/yyyy", "mm/dd/yyyy", "dd-mm-yyyy"]),
             ("interleaved layouts (4)", [["d/m/yy", "yy/m/d", "d-m-yy", "yy-m-d"]], ["d/m/yy", "yy/m/d", "d-m-yy", "yy-m-d"]),
             ("year twins apart", [["dd/mm/yy", "mm/dd/yyyy", "dd/mm/yyyy"]], ["dd/mm/yy", "mm/dd/yyyy", "dd/mm/yyyy"])]
    for label, args, sel in cases:
        for ext in (False, True):
            k, t = FL.build(model, "Date", list(args) + ([ext] if args else []), {} if args else {"is_extensible": ext})
            inp = f"Date({label}, is_extensible={ext})"
            ctx.instance("R-DATE-SELECT", key=inp, sample=f"{inp}: {k}")
            if k != "term":
                ctx.violation("R-DATE-SELECT", f_init.relpath, f_init.short, "<selection>", f"{inp} raises {t.name}",
                              f_init.node.lineno, inp=inp)
                continue
            lead, core, trail = FL.strip_looks(t)
            if isinstance(t, Alt):
                lead, trail, core_t = [], [], t
            else:
                core_t = FL.cat(*core) if len(core) != 1 else core[0]
            has_b = lead == [Bnd("b")] and trail == [Bnd("b")]
            if ext and (lead or trail):
                ctx.violation("R-DATE-SELECT", f_init.relpath, f_init.short, "enclosure",
                              "an extensible Date still carries word boundaries", f_init.node.lineno, inp=inp)
            if not ext and not has_b:
                ctx.violation("R-DATE-SELECT", f_init.relpath, f_init.short, "enclosure",
                              "a non-extensible Date is not enclosed in word boundaries", f_init.node.lineno, inp=inp)
            canon = lambda x: FL.show(FL.cat(*FL.flatten(x))) if x is not None else None
            got = [canon(x) for x in alts(core_t)]
            exp = [canon(terms.get(s)) for s in sel]
            if label in ("None", "default"):
                same = sorted(got) == sorted(x for x in exp if x is not None)
            else:
                same = got == exp
            if not same:
                ctx.violation("R-DATE-SELECT", f_init.relpath, f_init.short, "<selection>",
                              "Date does not alternate exactly the selected formats", f_init.node.lineno, inp=inp,
                              detail=f"{len(got)} alternatives for {len(sel)} selected formats")
    for label, args in [("unknown format", ["dd.mm.yyyy"]), ("upper case", ["DD/MM/YYYY"]), ("list with a bad one", [["dd/mm/yyyy", "x"]]),
                        ("empty string", [""])]:
        k, t = FL.build(model, "Date", args)
        inp = f"Date({label})"
        ctx.instance("R-DATE-SELECT", key=inp, sample=f"{inp}: {k} {getattr(t, 'name', '')}")
        if not (k == "raise" and t.name == "InvalidArgumentValueException"):
            ctx.violation("R-DATE-SELECT", f_init.relpath, f_init.short, "format validation",
                          "an undocumented format must raise InvalidArgumentValueException", f_init.node.lineno, inp=inp,
                          detail=f"{k} {getattr(t, 'name', '')}")

    # formats handed over in other container FORMS (one-shot iterators, generators, sets ...): either refused with the
    # documented exception or selecting exactly those formats - never silently something else (an iterator consumed by
    # a validation pass leaves nothing for the building pass)
    sel2 = ["dd/mm/yyyy", "yyyy-m-d"]
    for label, mkarg in [("iterator", lambda: iter(list(sel2))), ("generator", lambda: (f_ for f_ in sel2)), ("map", lambda: map(str, sel2)),
                         ("reversed", lambda: reversed(sel2[::-1])), ("dict keys", lambda: dict.fromkeys(sel2).keys()),
                         ("one-element iterator", lambda: iter(["d/m/yy"])), ("empty iterator", lambda: iter([]))]:
        for ext in (False, True):
            k, t = FL.build(model, "Date", [mkarg(), ext])
            inp = f"Date({label}, is_extensible={ext})"
            ctx.instance("R-DATE-SELECT", key=inp, sample=f"{inp}: {k} {getattr(t, 'name', '')}")
            if k == "raise":
                if t.name not in ("InvalidArgumentValueException", "InvalidArgumentTypeException", "NotEnoughArgumentsException"):
                    ctx.violation("R-DATE-SELECT", f_init.relpath, f_init.short, "<selection>", f"{inp} raises {t.name}", f_init.node.lineno, inp=inp)
                continue
            want_sel = {"one-element iterator": ["d/m/yy"], "empty iterator": []}.get(label, sel2)
            lead, core, trail = FL.strip_looks(t)
            core_t = t if isinstance(t, Alt) else (FL.cat(*core) if len(core) != 1 else core[0])
            canon = lambda x: FL.show(FL.cat(*FL.flatten(x))) if x is not None else None
            got = [canon(x) for x in alts(core_t)]
            exp = [canon(terms.get(s_)) for s_ in want_sel]
            if sorted(got) != sorted(x for x in exp if x is not None) or not want_sel:
                ctx.violation("R-DATE-SELECT", f_init.relpath, f_init.short, "<selection>",
                              "formats handed over as a one-shot iterable are accepted but the pattern does not alternate exactly them",
                              f_init.node.lineno, inp=inp, detail=f"{len(got)} alternatives ({FL.show(t)[:60]!r}) for {len(want_sel)} formats")

    # ---------------- R-E2E: the text emitted by the real core builders denotes the composed term
    from . import e2e
    cfgs = [("Date", [["dd/mm/yyyy"]]), ("Date", ["d-m-yy"]), ("Date", [["mm/dd/yyyy", "yyyy-m-d", "d/m/yy"], True]), ("Date", [["yy/mm/dd", "dd-mm-yyyy", "yy/mm/d"]])]
    if ctx.tier == "thorough":
        cfgs += [("Date", []), ("Date", [None, True])]
    ctx.parallel(cfgs, lambda c, cfg: e2e.compare(c, model, "R-E2E", *cfg), min_items=2)
    ctx.floor("R-E2E", ctx.rule_counts.get("R-E2E", 0), len(cfgs), "end-to-end comparisons")

    # ---------------- R-PROCESS: the same configurations in one long-lived process, backwards and forwards
    pcfgs = cfgs + [("Date", [[f]]) for f in ("d/m/yyyy", "yyyy-mm-dd", "dd/mm/yyyy")] + \
        [("Date", [f]) for f in ("DD/MM/YYYY", "dd/mm/yyyy ", " d-m-yy", "Yyyy-mm-dd", "dd/mm/yyyy", "d-m-yy", "yyyy-mm-dd")]   # near misses of valid formats stay invalid
    e2e.process_order(ctx, model, "R-PROCESS", pcfgs)
    ctx.floor("R-PROCESS", ctx.rule_counts.get("R-PROCESS", 0), len(pcfgs), "configurations replayed in one process")

