"""C07 - class union, subtraction and negation are exact set algebra.

R-SETALG     `|` and `-` (functions __or / __sub with their nested interval worklists reduce_ranges,
             reduce_chars, subtract_ranges and steps 2.a-2.d) are walked by the abstract interpreter on
             EVERY pair of classes over a small contiguous alphabet (all subsets, every spelling of
             2-member runs as range or as chars, both polarities); the text handed to the class pipeline
             must denote exactly the union / difference; `-` raises EmptyClassException iff nothing is left
R-INVERT     `~` toggles the polarity marker and nothing else (adversarial bodies that begin / end with
             escaped brackets, carets and backslashes); ~~A == A
R-ALG-GUARD  dispatch and exceptions: polarity mix, non-class operands, one-character strings and tokens
             as singletons (regular classes only), Any absorbs, x - Any, Any - x, global word classes
"""
from __future__ import annotations

import itertools
import re

from ..absdom import PregexHooks, make_operand, pattern_of
from ..classsets import merge, named_classes, of_chars, denotes
from ..interp import FuncRef, Interp, Obj, PyRaise
from ..model import AnalysisError, norm_text
from .c06 import set_of_text, tables

CLS = "pregex.core.classes"


def canonical_verbose(members, neg, W, two_as_range=False):
    """Verbose text of a member set the way the pipeline spells it: runs >= 3 as ranges, runs of two as
    two characters (or as a range when two_as_range), members escaped with the writer table W."""
    cps = sorted(ord(c) for c in members)
    runs = []
    for c in cps:
        if runs and c == runs[-1][1] + 1:
            runs[-1][1] = c
        else:
            runs.append([c, c])
    esc = lambda ch: ("\\" + ch) if ch in W else ch
    parts = []
    for a, b in runs:
        if a == b:
            parts.append(esc(chr(a)))
        elif b == a + 1 and not two_as_range:
            parts.append(esc(chr(a)))
            parts.append(esc(chr(b)))
        else:
            parts.append(f"{esc(chr(a))}-{esc(chr(b))}")
    return f"[{'^' if neg else ''}{''.join(parts)}]"


class AlgHooks(PregexHooks):
    """Records what the algebra hands to __Class.__init__ (text, polarity, simplify flag); the constructor and the
    class pipeline behind it (__process ...) are then interpreted as well."""

    def __init__(self, model, W):
        super().__init__(model)
        self.base_init = model.method(CLS, "__Class", "__init__")
        self.W = W
        self.handed = []

    def intercept(self, interp, target, args, kwargs, node):
        if target is self.base_init:
            names = ["self", "pattern", "is_negated", "simplify_word"]
            b = dict(zip(names, args))
            b.update(kwargs)
            self.handed.append((b.get("pattern"), b.get("is_negated"), b.get("simplify_word", False)))
            return NotImplemented
        return super().intercept(interp, target, args, kwargs, node)


def _tval(model, name):
    from ..absdom import tval
    return tval(model, name)


def _cf(model):
    from ..absdom import class_fields
    return class_fields(model)


def class_obj(model, verbose, neg, cname=None, extra=None):
    ci = model.cls(CLS, cname or ("AnyButFrom" if neg else "AnyFrom"))
    o = make_operand(model, verbose, "Class", True, cls=ci, tag=f"{ci.name}:{verbose}")
    from ..absdom import class_fields, flag_field
    f_neg, f_verb = class_fields(model)
    o.fields[f_neg] = neg
    o.fields[f_verb] = verbose
    for k_, v_ in (extra or {}).items():
        o.fields[flag_field(model, ci.name, k_) if not k_.startswith("_") else k_] = v_
    return o


def apply(model, W, op, left, right):
    """left/right: thunks building operands; op: '|', '-', '~' -> (kind, payload, hooks)"""
    import ast
    hooks = AlgHooks(model, W)
    it = Interp(model, hooks, fuel=60_000)
    try:
        l = left()
        if op == "~":
            m = l.cls.find_method("__invert__")
            v = it.call(FuncRef(m, l, True), [])
        else:
            r = right()
            v = it.binop(ast.BitOr() if op == "|" else ast.Sub(), l, r, None)
    except PyRaise as e:
        return "raise", e, hooks
    return "ok", v, hooks


def forms(alphabet, W, neg):
    """Every non-empty subset of the alphabet in every verbose spelling: [(frozenset, text)]"""
    out = []
    for k in range(1, 2 ** len(alphabet)):
        members = frozenset(alphabet[i] for i in range(len(alphabet)) if k >> i & 1)
        t1 = canonical_verbose(members, neg, W, False)
        t2 = canonical_verbose(members, neg, W, True)
        out.append((members, t1))
        if t2 != t1:
            out.append((members, t2))
    return out


def run(ctx, model):
    ctx.explanation = __doc__.strip().replace("\n", " ")
    ctx.assumptions += [
        "completeness of R-SETALG is for operands whose members lie in a 5-6 character contiguous alphabet (all subsets, all "
        "spellings): the algorithms touch members only through comparisons and ord()+-1, so behaviour depends on the order type of "
        "the endpoints; operands with more intervals than fit in the alphabet are not covered (loops are not proved)",
        "not decided: __process (pipeline after the constructor), re-parsing of class bodies beyond the reader, independence from the "
        "hash seed of the worklist order (C20 lists the set-order flows; every enumeration order of the interpreter is the source order)",
    ]
    ctx.exhaustive = False
    W, (e1, b1), _, rp = tables(model)
    f_or = model.method(CLS, "__Class", "__or")
    f_sub = model.method(CLS, "__Class", "__sub")
    f_inv = model.method(CLS, "__Class", "__invert__")
    alphabets = ["abcde", "\\]^_"] if ctx.tier == "quick" else ["abcdef", "[\\]^_`"]
    n_alg = 0
    jobs = []
    # iteration order of the interpreted sets (stands for the hash seed): source order, reversed, sorted, reverse-sorted
    orders = (0, 10) if ctx.tier == "quick" else (0, 1, 2, 3, 10, 11, 12, 13)
    ctx.extra["set_iteration_orders"] = list(orders)
    for alpha in alphabets:
        fs = {False: forms(alpha, W, False), True: forms(alpha, W, True)}
        for neg in (False, True):
            lst = fs[neg]
            pairs = list(itertools.product(lst, lst))
            if neg and ctx.tier == "quick":
                pairs = pairs[::7]
            for (ma, ta), (mb, tb) in pairs:
                for op in ("|", "-"):
                    for order in orders:
                        jobs.append((alpha, neg, "".join(sorted(ma)), ta, "".join(sorted(mb)), tb, op, order))
    # the hyphen neighbourhood: ranges that start / end at '-' and single characters next to them
    hy = "+,-." if ctx.tier == "quick" else "+,-./"
    for neg in (False, True):
        lst = forms(hy, W, neg)
        pairs = list(itertools.product(lst, lst))
        if neg and ctx.tier == "quick":
            pairs = pairs[::5]
        for (ma, ta), (mb, tb) in pairs:
            for op in ("|", "-"):
                for order in orders[:2]:
                    jobs.append((hy, neg, "".join(sorted(ma)), ta, "".join(sorted(mb)), tb, op, order))
    # the two ends of the code-point space: `chr(ord(c) - 1)` / `chr(ord(c) + 1)` only exist inside it, so an algorithm that
    # computes a neighbour it does not need fails (ValueError) exactly on operands touching U+0000 / U+10FFFF
    for edge in ("\x00\x01\x02\x03", "\U0010fffc\U0010fffd\U0010fffe\U0010ffff"):
        for neg in (False, True):
            lst = forms(edge, W, neg)
            pairs = list(itertools.product(lst, lst))
            if ctx.tier == "quick":
                pairs = pairs[::3] if not neg else pairs[::11]
            for (ma, ta), (mb, tb) in pairs:
                for op in ("|", "-"):
                    jobs.append((edge, neg, "".join(sorted(ma)), ta, "".join(sorted(mb)), tb, op, orders[0]))
    # wide operands: one interval against two or three disjoint intervals over a nine-character alphabet, so that a
    # single operation merges / splits several intervals at once; every worklist order matters here
    wide = "abcdefghi"
    n = len(wide)
    ivs = [(a, b) for a in range(n) for b in range(a + 1, n)]
    two = [(x, y) for x in ivs for y in ivs if x[1] + 1 < y[0]]
    three = [(x, y, z) for x in ivs for y in ivs for z in ivs if x[1] + 1 < y[0] and y[1] + 1 < z[0]]
    singles = [(a, b) for a, b in ivs if b - a >= 2]
    import zlib
    worders = (1, 11) if ctx.tier == "quick" else (0, 1, 2, 3, 10, 11, 12, 13)
    mem = lambda parts: frozenset(wide[i] for a, b in parts for i in range(a, b + 1))
    for A in singles:
        for Bs in two + three:
            if ctx.tier == "quick" and zlib.crc32(repr((A, Bs)).encode()) % 3:
                continue
            ma, mb = mem([A]), mem(Bs)
            ta, tb = canonical_verbose(ma, False, W, True), canonical_verbose(mb, False, W, True)
            for l_, lt, r_, rt in ((ma, ta, mb, tb), (mb, tb, ma, ta)):
                for op in ("|", "-"):
                    for order in (worders if op == "|" else worders[:1]):
                        if op == "-" and l_ is mb and ctx.tier == "quick":
                            continue
                        jobs.append((wide, False, "".join(sorted(l_)), lt, "".join(sorted(r_)), rt, op, order))
    jobs += digit_chain_jobs(W) + sub_chain_jobs(W)
    results = _parallel(ctx, model, sorted(W), jobs)
    report_non_confluence(ctx, model, "R-SETALG", jobs, results)

    def judge(ctx, item):
        (alpha, neg, ma, ta, mb, tb, op, order), (kind, payload) = item
        ma, mb = frozenset(ma), frozenset(mb)
        f = f_or if op == "|" else f_sub
        want = (ma | mb) if op == "|" else (ma - mb)
        inp = f"{ta} {op} {tb} [set order {order}]"
        if not inp.isprintable():
            inp = inp.encode("unicode_escape").decode("ascii")
        ctx.instance("R-SETALG", key=inp, sample=f"{inp} -> {payload!r}")
        if kind == "incomplete":
            if "fuel exhausted" in payload:
                ctx.violation("R-SETALG", f.relpath, f.short, "termination",
                              f"class {'union' if op == '|' else 'subtraction'} does not terminate within the step budget "
                              "(the interval worklist loops forever)", f.node.lineno, inp=_shape(ma, mb, alpha, op), detail=f"{inp}: {payload}")
                return 1
            raise AnalysisError(f"R-SETALG: {inp}: {payload}")
        if not want:
            if not (kind == "raise" and payload[0] == "EmptyClassException"):
                ctx.violation("R-SETALG", f.relpath, f.short, "emptiness", "A - B must raise EmptyClassException exactly when nothing is left",
                              f.node.lineno, inp=_shape(ma, mb, alpha, op), detail=f"{inp}: got {payload!r}")
            return 1
        if kind == "raise":
            ctx.violation("R-SETALG", f.relpath, f.short, payload[1] or "<raise>",
                          f"class {'union' if op == '|' else 'subtraction'} fails with {payload[0]}", f.node.lineno,
                          inp=_shape(ma, mb, alpha, op), detail=inp)
            return 1
        text, rneg, pattern, verbose, fneg = payload
        want_iv = of_chars(want)
        problems = []
        for what, t in (("text handed to the class pipeline", text), ("emitted pattern", pattern), ("stored verbose text", verbose)):
            okd, why = denotes(t, want_iv, neg, 0) if isinstance(t, str) else (False, f"{what} is {t!r}")
            if not okd:
                problems.append(f"{what}: {why}")
        if rneg != neg or fneg != neg:
            problems.append(f"polarity flags {rneg}/{fneg}, expected {neg}")
        if problems:
            ctx.violation("R-SETALG", f.relpath, f.short, "result set",
                          f"class {'union' if op == '|' else 'subtraction'} is not exact set algebra", f.node.lineno,
                          inp=_shape(ma, mb, alpha, op),
                          detail=f"{inp}: required {sorted(want)}{' negated' if neg else ''}; " + "; ".join(problems))

        return 1
    n_alg = sum(ctx.parallel(list(zip(jobs, results)), judge))
    ctx.floor("R-SETALG", n_alg, 1500, "operand pairs")

    # ---------------- R-INVERT
    inv_alpha = "\\]^[a-"
    n_inv = 0
    for neg in (False, True):
        for members, text in forms("[\\]^_`", W, neg) + forms("a\\", W, neg) + forms("-.^", W, neg) + [(frozenset("ab"), canonical_verbose("ab", neg, W))]:
            kind, v, hooks = apply(model, W, "~", lambda: class_obj(model, text, neg), None)
            n_inv += 1
            inp = f"~{text}"
            ctx.instance("R-INVERT", key=inp, sample=f"{inp} -> {hooks.handed[-1] if hooks.handed else getattr(v, 'name', v)!r}")
            if kind == "raise":
                ctx.violation("R-INVERT", f_inv.relpath, f_inv.short, "<raise>", f"negation raises {v.name}", f_inv.node.lineno, inp=inp)
                continue
            t2, n2, _ = hooks.handed[-1]
            d = set_of_text(t2)
            got = {chr(c) for a, z in d[0] for c in range(a, z + 1)} if d else None
            if d is None or got != set(members) or d[1] != (not neg) or n2 != (not neg):
                ctx.violation("R-INVERT", f_inv.relpath, f_inv.short, "negation rewrite",
                              "~ must toggle the negation marker and leave the member list untouched", f_inv.node.lineno,
                              inp=_inv_shape(text), detail=f"{inp}: pipeline receives {t2!r} (flag {n2}); members must stay {sorted(members)}")
                continue
            # ~~A == A
            kind2, v2, hooks2 = apply(model, W, "~", lambda: class_obj(model, v.fields[_cf(model)[1]], not neg), None)
            if kind2 == "ok":
                d2 = set_of_text(hooks2.handed[-1][0])
                g2 = {chr(c) for a, z in d2[0] for c in range(a, z + 1)} if d2 else None
                if g2 != set(members) or d2[1] != neg:
                    ctx.violation("R-INVERT", f_inv.relpath, f_inv.short, "double negation", "~~A is not A", f_inv.node.lineno, inp=_inv_shape(text))
    ctx.floor("R-INVERT", n_inv, 100, "negation cases")

    # ---------------- R-ALG-GUARD
    _guards(ctx, model, W)


def _eval_chunk(args):
    root, W, chunk = args
    import warnings
    warnings.simplefilter("ignore")
    from ..model import Model
    from ..interp import Incomplete
    model = _MODELS.get(root)
    if model is None:
        model = _MODELS[root] = Model(root)
    out = []
    from .. import interp as _interp
    for alpha, neg, ma, ta, mb, tb, op, order in chunk:
        _interp.SET_ORDER = order
        try:
            kind, v, hooks = apply(model, set(W), op, lambda: class_obj(model, ta, neg), lambda: class_obj(model, tb, neg))
        except Incomplete as e:
            out.append(("incomplete", str(e)))
            continue
        finally:
            _interp.SET_ORDER = 0
        if kind == "raise":
            out.append(("raise", (v.name, norm_text(v.node) if v.node is not None else None)))
        elif hooks.handed and isinstance(v, Obj):
            out.append(("ok", (hooks.handed[-1][0], hooks.handed[-1][1], pattern_of(v), v.fields.get(_cf(model)[1]),
                               v.fields.get(_cf(model)[0]))))
        else:
            out.append(("raise", ("<no class constructed>", None)))
    return out


_MODELS = {}


def _parallel(ctx, model, W, jobs):
    n = max(1, min(ctx.jobs, 16))
    if n == 1 or len(jobs) < 400:
        _MODELS[model.root] = model
        return _eval_chunk((model.root, W, jobs))
    import concurrent.futures as cf
    size = max(50, len(jobs) // (n * 4))
    chunks = [jobs[i:i + size] for i in range(0, len(jobs), size)]
    out = []
    with cf.ProcessPoolExecutor(max_workers=n) as ex:
        for r in ex.map(_eval_chunk, [(model.root, W, c) for c in chunks]):
            out.extend(r)
    return out


def _shape(ma, mb, alpha, op):
    """Order-type key of a failing pair: positions within the alphabet (stable across alphabets of equal size)."""
    pa = "".join(str(alpha.index(c)) for c in sorted(ma, key=alpha.index))
    pb = "".join(str(alpha.index(c)) for c in sorted(mb, key=alpha.index))
    edge = " @U+0000" if alpha[:1] == "\x00" else " @U+10FFFF" if alpha[-1:] == "\U0010ffff" else ""   # the ends of the code-point space are not an order type
    return f"{{{pa}}} {op} {{{pb}}}{edge}"


def _inv_shape(text):
    body = text[1:-1].lstrip("^")
    return f"body starts with {body[:2]!r}, ends with {body[-2:]!r}"


def _guards(ctx, model, W):
    import ast
    U, S = "CannotBeUnionedException", "CannotBeSubtractedException"
    reg = lambda: class_obj(model, "[ac]", False)
    neg = lambda: class_obj(model, "[^ac]", True)
    any_ = lambda: class_obj(model, ".", False, "Any")
    wg = lambda: class_obj(model, "[A-Za-z0-9_]", False, "AnyWordChar", {"is_global": True})
    wl = lambda: class_obj(model, "[A-Za-z0-9_]", False, "AnyWordChar", {"is_global": False})
    nwg = lambda: class_obj(model, "[^A-Za-z0-9_]", True, "AnyButWordChar", {"is_global": True})
    tok = lambda: make_operand(model, "x", "Token", True, tag="token x")
    other = lambda: make_operand(model, "xy", "Other", True, tag="pattern xy")
    f_or = model.method(CLS, "__Class", "__or__")
    f_sub = model.method(CLS, "__Class", "__sub__")
    rows = [
        # (label, op, left, right, expectation)
        ("regular | negated", "|", reg, neg, ("raise", U)), ("negated | regular", "|", neg, reg, ("raise", U)),
        ("regular - negated", "-", reg, neg, ("raise", S)), ("negated - regular", "-", neg, reg, ("raise", S)),
        ("regular | 'xy'", "|", reg, lambda: "xy", ("raise", U)), ("regular | 5", "|", reg, lambda: 5, ("raise", U)),
        ("regular | pattern", "|", reg, other, ("raise", U)), ("regular - 'xy'", "-", reg, lambda: "xy", ("raise", S)),
        ("regular - pattern", "-", reg, other, ("raise", S)), ("regular - None", "-", reg, lambda: None, ("raise", S)),
        ("negated | 'x'", "|", neg, lambda: "x", ("raise", U)), ("negated - 'x'", "-", neg, lambda: "x", ("raise", S)),
        ("negated | token", "|", neg, tok, ("raise", U)),
        ("regular | 'x'", "|", reg, lambda: "x", ("set", "acx", False)), ("'x' | regular", "|", lambda: "x", reg, ("set", "acx", False)),
        ("regular | token", "|", reg, tok, ("set", "acx", False)), ("token | regular", "|", tok, reg, ("set", "acx", False)),
        ("regular - 'a'", "-", reg, lambda: "a", ("set", "c", False)), ("regular - 'x'", "-", reg, lambda: "x", ("set", "ac", False)),
        ("'a' - regular", "-", lambda: "a", reg, ("raise", "EmptyClassException")), ("'x' - regular", "-", lambda: "x", reg, ("set", "x", False)),
        ("Any | regular", "|", any_, reg, ("any",)), ("regular | Any", "|", reg, any_, ("any",)),
        ("regular - Any", "-", reg, any_, ("raise", "EmptyClassException")), ("Any - Any", "-", any_, any_, ("raise", "EmptyClassException")),
        ("Any - regular", "-", any_, reg, ("set", "ac", True)),
        ("global word - regular", "-", wg, reg, ("raise", "GlobalWordCharSubtractionException")),
        ("global non-word - negated", "-", nwg, neg, ("raise", "GlobalWordCharSubtractionException")),
        ("~Any", "~", any_, None, ("raise", "CannotBeNegatedException")),
        ("~global word", "~", wg, None, ("cls", "AnyButWordChar", True)), ("~local word", "~", wl, None, ("cls", "AnyButWordChar", False)),
        ("~global non-word", "~", nwg, None, ("cls", "AnyWordChar", True)),
    ]
    # every metacharacter as a one-character string AND as a token (a Pregex wrapping that one character, i.e. its
    # regex-escaped text), on either side of the union and as subtrahend: the operand denotes exactly that character
    from .c01 import escape_of
    # (token form only for characters whose regex-escaped text is also valid text inside a class; `Pregex('.')`,
    #  `Pregex('(')` ... are not tokens in the documented sense - "a class defined within pregex.core.tokens" - and the
    #  pinned constructors read their text `\.` as the range from backslash to '.': outside the documented domain, noted in DESIGN.md)
    for c in "^-]\\[/$.|(+":
        t_c = (lambda c=c: make_operand(model, escape_of(model, c), "Token", True, tag=f"token {c!r}"))
        s_c = (lambda c=c: c)
        for form, mk in ((("token", t_c),) if c in "^-]\\[/$" else ()) + (("str", s_c),):
            rows.append((f"regular | {form} {c!r}", "|", reg, mk, ("set", "ac" + c, False)))
            rows.append((f"{form} {c!r} | regular", "|", mk, reg, ("set", "ac" + c, False)))
            rows.append((f"regular - {form} {c!r}", "-", reg, mk, ("set", "ac", False)))
            rows.append((f"{form} {c!r} - regular", "-", mk, reg, ("set", c, False)))
    for label, op, l, r, exp in rows:
        kind, v, hooks = apply(model, W, op, l, r)
        f = f_or if op == "|" else f_sub
        ctx.instance("R-ALG-GUARD", key=label, sample=f"{label}: {kind} {getattr(v, 'name', '') or (hooks.handed[-1] if hooks.handed else v)!r}")
        ok, why = True, ""
        if exp[0] == "raise":
            ok = kind == "raise" and v.name == exp[1]
            why = f"expected {exp[1]}, got {kind} {getattr(v, 'name', v)!r}"
        elif kind == "raise":
            ok, why = False, f"unexpected {v.name}"
        elif exp[0] in ("set", "cls") and not hooks.handed:
            ok, why = False, f"no class was constructed (result {v!r})"
        elif exp[0] == "set":
            text, rneg, _ = hooks.handed[-1]
            d = set_of_text(text)
            got = {chr(c) for a, z in d[0] for c in range(a, z + 1)} if d else None
            ok = got == set(exp[1]) and rneg == exp[2] and d[1] == exp[2]
            why = f"pipeline receives {text!r} negated={rneg}; required {sorted(exp[1])} negated={exp[2]}"
        elif exp[0] == "any":
            ok = isinstance(v, Obj) and v.cls.name == "Any"
            why = f"expected Any, got {v!r}"
        elif exp[0] == "cls":
            ok = isinstance(v, Obj) and v.cls.name == exp[1] and bool(hooks.handed[-1][2]) == exp[2]
            why = f"expected {exp[1]}(is_global={exp[2]}), got {v!r} simplify={hooks.handed[-1][2] if hooks.handed else None}"
        if not ok:
            where = v.where if kind == "raise" and getattr(v, "where", None) else f
            ctx.violation("R-ALG-GUARD", where.relpath, where.short, label, f"class algebra dispatch: {label}", where.node.lineno, detail=why)
    # global word flag survives a union
    kind, v, hooks = apply(model, W, "|", wg, reg)
    ctx.instance("R-ALG-GUARD", key="global | regular", sample=f"global word | regular: simplify_word={hooks.handed[-1][2] if hooks.handed else None}")
    if kind != "ok" or not hooks.handed[-1][2]:
        ctx.violation("R-ALG-GUARD", f_or.relpath, f_or.short, "global | regular", "the is_global setting of a word class is lost in a union", f_or.node.lineno)
    ctx.floor("R-ALG-GUARD", len(rows), 30, "dispatch rows")


def digit_chain_jobs(W):
    """Unions over the digits whose result is exactly 0-9, under eight iteration orders: a union that is merged
    completely is rewritten to the shorthand \\d, which is NOT equivalent to [0-9] (it also matches non-ASCII decimal
    digits) - so whether a chain of ranges is merged completely must not depend on the order in which the worklist
    meets them."""
    jobs = []
    digits = "0123456789"
    dmem = lambda parts: frozenset(digits[i] for a, b in parts for i in range(a, b + 1))
    divs = [(a, b) for a in range(10) for b in range(a + 1, 10)]
    for Bs in [(x, y) for x in divs for y in divs if x[0] == 0 and y[1] == 9 and x[1] + 2 <= y[0] - 1]:
        gaps = [(Bs[i][1] + 1, Bs[i + 1][0] - 1) for i in range(len(Bs) - 1)]
        ma, mb = dmem(Bs), dmem(gaps)
        ta, tb = canonical_verbose(ma, False, W, True), canonical_verbose(mb, False, W, True)
        for l_, lt, r_, rt in ((ma, ta, mb, tb), (mb, tb, ma, ta)):
            for order in (0, 1, 2, 3, 10, 11, 12, 13):
                jobs.append((digits, False, "".join(sorted(l_)), lt, "".join(sorted(r_)), rt, "|", order))
    return jobs


def sub_chain_jobs(W):
    """Subtractions in which the minuend lists SEVERAL single characters that fall inside one range of the subtrahend
    (and some that do not), under eight iteration orders: a worklist that removes elements from the list it is
    iterating over skips whichever character the set order put next to a removed one."""
    jobs = []
    alpha = "abcdefghij"
    singles = ["aceg", "bdfh", "acj", "behj", "abij", "cfi"]
    rngs = [[(0, 7)], [(1, 6)], [(0, 3), (5, 8)], [(2, 9)]]
    for ms in singles:
        for parts in rngs:
            ma = frozenset(ms)
            mb = frozenset(alpha[i] for a, b in parts for i in range(a, b + 1))
            if not (ma - mb):
                continue
            ta, tb = canonical_verbose(ma, False, W, True), canonical_verbose(mb, False, W, True)
            for order in (0, 1, 2, 3, 10, 11, 12, 13):
                jobs.append((alpha, False, "".join(sorted(ma)), ta, "".join(sorted(mb)), tb, "-", order))
    return jobs


def pattern_structure(pattern):
    """(negated, maximal intervals, shorthand categories) of a class pattern - equal structures are equivalent over all
    of Unicode; a shorthand versus explicit ranges is a different structure."""
    import re._parser as _sp
    try:
        tree = _sp.parse(pattern)
    except re.error:
        return ("unparsable", pattern)
    items = list(tree)
    if len(items) == 1 and items[0][0] == _sp.IN:
        items = list(items[0][1])
    neg_, iv, cats = False, [], set()
    for op_, av in items:
        if op_ == _sp.NEGATE:
            neg_ = True
        elif op_ == _sp.LITERAL:
            iv.append((av, av))
        elif op_ == _sp.NOT_LITERAL:
            neg_ = True
            iv.append((av, av))
        elif op_ == _sp.RANGE:
            iv.append(tuple(av))
        elif op_ == _sp.CATEGORY:
            cats.add(str(av))
        else:
            return ("other", pattern)
    return (neg_, tuple(merge(iv)), tuple(sorted(cats)))


def report_non_confluence(ctx, model, rule, jobs, results):
    """The pattern emitted for one class expression has the same structure under every iteration order."""
    f_or = model.method(CLS, "__Class", "__or")
    f_sub = model.method(CLS, "__Class", "__sub")
    groups_ = {}
    for job, (kind, payload) in zip(jobs, results):
        if kind == "ok":
            groups_.setdefault(job[:7], []).append((job[7], payload[2]))
    n = 0
    for key, lst in sorted(groups_.items()):
        forms_ = {}
        for order, pattern in lst:
            if isinstance(pattern, str):
                forms_.setdefault(pattern_structure(pattern), []).append((order, pattern))
        if len(lst) > 1:
            n += 1
        if len(forms_) > 1:
            alpha, neg, ma, ta, mb, tb, op = key
            f = f_or if op == "|" else f_sub
            shown = "; ".join(f"set order {v[0][0]}: {v[0][1]!r}" for v in list(forms_.values())[:3])
            ctx.violation(rule, f.relpath, f.short, "confluence of the interval worklist",
                          "the pattern emitted for one class expression depends on the iteration order of a set (hash seed): the variants are "
                          "not the same class text and - where a shorthand is involved - not equivalent", f.node.lineno,
                          inp=f"{ta} {op} {tb}", detail=shown)
    return n


def confluence_rule(ctx, model, rule):
    """Stand-alone form (used by C20): the digit-chain unions under eight iteration orders."""
    W = tables(model)[0]
    jobs = digit_chain_jobs(W) + sub_chain_jobs(W)
    results = _parallel(ctx, model, sorted(W), jobs)
    for job, (kind, payload) in zip(jobs, results):
        ctx.instance(rule, key=("confluence", job[3], job[5], job[6], job[7]),
                     sample=f"{job[3]} {job[6]} {job[5]} [set order {job[7]}] -> {payload[2] if kind == 'ok' else payload!r}" if job[7] == 0 else None)
    return report_non_confluence(ctx, model, rule, jobs, results)
