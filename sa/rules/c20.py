"""C20 - Pregex objects are immutable values; results do not depend on history.

Ownership / effect rules over the whole package (pure syntax + a small type inference):

R-WRITEONCE  attribute stores only as `self.<field> = ...` inside __init__ (plus the compiled cache, C11)
R-NOSHARED   class-level / module-level tables are never mutated; no global/nonlocal; no mutable defaults
R-NOARGMUT   no function mutates a parameter, unless every call site passes a fresh object
R-SETORDER   the iteration order of a set reaches emitted text only through order-insensitive sinks
R-NOHIDDEN   no hash()/id()/environment/clock/random input anywhere in the package
R-RETALIAS   (informational) the builders that return an operand itself are listed in the evidence
"""
from __future__ import annotations

from ..absdom import pattern_of

import ast
import warnings

from ..model import AnalysisError, Model, mangle, norm_text, FuncInfo

MUTATORS = {"append", "add", "update", "pop", "remove", "clear", "sort", "extend", "insert", "setdefault",
            "discard", "popitem", "reverse", "__setitem__", "__delitem__", "difference_update",
            "intersection_update", "symmetric_difference_update"}
CACHE_WRITERS = {"compile", "get_compiled_pattern"}
CACHE_FIELD = ["_Pregex__compiled"]      # replaced at run time by absdom.cache_field(model) (located by role)
FRESH_CALLS = {"list", "set", "dict", "tuple", "sorted", "frozenset"}
HIDDEN_CALLS = {"hash", "id", "input", "setattr", "delattr", "vars", "globals", "locals", "exec", "eval", "__import__"}   # getattr is an attribute read
HIDDEN_MODULES = {"os", "sys", "time", "random", "datetime", "uuid", "secrets", "threading", "functools", "weakref"}


# ---------------------------------------------------------------------------
def scan_writes(tree, modname, relpath, parents):
    """-> list of (kind, func name, class name, node, ok, reason)"""
    out = []
    for node in ast.walk(tree):
        tgt = None
        if isinstance(node, ast.Attribute) and isinstance(node.ctx, (ast.Store, ast.Del)):
            tgt = node
        elif isinstance(node, ast.Call) and isinstance(node.func, ast.Name) and node.func.id in ("setattr", "delattr"):
            out.append(("setattr", _fn(node, parents), _cl(node, parents), node, False, "setattr()/delattr() call"))
            continue
        elif isinstance(node, ast.Attribute) and node.attr in ("__dict__", "__setattr__", "__delattr__", "__slots__"):
            out.append(("dict", _fn(node, parents), _cl(node, parents), node, False, f"access to {node.attr}"))
            continue
        elif isinstance(node, ast.Call) and isinstance(node.func, ast.Attribute) and node.func.attr == "__init__":
            # re-initialisation: an explicit __init__ call is construction only inside a constructor (super().__init__(...),
            # Base.__init__(self, ...)); anywhere else it rewrites an existing - possibly shared - object
            fnode = _fnode(node, parents)
            inside_ctor = fnode is not None and fnode.name in ("__init__", "__new__", "__post_init__", "__init_subclass__") \
                and _direct_function(node, parents) is fnode
            out.append(("reinit", _fn(node, parents), _cl(node, parents), node, inside_ctor,
                        "" if inside_ctor else f"`{norm_text(node)[:60]}` re-initialises an existing object outside a constructor"))
            continue
        if tgt is None:
            continue
        fn = _fn(tgt, parents)
        cl = _cl(tgt, parents)
        fnode = _fnode(tgt, parents)
        ok, reason = False, ""
        if fnode is None:
            reason = "attribute store outside any function"
        else:
            first = fnode.args.args[0].arg if fnode.args.args else None
            direct = _direct_function(tgt, parents) is fnode
            if _lazy_constant(tgt, fnode, parents):
                ok, reason = True, "lazily initialised class-level CONSTANT (guarded by `is None`, value independent of every argument, immutable)"
            elif not (isinstance(tgt.value, ast.Name) and tgt.value.id == first and first == "self"):
                reason = f"store to an attribute of `{norm_text(tgt.value)}` (not the instance under construction)"
            elif not direct:
                reason = "attribute store inside a nested function / lambda"
            elif fnode.name == "__init__":
                ok = True
            elif cl == "Pregex" and fnode.name in CACHE_WRITERS and mangle(tgt.attr, cl) == CACHE_FIELD[0]:
                ok, reason = True, "compiled cache (C11 R-CACHE)"
            else:
                reason = f"field `{tgt.attr}` written in `{fnode.name}` after construction"
        out.append(("store", fn, cl, tgt, ok, reason))
    return out


def _lazy_constant(tgt, fnode, parents):
    """`if C.attr is None: C.attr = <expr>` with C the class itself (`__class__`, `cls`, the class name), the store being a
    direct statement of that `if`, and <expr> reading no parameter, no local and not the instance: the first caller
    computes what every later caller would compute, so no call history can change a result.  The value must not be a
    mutable container display (it would be shared by reference)."""
    st = parents.get(tgt)
    if not (isinstance(st, ast.Assign) and len(st.targets) == 1 and st.targets[0] is tgt):
        return False
    guard = parents.get(st)
    if not (isinstance(guard, ast.If) and st in guard.body and not guard.orelse):
        return False
    t = guard.test
    if not (isinstance(t, ast.Compare) and len(t.ops) == 1 and isinstance(t.ops[0], ast.Is) and
            isinstance(t.comparators[0], ast.Constant) and t.comparators[0].value is None and
            ast.dump(t.left) == ast.dump(ast.Attribute(value=tgt.value, attr=tgt.attr, ctx=ast.Load()))):
        return False
    recv = tgt.value
    cls_node = parents.get(fnode) if isinstance(parents.get(fnode), ast.ClassDef) else None
    first = fnode.args.args[0].arg if fnode.args.args else None
    decos = {ast.unparse(d).split(".")[-1] for d in fnode.decorator_list}
    is_class = isinstance(recv, ast.Name) and (recv.id == "__class__" or (cls_node is not None and recv.id == cls_node.name) or
                                                (recv.id == first and first == "cls" and "classmethod" in decos))
    if not is_class:
        return False
    a = fnode.args
    params = {x.arg for x in a.posonlyargs + a.args + a.kwonlyargs} | ({a.vararg.arg} if a.vararg else set()) | ({a.kwarg.arg} if a.kwarg else set())
    local = {n.id for n in ast.walk(fnode) if isinstance(n, ast.Name) and isinstance(n.ctx, ast.Store)}
    if _mutable_expr(st.value):
        return False
    for n in ast.walk(st.value):
        if isinstance(n, ast.Name) and (n.id in params or n.id in local) and not (n.id == "cls" and first == "cls"):
            return False
        if isinstance(n, (ast.Lambda, ast.Yield, ast.YieldFrom, ast.Await, ast.NamedExpr)):
            return False
    return True


def _mutable_expr(e):
    if isinstance(e, (ast.List, ast.Dict, ast.Set, ast.ListComp, ast.DictComp, ast.SetComp)):
        return True
    if isinstance(e, ast.Call):
        if isinstance(e.func, ast.Name) and e.func.id in ("list", "dict", "set", "bytearray", "sorted"):
            return True
        if isinstance(e.func, ast.Attribute) and e.func.attr in ("split", "rsplit", "splitlines", "copy", "findall", "partition") \
                and e.func.attr != "partition":
            return True
    return False


def _elements_mutable(e):
    """Does the table expression hold mutable containers as its ELEMENTS (values of a dict, items of a list / tuple)?"""
    if isinstance(e, ast.Dict):
        return any(_mutable_expr(v) for v in e.values)
    if isinstance(e, ast.DictComp):
        return _mutable_expr(e.value)
    if isinstance(e, (ast.List, ast.Tuple, ast.Set)):
        return any(_mutable_expr(v) for v in e.elts)
    if isinstance(e, (ast.ListComp, ast.GeneratorExp)):
        return _mutable_expr(e.elt)
    if isinstance(e, ast.Call) and isinstance(e.func, ast.Name) and e.func.id in ("dict", "list", "tuple") and e.args:
        return _elements_mutable(e.args[0])
    return False


def scan_escaping_refs(m, parents):
    """A function that RETURNS an element of a class-level / module-level table by reference, when those elements are
    mutable containers: any caller that updates the result in place updates the table for the rest of the process
    (history dependence through an alias, invisible to the direct-mutation rule)."""
    out = []
    tables = {}          # (class name | None, mangled name) -> True
    for name, expr in m.assigns.items():
        if _elements_mutable(expr):
            tables[(None, name)] = True
    for ci in m.classes.values():
        for name, expr in ci.attrs.items():
            if _elements_mutable(expr):
                tables[(ci.name, name)] = True
    if not tables:
        return out

    def table_of(base, cl):
        if isinstance(base, ast.Attribute) and isinstance(base.value, ast.Name):
            owner = base.value.id
            for (c, n) in tables:
                if c is not None and n == mangle(base.attr, c) and (owner in ("__class__", "self", "cls") and c == cl or owner == c):
                    return f"{c}.{base.attr}"
        if isinstance(base, ast.Name) and (None, base.id) in tables:
            return base.id
        return None

    def element_ref(v, cl):
        if isinstance(v, ast.Subscript):
            return table_of(v.value, cl)
        if isinstance(v, ast.Call) and isinstance(v.func, ast.Attribute) and v.func.attr in ("get", "setdefault", "pop", "__getitem__"):
            return table_of(v.func.value, cl)
        return None
    for fn in ast.walk(m.tree):
        if not isinstance(fn, ast.FunctionDef):
            continue
        cl = _cl(fn, parents)
        aliases = {}
        for n in ast.walk(fn):
            if isinstance(n, ast.Assign) and len(n.targets) == 1 and isinstance(n.targets[0], ast.Name):
                t = element_ref(n.value, cl)
                if t:
                    aliases[n.targets[0].id] = t
            elif isinstance(n, ast.NamedExpr) and isinstance(n.target, ast.Name):
                t = element_ref(n.value, cl)
                if t:
                    aliases[n.target.id] = t
        for n in ast.walk(fn):
            if isinstance(n, ast.Return) and n.value is not None and _direct_function(n, parents) is fn:
                vals = [n.value] + ([n.value.body, n.value.orelse] if isinstance(n.value, ast.IfExp) else [])
                for v in vals:
                    t = element_ref(v, cl) or (aliases.get(v.id) if isinstance(v, ast.Name) else None)
                    if t:
                        out.append((n, f"`{fn.name}` returns an element of the shared table `{t}` (a mutable container) by reference"))
    return out


def _fnode(node, parents):
    p = parents.get(node)
    while p is not None and not isinstance(p, ast.FunctionDef):
        p = parents.get(p)
    # outermost? no: nearest def; nested defs are reported by _direct_function
    while p is not None:
        q = parents.get(p)
        while q is not None and not isinstance(q, (ast.FunctionDef, ast.ClassDef)):
            q = parents.get(q)
        if isinstance(q, ast.FunctionDef):
            p = q
        else:
            break
    return p


def _direct_function(node, parents):
    p = parents.get(node)
    while p is not None and not isinstance(p, (ast.FunctionDef, ast.Lambda)):
        p = parents.get(p)
    return p


def _fn(node, parents):
    names = []
    p = parents.get(node)
    while p is not None:
        if isinstance(p, (ast.FunctionDef, ast.ClassDef)):
            names.append(p.name)
        p = parents.get(p)
    return ".".join(reversed(names)) or "<module>"


def _cl(node, parents):
    p = parents.get(node)
    while p is not None and not isinstance(p, ast.ClassDef):
        p = parents.get(p)
    return p.name if p is not None else None


def _parents(tree):
    par = {}
    for a in ast.walk(tree):
        for c in ast.iter_child_nodes(a):
            par[c] = a
    return par


# ---------------------------------------------------------------------------
def scan_shared(tree, parents, class_attrs, module_names):
    """Mutation of class-level / module-level state, global/nonlocal, mutable defaults."""
    out = []
    for node in ast.walk(tree):
        if isinstance(node, (ast.Global, ast.Nonlocal)):
            out.append((node, f"`{norm_text(node)}` statement"))
        if isinstance(node, (ast.FunctionDef, ast.Lambda)):
            for d in list(node.args.defaults) + [d for d in node.args.kw_defaults if d is not None]:
                if isinstance(d, (ast.List, ast.Dict, ast.Set, ast.ListComp, ast.DictComp, ast.SetComp)) or \
                        (isinstance(d, ast.Call) and isinstance(d.func, ast.Name) and d.func.id in ("list", "dict", "set")):
                    out.append((d, f"mutable default argument `{norm_text(d)}`"))
        recv = None
        what = None
        if isinstance(node, ast.Call) and isinstance(node.func, ast.Attribute) and node.func.attr in MUTATORS:
            recv, what = node.func.value, f".{node.func.attr}()"
        elif isinstance(node, ast.Subscript) and isinstance(node.ctx, (ast.Store, ast.Del)):
            recv, what = node.value, "subscript store"
        elif isinstance(node, ast.AugAssign):
            recv, what = node.target, "augmented assignment"
            if isinstance(recv, ast.Name):
                recv = None   # rebinding a local is fine (strings / ints / fresh objects); shared names handled below
                if isinstance(node.target, ast.Name) and _is_shared_name(node.target, parents, module_names):
                    out.append((node, f"augmented assignment to module-level `{node.target.id}`"))
        if recv is None:
            continue
        base = recv
        while isinstance(base, ast.Subscript):
            base = base.value
        cl = _cl(node, parents)
        if isinstance(base, ast.Attribute):
            owner = base.value
            nm = mangle(base.attr, cl)
            if isinstance(owner, ast.Name) and owner.id in ("__class__", "self", "cls") or \
                    (isinstance(owner, ast.Name) and owner.id in class_attrs):
                if nm in class_attrs.get(cl, set()) or any(nm in s for s in class_attrs.values()):
                    if _exact_memo(tree, parents, node, base):
                        continue
                    out.append((node, f"{what} on class-level table `{norm_text(base)}`"))
                elif isinstance(owner, ast.Name) and owner.id == "self":
                    fnode = _direct_function(node, parents)
                    if not (isinstance(fnode, ast.FunctionDef) and fnode.name == "__init__"):
                        out.append((node, f"{what} on instance state `{norm_text(base)}` after construction"))
        elif isinstance(base, ast.Name) and _is_shared_name(base, parents, module_names):
            if _exact_memo(tree, parents, node, base):
                continue
            if base.id in _wo(tree, parents):
                continue          # write-only instrumentation: never read by the library, cannot reach a result
            out.append((node, f"{what} on module-level `{base.id}`"))
    return out


_WO_CACHE = {}


def _wo(tree, parents):
    k = id(tree)
    if k not in _WO_CACHE:
        _WO_CACHE[k] = write_only_names(tree, parents) if isinstance(tree, ast.Module) else set()
    return _WO_CACHE[k]


DEFERRED_MEMOS = []      # (node, function name, table text): memo-shaped stores with a computed key, judged by R-HISTORY
WRITE_ONLY_TABLES = []   # (module tree id, name): instrumentation the library writes but never reads


def write_only_names(tree, parents):
    """Module-level names bound to a fresh container / counter that the library only WRITES: every occurrence is the
    definition, the target of a subscript store / augmented assignment (`T[k] += 1`, `T[k] = v`) or the receiver of
    `.update(...)` / `.append(...)` / `.add(...)` used as a statement.  Such a table cannot influence any result."""
    cands = {}
    for st in tree.body:
        tgt = None
        if isinstance(st, ast.Assign) and len(st.targets) == 1 and isinstance(st.targets[0], ast.Name):
            tgt, val = st.targets[0].id, st.value
        elif isinstance(st, ast.AnnAssign) and isinstance(st.target, ast.Name) and st.value is not None:
            tgt, val = st.target.id, st.value
        if tgt is None:
            continue
        fresh = isinstance(val, (ast.Dict, ast.List, ast.Set)) or \
            (isinstance(val, ast.Call) and ast.unparse(val.func).split(".")[-1] in ("dict", "list", "set", "Counter", "defaultdict", "OrderedDict", "deque"))
        if fresh:
            cands[tgt] = st
    out = set()
    for name, defn in cands.items():
        ok = True
        for n in ast.walk(tree):
            if not (isinstance(n, ast.Name) and n.id == name):
                continue
            p = parents.get(n)
            if p is defn or (isinstance(p, (ast.Assign, ast.AnnAssign)) and parents.get(p) is tree and isinstance(n.ctx, ast.Store)):
                continue
            # T[k] ...   as store / augmented-assignment target
            if isinstance(p, ast.Subscript) and p.value is n:
                pp = parents.get(p)
                if isinstance(p.ctx, (ast.Store, ast.Del)) or (isinstance(pp, ast.AugAssign) and pp.target is p):
                    continue
            # T.update(...) / T.append(...) as a statement
            if isinstance(p, ast.Attribute) and p.value is n and p.attr in ("update", "append", "add", "extend", "subtract", "setdefault"):
                call = parents.get(p)
                if isinstance(call, ast.Call) and call.func is p and isinstance(parents.get(call), ast.Expr):
                    continue
            # T.get(k, 0) / T[k] read INSIDE the value of a store into the same table (`T[k] = T.get(k, 0) + n`)
            st = p
            while st is not None and not isinstance(st, ast.stmt):
                st = parents.get(st)
            if isinstance(st, (ast.Assign, ast.AugAssign)):
                tg = st.targets if isinstance(st, ast.Assign) else [st.target]
                if all(isinstance(t, ast.Subscript) and isinstance(t.value, ast.Name) and t.value.id == name for t in tg):
                    continue
            ok = False
            break
        if ok:
            out.add(name)
    return out


def _table_uses_confined(tree, parents, table, fn):
    want = ast.dump(table)
    for n in ast.walk(tree):
        if isinstance(n, (ast.Attribute, ast.Name)) and ast.dump(n) == want and n is not table:
            if _direct_function(n, parents) is not fn:
                par = parents.get(n)
                if not (isinstance(par, (ast.Assign, ast.AnnAssign)) and _direct_function(par, parents) is None):
                    return False
    return True


def _memo_store_parts(node, table, parents):
    """(key expr, value expr) of a store into `table`: T[k] = v  /  T.setdefault(k, v); else None."""
    if isinstance(node, ast.Subscript) and isinstance(node.ctx, ast.Store) and node.value is table:
        st = parents.get(node)
        if isinstance(st, ast.Assign) and len(st.targets) == 1:
            return node.slice, st.value
    if isinstance(node, ast.Call) and isinstance(node.func, ast.Attribute) and node.func.attr == "setdefault" \
            and node.func.value is table and len(node.args) == 2:
        return node.args[0], node.args[1]
    return None


def _exact_memo(tree, parents, node, table):
    """Is this mutation of a shared table part of a memo that cannot change any result?
    exact   - (a) in a function without self / cls the key is exactly the function's parameters, or (b) the stored value
              is g(K) for a library function g and the key is that very argument (list) K; the value is not a mutable
              container; the table is used in this one function only.  Evictions (clear / pop / popitem / del) of a table
              all of whose stores are exact are fine as well.
    deferred- memo-shaped, but the key is COMPUTED from the arguments without string transformations (len, arithmetic,
              indexing): not decidable here; recorded for R-HISTORY, which accepts it only if the memoising function is
              exercised by the history script and every result equals that of a fresh process.
    Returns True when the mutation needs no report here."""
    fn = _direct_function(node, parents)
    if not isinstance(fn, ast.FunctionDef) or not _table_uses_confined(tree, parents, table, fn):
        return False
    stores = []
    for n in ast.walk(fn):
        base = n.value if isinstance(n, ast.Subscript) else (n.func.value if isinstance(n, ast.Call) and isinstance(n.func, ast.Attribute) else None)
        if base is not None and ast.dump(base) == ast.dump(table):
            parts = _memo_store_parts(n, base, parents)
            if parts is not None:
                stores.append((n, parts))
    if not stores:
        return False
    cls_node = parents.get(fn) if isinstance(parents.get(fn), ast.ClassDef) else None
    verdicts = [_memo_verdict(fn, k, v, cls_node) for _, (k, v) in stores]
    if any(v == "no" for v in verdicts):
        return False
    is_store = any(n is node for n, _ in stores)
    is_evict = isinstance(node, ast.Call) and isinstance(node.func, ast.Attribute) and node.func.attr in ("clear", "pop", "popitem")
    if not (is_store or is_evict):
        return False
    if any(v == "deferred" for v in verdicts):
        DEFERRED_MEMOS.append((node, fn.name, ast.unparse(table)))
    return True


def _reads_receiver(fn, call, cls_node):
    """Does `self.m(K)` / `cls.m(K)` inside fn hand the receiver to m (so that the result may depend on more than K)?"""
    f = call.func
    first = fn.args.args[0].arg if fn.args.args else None
    if not (isinstance(f, ast.Attribute) and isinstance(f.value, ast.Name) and f.value.id == first and first in ("self", "cls")):
        return False
    if cls_node is None:
        return True
    from ..model import mangle
    for d in cls_node.body:
        if isinstance(d, ast.FunctionDef) and d.name in (f.attr, mangle(f.attr, cls_node.name)):
            decos = {ast.unparse(x).split(".")[-1] for x in d.decorator_list}
            return "staticmethod" not in decos
    return True


def _memo_verdict(fn, key, value, cls_node=None):
    params = [a.arg for a in fn.args.posonlyargs + fn.args.args + fn.args.kwonlyargs]
    rebound = {n.id for n in ast.walk(fn) if isinstance(n, ast.Name) and isinstance(n.ctx, ast.Store)}

    def resolve(e, depth=0):      # a local bound exactly once stands for its value
        if isinstance(e, ast.Name) and e.id not in params and depth < 3:
            binds = [a.value for a in ast.walk(fn) if isinstance(a, ast.Assign) and len(a.targets) == 1 and
                     isinstance(a.targets[0], ast.Name) and a.targets[0].id == e.id]
            if len(binds) == 1:
                return resolve(binds[0], depth + 1)
            if len(binds) >= 2:       # v = T.get(k); if v is None: v = g(k)   (the same g(k) possibly on several branches)
                calls = [b for b in binds if not (isinstance(b, ast.Call) and isinstance(b.func, ast.Attribute) and b.func.attr == "get")]
                if calls and len({ast.dump(c) for c in calls}) == 1:
                    return resolve(calls[0], depth + 1)
        return e
    key, value = resolve(key), resolve(value)
    if _mutable_expr(value):
        return "no"
    key_parts = list(key.elts) if isinstance(key, ast.Tuple) else [key]
    simple = lambda e: isinstance(e, ast.Name) or (isinstance(e, ast.Attribute) and simple(e.value))
    # (a) key = exactly the parameters of a self-less function
    if params and params[0] not in ("self", "cls") and not fn.args.vararg and not fn.args.kwarg and \
            all(isinstance(e, ast.Name) for e in key_parts) and sorted(e.id for e in key_parts) == sorted(params) and \
            not (set(params) & rebound):
        return "exact"
    # (b) value = g(K) with the key being exactly that argument list
    if isinstance(value, ast.Call) and not value.keywords and all(simple(e) for e in key_parts) and \
            not _reads_receiver(fn, value, cls_node) and \
            [ast.dump(x) for x in value.args] == [ast.dump(x) for x in key_parts] and \
            not any(isinstance(e, ast.Name) and e.id in rebound and e.id not in params for e in key_parts):
        return "exact"
    # computed key: string transformations lose information by nature
    for n in ast.walk(key):
        if isinstance(n, ast.Call) and isinstance(n.func, ast.Attribute):
            return "no"
        if isinstance(n, ast.Call) and isinstance(n.func, ast.Name) and n.func.id not in ("len", "tuple", "int", "abs", "min", "max", "range"):
            return "no"
        if isinstance(n, (ast.JoinedStr, ast.Subscript)) and isinstance(n, ast.JoinedStr):
            return "no"
    names = {n.id for n in ast.walk(key) if isinstance(n, ast.Name)} - {"len", "tuple", "int", "abs", "min", "max", "range"}
    if names and params and params[0] not in ("self", "cls") and names <= set(params) and not (names & rebound):
        return "deferred"
    return "no"


def _is_shared_name(name_node, parents, module_names):
    if name_node.id not in module_names:
        return False
    # shadowed by a local binding?
    f = _direct_function(name_node, parents)
    while f is not None:
        for n in ast.walk(f):
            if isinstance(n, ast.Name) and n.id == name_node.id and isinstance(n.ctx, ast.Store):
                return False
            if isinstance(n, ast.arg) and n.arg == name_node.id:
                return False
        f = _direct_function(f, parents)
    return True


# ---------------------------------------------------------------------------
def param_mutations(fnode, parents):
    """{param name: [nodes]} for parameters mutated in place (not rebound before)."""
    params = [a.arg for a in fnode.args.posonlyargs + fnode.args.args + fnode.args.kwonlyargs]
    if fnode.args.vararg:
        params.append(fnode.args.vararg.arg)
    if fnode.args.kwarg:
        params.append(fnode.args.kwarg.arg)
    rebound_at = {}
    aliases = {}
    for n in ast.walk(fnode):
        if _direct_function(n, parents) is not fnode and n is not fnode:
            continue
        if isinstance(n, ast.Name) and isinstance(n.ctx, ast.Store) and n.id in params:
            st = n
            while st is not None and not isinstance(st, ast.stmt):
                st = parents.get(st)
            # only an unconditional rebinding at the top level of the body makes the name a fresh local
            if st is not None and parents.get(st) is fnode and isinstance(st, (ast.Assign, ast.AnnAssign)):
                rebound_at[n.id] = min(rebound_at.get(n.id, 10 ** 9), n.lineno)
        if isinstance(n, ast.Assign) and isinstance(n.value, ast.Name) and n.value.id in params:
            for t in n.targets:
                if isinstance(t, ast.Name):
                    aliases[t.id] = n.value.id
    out = {}
    for n in ast.walk(fnode):
        if _direct_function(n, parents) is not fnode:
            continue
        recv = None
        if isinstance(n, ast.Call) and isinstance(n.func, ast.Attribute) and n.func.attr in MUTATORS:
            recv = n.func.value
        elif isinstance(n, ast.Subscript) and isinstance(n.ctx, (ast.Store, ast.Del)):
            recv = n.value
        elif isinstance(n, ast.AugAssign) and isinstance(n.target, ast.Name):
            # x += [...] mutates lists in place
            recv = n.target if isinstance(n.value, (ast.List, ast.ListComp)) else None
        if recv is None:
            continue
        while isinstance(recv, ast.Subscript):
            recv = recv.value
        if isinstance(recv, ast.Name):
            nm = aliases.get(recv.id, recv.id)
            if nm in params and n.lineno < rebound_at.get(nm, 10 ** 9) + (0 if nm == recv.id else 10 ** 9):
                out.setdefault(nm, []).append(n)
            elif nm in params and nm == recv.id and n.lineno <= rebound_at.get(nm, 10 ** 9):
                out.setdefault(nm, []).append(n)
    return out, params


def is_fresh(expr):
    if isinstance(expr, (ast.List, ast.Dict, ast.Set, ast.ListComp, ast.DictComp, ast.SetComp, ast.GeneratorExp,
                         ast.Tuple, ast.Constant, ast.JoinedStr)):
        return True
    if isinstance(expr, ast.Call):
        if isinstance(expr.func, ast.Name) and expr.func.id in FRESH_CALLS:
            return True
        if isinstance(expr.func, ast.Attribute) and expr.func.attr in ("union", "difference", "copy", "split", "rsplit",
                                                                      "intersection", "keys", "values", "items"):
            return True
    return False


def _local_fresh(g: FuncInfo, arg):
    """`arg` is a local variable of the calling function (not one of its parameters) every binding of which is a
    freshly built container: the callee then mutates the caller's own scratch object, not shared or argument state."""
    if not isinstance(arg, ast.Name):
        return False
    a = g.node.args
    if arg.id in [p.arg for p in a.posonlyargs + a.args + a.kwonlyargs] or (a.vararg and a.vararg.arg == arg.id) \
            or (a.kwarg and a.kwarg.arg == arg.id):
        # a parameter NAME that the function rebinds unconditionally (a statement of its own body, before this use) is a
        # local from then on: `chars: list[str] = list(...)` followed by `helper(chars)`
        def binds_it(st):
            tg = st.targets if isinstance(st, ast.Assign) else [st.target] if isinstance(st, ast.AnnAssign) and st.value is not None else []
            return any(isinstance(t, ast.Name) and t.id == arg.id for t in tg)
        if not any(binds_it(st) and st.end_lineno < arg.lineno for st in g.node.body):
            return False
    values = []
    for n in ast.walk(g.node):
        if isinstance(n, ast.Assign):
            for t in n.targets:
                if isinstance(t, ast.Name) and t.id == arg.id:
                    values.append(n.value)
                elif isinstance(t, (ast.Tuple, ast.List)) and isinstance(n.value, (ast.Tuple, ast.List)) and len(t.elts) == len(n.value.elts) \
                        and all(isinstance(e, ast.Name) for e in t.elts) and not any(isinstance(e, ast.Starred) for e in n.value.elts):
                    values += [v for e, v in zip(t.elts, n.value.elts) if e.id == arg.id]      # ranges, chars = set(), set()
                elif any(isinstance(x, ast.Name) and x.id == arg.id and isinstance(x.ctx, ast.Store) for x in ast.walk(t)):
                    return False
        elif isinstance(n, ast.AnnAssign) and isinstance(n.target, ast.Name) and n.target.id == arg.id:
            if n.value is None:
                return False
            values.append(n.value)
        elif isinstance(n, (ast.For, ast.comprehension, ast.With, ast.NamedExpr, ast.AugAssign)):
            tgt = getattr(n, "target", None)
            if tgt is not None and any(isinstance(x, ast.Name) and x.id == arg.id for x in ast.walk(tgt)):
                return False
        elif isinstance(n, (ast.Global, ast.Nonlocal)) and arg.id in n.names:
            return False
    return bool(values) and all(is_fresh(v) for v in values)


# ---------------------------------------------------------------------------
# R-SETORDER
class SetFlow:
    """Flow-insensitive inference of set-typed names per function, with propagation into
    the parameters of locally defined / same-class helper functions."""

    def __init__(self, model: Model):
        self.model = model
        self.funcs = list(model.all_functions())
        self.by_name = {}
        for f in self.funcs:
            self.by_name.setdefault((f.module.name, f.node.name), []).append(f)
        self.set_vars = {f: set() for f in self.funcs}
        self.returns_set = {}
        for f in self.funcs:
            ann = f.node.returns
            self.returns_set[f] = self._ann_sets(ann)
        self._infer()

    @staticmethod
    def _ann_sets(ann):
        """None | 'set' | tuple of bools for tuple[...] annotations"""
        if ann is None:
            return None
        txt = ast.unparse(ann).replace("'", "")
        if txt.startswith("set"):
            return "set"
        if txt.startswith("tuple[") and "set[" in txt:
            inner = ann.slice.elts if isinstance(ann, ast.Subscript) and isinstance(ann.slice, ast.Tuple) else []
            return tuple(ast.unparse(e).startswith("set") for e in inner)
        return None

    def callee(self, f: FuncInfo, call: ast.Call):
        fn = call.func
        name = None
        if isinstance(fn, ast.Name):
            name = fn.id
        elif isinstance(fn, ast.Attribute) and isinstance(fn.value, ast.Name) and fn.value.id in ("__class__", "self"):
            name = fn.attr
        if name is None:
            return None
        c = self.by_name.get((f.module.name, name))
        return c[0] if c and len(c) == 1 else None

    def _record_set_fields(self):
        """Names of record fields (NamedTuple / dataclass) annotated as sets anywhere in the package."""
        if not hasattr(self, "_rsf"):
            self._rsf = set()
            for ci in self.model.all_classes():
                for st in ci.node.body:
                    if isinstance(st, ast.AnnAssign) and isinstance(st.target, ast.Name) and \
                            ast.unparse(st.annotation).replace("'", "").replace("_", "").lower().startswith(("set", "frozenset", "abstractset")):
                        if any(b.split(".")[-1] in ("NamedTuple",) for b in ci.external_bases()) or "dataclass" in " ".join(ci.decorators):
                            self._rsf.add(st.target.id)
        return self._rsf

    def is_set(self, f, expr):
        if isinstance(expr, (ast.Set, ast.SetComp)):
            return True
        if isinstance(expr, ast.Attribute) and expr.attr in self._record_set_fields() and not \
                (isinstance(expr.value, ast.Name) and expr.value.id in ("self", "cls", "__class__")):
            return True
        if isinstance(expr, ast.Name):
            if expr.id in self.set_vars[f] and self._rebound_to_nonset(f, expr):
                return False
            return expr.id in self.set_vars[f] or (f.outer is not None and self.is_set(f.outer, expr))
        if isinstance(expr, ast.Call):
            if isinstance(expr.func, ast.Name) and expr.func.id in ("set", "frozenset"):
                return True
            if isinstance(expr.func, ast.Attribute) and expr.func.attr in ("union", "difference", "intersection",
                                                                          "symmetric_difference", "copy") \
                    and self.is_set(f, expr.func.value):
                return True
            c = self.callee(f, expr)
            if c is not None and self.returns_set.get(c) == "set":
                return True
        if isinstance(expr, ast.BinOp) and isinstance(expr.op, (ast.BitOr, ast.Sub, ast.BitAnd)):
            return self.is_set(f, expr.left) and self.is_set(f, expr.right)
        if isinstance(expr, ast.IfExp):
            return self.is_set(f, expr.body) or self.is_set(f, expr.orelse)
        return False

    def _rebound_to_nonset(self, f, use):
        """The nearest binding of this name before the use is an unconditional statement of the function's own body whose
        value is not a set (`chars: list[str] = list(...)` rebinding a parameter annotated as a set): from there on the name
        is that list - the `list(set)` conversion itself is the order sink that gets classified, not every later use."""
        if not hasattr(use, "lineno"):
            return False
        binds = []
        for st in ast.walk(f.node):
            if isinstance(st, (ast.Assign, ast.AnnAssign, ast.AugAssign, ast.For, ast.NamedExpr, ast.comprehension, ast.With)):
                tg = st.targets if isinstance(st, ast.Assign) else [getattr(st, "target", None)] if not isinstance(st, ast.With) else \
                    [i.optional_vars for i in st.items]
                if any(t is not None and any(isinstance(x, ast.Name) and x.id == use.id for x in ast.walk(t)) for t in tg):
                    binds.append(st)
        prior = [b for b in binds if getattr(b, "end_lineno", 10 ** 9) < use.lineno]
        if not prior:
            return False
        last = max(prior, key=lambda b: b.lineno)
        if last not in f.node.body or not isinstance(last, (ast.Assign, ast.AnnAssign)) or last.value is None:
            return False
        if any(isinstance(b, (ast.For, ast.While)) and b.lineno <= use.lineno <= b.end_lineno and
               any(x is not last and x.lineno >= b.lineno and x.end_lineno <= b.end_lineno for x in binds) for b in ast.walk(f.node)):
            return False          # the use sits in a loop that rebinds the name again
        tg = last.targets if isinstance(last, ast.Assign) else [last.target]
        if not all(isinstance(t, ast.Name) for t in tg):
            return False
        return not self.is_set(f, last.value)

    def _infer(self):
        changed = True
        rounds = 0
        while changed and rounds < 12:
            changed = False
            rounds += 1
            for f in self.funcs:
                sv = self.set_vars[f]
                a = f.node.args
                for p in a.posonlyargs + a.args + a.kwonlyargs:
                    if p.annotation is not None and ast.unparse(p.annotation).replace("'", "").startswith("set") and p.arg not in sv:
                        sv.add(p.arg)
                        changed = True
                for n in ast.walk(f.node):
                    owner = self.model._owner_def(n, None) if not isinstance(n, ast.FunctionDef) else None
                    if isinstance(n, (ast.Assign, ast.AnnAssign)):
                        if self._own(f, n) is False:
                            continue
                        value = n.value
                        targets = n.targets if isinstance(n, ast.Assign) else [n.target]
                        if value is None:
                            continue
                        for t in targets:
                            if isinstance(t, ast.Name) and self.is_set(f, value) and t.id not in sv:
                                sv.add(t.id)
                                changed = True
                            if isinstance(t, ast.Tuple) and isinstance(value, ast.Call):
                                c = self.callee(f, value)
                                rs = self.returns_set.get(c) if c else None
                                if isinstance(rs, tuple):
                                    for te, isset in zip(t.elts, rs):
                                        if isset and isinstance(te, ast.Name) and te.id not in sv:
                                            sv.add(te.id)
                                            changed = True
                            if isinstance(t, ast.Tuple) and isinstance(value, ast.Tuple) and len(t.elts) == len(value.elts):
                                for te, ve in zip(t.elts, value.elts):
                                    if isinstance(te, ast.Name) and self.is_set(f, ve) and te.id not in sv:
                                        sv.add(te.id)
                                        changed = True
                    if isinstance(n, ast.Call):
                        if self._own(f, n) is False:
                            continue
                        c = self.callee(f, n)
                        if c is not None:
                            ps = [p.arg for p in c.node.args.posonlyargs + c.node.args.args]
                            if ps and ps[0] == "self":
                                ps = ps[1:]
                            for i, arg in enumerate(n.args):
                                if i < len(ps) and self.is_set(f, arg) and ps[i] not in self.set_vars[c]:
                                    # a later rebinding to a non-set in the callee does not remove the fact
                                    self.set_vars[c].add(ps[i])
                                    changed = True

    def _own(self, f, node):
        """True when `node` belongs to f's own body (not to a nested def)."""
        o = self.model._owner_def(node, None)
        return o is f.node


def order_sinks(model: Model, sf: SetFlow):
    """Every place where the iteration order of a set-typed value is observed.
    -> list of (FuncInfo, node, kind, classification, reason)"""
    out = []
    for f in sf.funcs:
        for n in ast.walk(f.node):
            if not sf._own(f, n) and not isinstance(n, ast.comprehension):
                continue
            if isinstance(n, ast.comprehension):
                if model._owner_def(n, None) is not f.node:
                    continue
            it = None
            kind = None
            if isinstance(n, ast.For) and sf.is_set(f, n.iter):
                it, kind = n.iter, "for"
            elif isinstance(n, ast.comprehension) and sf.is_set(f, n.iter):
                it, kind = n.iter, "comprehension"
            elif isinstance(n, ast.Call):
                if isinstance(n.func, ast.Attribute) and n.func.attr == "join" and n.args and sf.is_set(f, n.args[0]):
                    it, kind = n.args[0], "join"
                elif isinstance(n.func, ast.Name) and n.func.id in ("list", "tuple", "enumerate", "zip", "iter", "next", "map", "filter") \
                        and n.args and any(sf.is_set(f, a) for a in n.args):
                    it, kind = n.args[0], n.func.id
                elif isinstance(n.func, ast.Attribute) and n.func.attr == "pop" and not n.args and sf.is_set(f, n.func.value):
                    it, kind = n.func.value, "set.pop"
                else:
                    for a in n.args:
                        if isinstance(a, ast.Starred) and sf.is_set(f, a.value):
                            it, kind = a.value, "star-args"
            elif isinstance(n, ast.Assign) and isinstance(n.targets[0], (ast.Tuple, ast.List)) and sf.is_set(f, n.value):
                it, kind = n.value, "unpack"
            if it is None:
                continue
            if kind in ("enumerate", "zip", "iter", "reversed"):
                par = model.parents.get(n)
                if isinstance(par, ast.For) and par.iter is n:
                    n, kind = par, "for"          # `for i, x in enumerate(S)` is a loop over S
                elif isinstance(par, ast.comprehension) and par.iter is n:
                    n, kind = par, "comprehension"
            cls, reason = classify_sink(model, sf, f, n, kind)
            out.append((f, n, kind, cls, reason))
    return out


def _only_set_accumulation(stmts, loop_vars):
    """Loop body whose observable effects are insensitive to the iteration order: it only adds
    to sets, or assigns locals that are functions of the loop variable alone."""
    local = set()
    for st in stmts:
        if isinstance(st, ast.Assign):
            if all(isinstance(t, ast.Name) for t in st.targets) or all(isinstance(t, ast.Tuple) for t in st.targets):
                for t in st.targets:
                    for x in ast.walk(t):
                        if isinstance(x, ast.Name):
                            local.add(x.id)
                continue
            return False
        if isinstance(st, ast.Expr) and isinstance(st.value, ast.Call) and isinstance(st.value.func, ast.Attribute) \
                and st.value.func.attr in ("add", "update"):
            continue
        if isinstance(st, ast.If):
            if _only_set_accumulation(st.body, loop_vars) and _only_set_accumulation(st.orelse, loop_vars):
                continue
            return False
        if isinstance(st, (ast.Pass, ast.Continue)):
            continue
        return False
    return True


def classify_sink(model, sf: SetFlow, f: FuncInfo, n, kind):
    parents = model.parents
    # (a) set-building consumers
    if kind == "comprehension":
        comp = parents.get(n)
        if isinstance(comp, ast.SetComp):
            return "ok", "set comprehension: result is a set"
        if isinstance(comp, (ast.GeneratorExp, ast.ListComp)):
            p = parents.get(comp)
            if isinstance(p, ast.Call) and isinstance(p.func, ast.Name) and p.func.id in ("set", "frozenset", "sorted", "any", "all", "sum", "len", "min", "max"):
                return "ok", f"consumed by {p.func.id}(): order-insensitive"
            if _worklist_to_set(model, sf, f) or _local_worklist(model, f, n):
                return "ok", "list built from a set feeds a worklist whose result is turned back into sets (confluence assumed)"
        return "bad", "comprehension over a set produces an order-dependent sequence"
    if kind == "for":
        tgt_names = {x.id for x in ast.walk(n.target) if isinstance(x, ast.Name)}
        if _only_set_accumulation(n.body, tgt_names):
            return "ok", "loop body only accumulates into sets"
        if _is_escape_loop(n):
            return "ok", "rewrite loop of commuting single-character replacements (commutation decided by C01 R-ESC)"
        if _worklist_to_set(model, sf, f):
            return "ok", "loop inside a function that returns sets only (confluence assumed)"
        return "bad", "loop over a set with order-dependent body"
    if kind == "join":
        # member list of a character class: the join sits inside an f-string between '[' and ']'
        js = parents.get(n)
        while js is not None and not isinstance(js, (ast.JoinedStr, ast.stmt)):
            js = parents.get(js)
        if isinstance(js, ast.JoinedStr):
            consts = [v.value for v in js.values if isinstance(v, ast.Constant)]
            if consts and consts[0].startswith("[") and consts[-1].endswith("]"):
                return "ok", "member list of a character class [...]: re ignores member order"
            # f"{opening}{''.join(S)}]" with `opening = "[^" if negated else "["` bound once in the function
            first = js.values[0] if js.values else None
            if consts and consts[-1].endswith("]") and isinstance(first, ast.FormattedValue) and isinstance(first.value, ast.Name):
                binds = [a.value for a in ast.walk(f.node) if isinstance(a, ast.Assign) and
                         any(isinstance(t, ast.Name) and t.id == first.value.id for t in a.targets)]
                opens = lambda x: (isinstance(x, ast.Constant) and isinstance(x.value, str) and x.value.startswith("[")) or \
                    (isinstance(x, ast.IfExp) and opens(x.body) and opens(x.orelse))
                if len(binds) == 1 and opens(binds[0]):
                    return "ok", "member list of a character class (opening bracket bound to a local): re ignores member order"
        # the same template spelled as a concatenation: "[" + ... + "".join(S) + "]"  (first operand may be a
        # conditional expression between "[" and "[^")
        top = n
        while isinstance(parents.get(top), ast.BinOp) and isinstance(parents.get(top).op, ast.Add):
            top = parents.get(top)
        if top is not n:
            ops = []

            def flat(x):
                if isinstance(x, ast.BinOp) and isinstance(x.op, ast.Add):
                    flat(x.left)
                    flat(x.right)
                else:
                    ops.append(x)
            flat(top)
            def opens(x, depth=0):
                if isinstance(x, ast.Constant) and isinstance(x.value, str) and x.value.startswith("["):
                    return True
                if isinstance(x, ast.IfExp):
                    return opens(x.body, depth) and opens(x.orelse, depth)
                if isinstance(x, ast.Name) and depth == 0:        # a local bound once to such an opening
                    binds = [a.value for a in ast.walk(f.node) if isinstance(a, ast.Assign) and
                             any(isinstance(t, ast.Name) and t.id == x.id for t in a.targets)]
                    return len(binds) == 1 and opens(binds[0], 1)
                return False
            closes = lambda x: isinstance(x, ast.Constant) and isinstance(x.value, str) and x.value.endswith("]")
            if ops and opens(ops[0]) and closes(ops[-1]):
                return "ok", "member list of a character class '[' + ... + ']': re ignores member order"
        # the joined members are handed to a helper whose every return is such a template around that parameter
        par = parents.get(n)
        if isinstance(par, ast.Call) and n in par.args:
            g = sf.callee(f, par)
            if g is None and isinstance(par.func, ast.Attribute) and isinstance(par.func.value, ast.Name):
                tgt = f.module.imports.get(par.func.value.id)
                if tgt in model.modules:
                    g = model.modules[tgt].functions.get(par.func.attr)
            if g is not None:
                ps = [p for p in g.params if p != "self"]
                idx = par.args.index(n)
                if idx < len(ps) and _returns_bracket_template(g.node, ps[idx]):
                    return "ok", f"member list handed to `{g.node.name}`, which encloses it in '[' ... ']': re ignores member order"
        return "bad", "join of a set outside a character-class template"
    if kind in ("list", "tuple"):
        if _worklist_to_set(model, sf, f) or _local_worklist(model, f, n):
            return "ok", "list(set) feeds a worklist whose result is turned back into sets (confluence assumed)"
        p = parents.get(n)
        if isinstance(p, ast.Call) and sf.callee(f, p) is not None and _worklist_to_set(model, sf, sf.callee(f, p)):
            return "ok", "list(set) passed to a helper that returns sets only (confluence assumed)"
        return "bad", f"{kind}(set) fixes an arbitrary order"
    return "bad", f"{kind} observes the iteration order of a set"


def _returns_bracket_template(fnode, pname):
    """Every return of the function is '[' ... pname ... ']' (f-string or concatenation)."""
    rets = [r for r in ast.walk(fnode) if isinstance(r, ast.Return)]
    if not rets:
        return False
    for r in rets:
        v = r.value
        if isinstance(v, ast.JoinedStr):
            consts = [x.value for x in v.values if isinstance(x, ast.Constant)]
            uses = any(isinstance(x, ast.FormattedValue) and isinstance(x.value, ast.Name) and x.value.id == pname for x in v.values)
            if not (consts and consts[0].startswith("[") and consts[-1].endswith("]") and uses):
                return False
        elif isinstance(v, ast.BinOp) and isinstance(v.op, ast.Add):
            ops = []

            def flat(x):
                if isinstance(x, ast.BinOp) and isinstance(x.op, ast.Add):
                    flat(x.left)
                    flat(x.right)
                else:
                    ops.append(x)
            flat(v)
            opens = lambda x: (isinstance(x, ast.Constant) and isinstance(x.value, str) and x.value.startswith("[")) or \
                (isinstance(x, ast.IfExp) and opens(x.body) and opens(x.orelse))
            if not (ops and opens(ops[0]) and isinstance(ops[-1], ast.Constant) and str(ops[-1].value).endswith("]")
                    and any(isinstance(x, ast.Name) and x.id == pname for x in ops)):
                return False
        else:
            return False
    return True


def _local_worklist(model, f: FuncInfo, n):
    """`X = list(S)` / `X = [g(e) for e in S]` where the list X never escapes: every use of X is
    iteration, len(), indexing, an in-place worklist operation, or conversion back with set()."""
    parents = model.parents
    node = n if not isinstance(n, ast.comprehension) else parents.get(n)
    st = parents.get(node)
    if not (isinstance(st, (ast.Assign, ast.AnnAssign))):
        return False
    tgt = st.targets[0] if isinstance(st, ast.Assign) else st.target
    if not isinstance(tgt, ast.Name):
        return False
    x = tgt.id
    for u in ast.walk(f.node):
        if isinstance(u, ast.Name) and u.id == x and isinstance(u.ctx, ast.Load):
            p = parents.get(u)
            ok = False
            if isinstance(p, (ast.For, ast.comprehension)) and p.iter is u:
                ok = True
            elif isinstance(p, ast.Call) and isinstance(p.func, ast.Name) and p.func.id in ("len", "set", "range", "frozenset", "sorted"):
                ok = True
            elif isinstance(p, ast.Subscript) and p.value is u:
                ok = True
            elif isinstance(p, ast.Attribute) and p.attr in MUTATORS | {"index", "count"}:
                ok = True
            elif isinstance(p, ast.Compare):
                ok = True
            elif isinstance(p, ast.BinOp) and isinstance(p.op, ast.Add) and isinstance(parents.get(p), ast.Assign) \
                    and isinstance(parents.get(p).targets[0], ast.Name) and parents.get(p).targets[0].id == x:
                ok = True   # X = X + more
            if not ok:
                return False
    return True


def _is_escape_loop(n: ast.For):
    if len(n.body) != 1 or not isinstance(n.body[0], ast.Assign):
        return False
    st = n.body[0]
    v = st.value
    return isinstance(st.targets[0], ast.Name) and isinstance(v, ast.Call) and isinstance(v.func, ast.Attribute) \
        and v.func.attr == "replace" and isinstance(v.func.value, ast.Name) and v.func.value.id == st.targets[0].id


def _worklist_to_set(model, sf: SetFlow, f: FuncInfo):
    """f returns only set-typed values (or tuples of them): set in, set out."""
    rets = [r for r in ast.walk(f.node) if isinstance(r, ast.Return) and model._owner_def(r, None) is f.node]
    if not rets:
        return False
    for r in rets:
        v = r.value
        if v is None:
            return False
        elts = v.elts if isinstance(v, ast.Tuple) else [v]
        if isinstance(v, ast.Call) and not v.keywords and v.args and not (isinstance(v.func, ast.Name) and v.func.id == "set"):
            # a record of sets instead of a tuple of sets: `return _Members(ranges, chars)` with a NamedTuple / dataclass
            ci = model.resolve_class_expr(f.module, v.func)
            if ci is not None and len(ci.fields) == len(v.args):
                elts = list(v.args)
        for e in elts:
            if not (sf.is_set(f, e) or (isinstance(e, ast.Call) and isinstance(e.func, ast.Name) and e.func.id == "set")):
                return False
    return True


# ---------------------------------------------------------------------------
FIXTURE = '''
import os, time
_MEMO = {}
class P:
    table = {1: 2}
    def __init__(self):
        self.x = 1
    def build(self, other, items=[]):
        self.x = 2
        other.y = 3
        __class__.table[3] = 4
        _MEMO[self.x] = other
        items.append(1)
        global _MEMO
        return "|".join({"a", "b"}) + str(hash(other)) + os.environ.get("X", "") + str(len(_MEMO)) + str(time.time())
'''


HISTORY_ENTERED = {}


def _history(ctx, model):
    """One interpreter instance stands for one process: class-level and module-level objects are evaluated once and
    live on.  A script of constructions and operations is interpreted twice in the same instance, and in a second
    instance backwards and then forwards; every step must emit the same text each time, and the same text as in a
    fresh instance (no state survives a call)."""
    from ..interp import Interp, Hooks, PyRaise, Obj
    CL, QU, GR, OP, ASR = ("pregex.core.classes", "pregex.core.quantifiers", "pregex.core.groups", "pregex.core.operators",
                           "pregex.core.assertions")
    P = model.pregex
    K = lambda mod, name, *a: ("new", mod, name, a)
    script = [
        K(CL, "AnyDigit"), K(CL, "AnyLetter"), K(CL, "AnyWordChar"), K(CL, "AnyBetween", "0", "9"), K(CL, "AnyFrom", "a", "b", "c", "x"),
        ("op", "|", K(CL, "AnyDigit"), ":"), ("op", "|", K(CL, "AnyDigit"), "/"), ("op", "|", K(CL, "AnyLowercaseLetter"), "{"),
        ("op", "|", K(CL, "AnyUppercaseLetter"), "@"), ("op", "|", K(CL, "AnyLetter"), "["), ("op", "-", K(CL, "AnyLetter"), "m"),
        ("op", "|", K(CL, "AnyBetween", "a", "f"), K(CL, "AnyBetween", "g", "k")), ("op", "-", K(CL, "AnyWordChar"), K(CL, "AnyDigit")),
        ("inv", K(CL, "AnyFrom", "a", "]")), K(CL, "AnyPunctuation"), K(CL, "AnyWhitespace"),
        K(QU, "Optional", "ab"), K(QU, "AtLeastAtMost", "(ab)", 2, 10), K(QU, "Exactly", "[xyz]", 2), K(GR, "Capture", "ab", "nm"),
        K(GR, "Group", K(GR, "Capture", "ab"), True), K(OP, "Either", "a", "b|c", "d"), K(OP, "Concat", "a", "b|c"),
        K(ASR, "FollowedBy", "a", "b"), K(ASR, "NotPrecededBy", "a", "b"), ("pregex", "(ab)"), ("pregex", "\\d"), ("pregex", "a|b"),
    ]
    # the meta patterns over their whole small parameter domains (all 15 bases in both directions, bounds, formats)
    ESS = "pregex.meta.essentials"
    script += [K(ESS, "Numeral", b) for b in range(2, 17)] + [K(ESS, "Numeral", b, 2, 4) for b in (16, 11, 3, 2)]
    script += [K(ESS, "Word"), K(ESS, "Word", 2, 5), K(ESS, "WordContains", "ab"), K(ESS, "WordStartsWith", "ab"), K(ESS, "WordEndsWith", "ab"),
               K(ESS, "Integer", 0, 25), K(ESS, "Decimal", 0, 9, 1, 2), K(ESS, "NegativeDecimal", 0, 9, 2, 3),
               K(ESS, "UnsignedDecimal", 0, 9, 1, 2), K(ESS, "Decimal", 0, 9, 1, 2), K(ESS, "IPv4"), K(ESS, "IPv6"), K(ESS, "IPv4", True),
               K(ESS, "Date", "dd/mm/yyyy"), K(ESS, "Date", "d-m-yy"), K(ESS, "Date", "mm/dd/yyyy"), K(ESS, "Date", "dd/mm/yyyy")]

    def near(step):
        """Constructions whose arguments are EQUAL-BUT-NOT-THE-SAME (1 / True / 1.0 hash alike) or nearly equal (other case,
        trailing blank) to those of `step`: a memo keyed by a hashed or normalised argument answers them from the entry the
        original call left behind, although a fresh process validates / builds them differently."""
        out = []
        if isinstance(step, tuple) and step[0] == "new":
            _, mod, name, a = step
            for i, x in enumerate(a):
                vs = []
                if isinstance(x, str) and x:
                    vs = [v for v in (x.upper(), x + " ") if v != x]
                elif isinstance(x, int) and not isinstance(x, bool):
                    vs = [float(x)] + ([bool(x)] if x in (0, 1) else [])
                out += [("new", mod, name, a[:i] + (v,) + a[i + 1:]) for v in vs]
        return out
    n_plain = len(script)
    script = [s2 for st in script for s2 in [st] + near(st)]
    ctx.extra["history_script"] = {"steps": len(script), "near_miss_steps": len(script) - n_plain}

    def ev(it, step):
        if isinstance(step, str) or isinstance(step, (int, bool, float)):
            return step
        kind = step[0]
        if kind == "new":
            _, mod, name, a = step
            return it.construct(model.cls(mod, name), [ev(it, x) for x in a])
        if kind == "pregex":
            return it.construct(P, [step[1]])
        if kind == "op":
            return it.binop(ast.BitOr() if step[1] == "|" else ast.Sub(), ev(it, step[2]), ev(it, step[3]), None)
        if kind == "inv":
            o = ev(it, step[1])
            return it.call(__import__("sa.interp", fromlist=["FuncRef"]).FuncRef(o.cls.find_method("__invert__"), o, True), [])
        raise AssertionError(step)

    def text(it, step):
        try:
            v = ev(it, step)
            return pattern_of(v) if isinstance(v, Obj) else repr(v)
        except PyRaise as e:
            return "!" + e.name
    entered = {}

    class Log(Hooks):
        def intercept(self, interp, target, args, kwargs, node):
            nm = getattr(getattr(target, "node", None), "name", None)
            if nm is not None:
                entered[nm] = entered.get(nm, 0) + 1
            return NotImplemented
    shared = Interp(model, Log(), fuel=500_000_000)
    rounds = [[text(shared, st) for st in script] for _ in range(2)]
    # a second process lives through the script backwards, then forwards (a table filled in ascending order of its keys
    # behaves differently from one filled in descending order when an entry is derived from its neighbours)
    shared2 = Interp(model, Hooks(), fuel=500_000_000)
    rounds.append([text(shared2, st) for st in reversed(script)][::-1])
    rounds.append([text(shared2, st) for st in script])
    HISTORY_ENTERED.clear()
    HISTORY_ENTERED.update(entered)
    fresh = [text(Interp(model, Hooks(), fuel=50_000_000), st) for st in script]
    f_cls = model.method("pregex.core.classes", "__Class", "__init__")
    for i, st in enumerate(script):
        label = _step_label(st)
        ctx.instance("R-HISTORY", key=label, sample=f"{label}: {fresh[i]!r} in a fresh process and at every repetition of the script")
        got = {fresh[i]} | {r[i] for r in rounds}
        if len(got) != 1:
            where = model.method("pregex.core.pre", "Pregex", "__init__") if st[0] == "pregex" or (st[0] == "new" and "classes" not in st[1]) else f_cls
            ctx.violation("R-HISTORY", where.relpath, where.short, "<result depends on earlier calls>",
                          "the same expression yields different patterns depending on what was built before it in the process",
                          where.node.lineno, inp=label,
                          detail=f"fresh: {fresh[i]!r}; in the script, rounds: {[r[i] for r in rounds]}")


def _step_label(st):
    if isinstance(st, (str, int, bool, float)):
        return repr(st)
    if st[0] == "new":
        return f"{st[2]}({', '.join(_step_label(x) for x in st[3])})"
    if st[0] == "pregex":
        return f"Pregex({st[1]!r})"
    if st[0] == "op":
        return f"{_step_label(st[2])} {st[1]} {_step_label(st[3])}"
    return f"~{_step_label(st[1])}"


FIXTURE_ALIAS = '''
_SPLIT = {k: k.split("-") for k in ("a-z", "0-9")}
_NAMES = {"a": "b"}
class Q:
    __ranges = {"a-z": ["a", "z"]}
    def fast(self, k):
        return __class__.__ranges[k] if k in __class__.__ranges else k.split("-")
    def slow(self, k):
        hit = _SPLIT.get(k)
        return hit
    def fine(self, k):
        return list(_SPLIT[k]), _NAMES[k]
'''


def run(ctx, model: Model):
    DEFERRED_MEMOS.clear()
    from ..absdom import cache_field, pattern_of
    CACHE_FIELD[0] = cache_field(model)
    ctx.explanation = (
        "Whole-package ownership/effect analysis on the syntax trees: (R-WRITEONCE) every attribute store, "
        "setattr/__dict__ access is enumerated and must be `self.<field> = ...` directly inside an __init__ (the "
        "compiled cache in compile/get_compiled_pattern excepted); (R-NOSHARED) no mutating method / subscript store / "
        "augmented assignment on class-level or module-level tables or on instance state after construction, no "
        "global/nonlocal, no mutable default argument; (R-NOARGMUT) no parameter is mutated in place unless every "
        "call site passes a fresh object; (R-SETORDER) a flow-insensitive inference of set-typed names (with "
        "propagation into helper parameters) finds every place where the iteration order of a set is observed and "
        "classifies it by its consumer - set-building consumers, the member list of a character class, the commuting "
        "rewrite loop of __escape and set-in/set-out worklists are order-insensitive, anything else is a violation; "
        "(R-NOHIDDEN) no hash/id/environment/clock/random input.  Each zero-match rule is run on an in-tree fixture "
        "that must fire on every run.")
    ctx.assumptions += [
        "not decided: confluence of the interval worklists (same set for every processing order) and order-insensitivity of "
        "re-parsing a class body - run-time facts about loops and regexes over arbitrary member sets",
        "aliasing through `return self` is safe because of R-WRITEONCE/R-NOSHARED/R-NOARGMUT",
    ]
    # --------------------------------------------------- positive controls
    with warnings.catch_warnings():
        warnings.simplefilter("ignore")
        ft = ast.parse(FIXTURE)
    fpar = _parents(ft)
    fw = [w for w in scan_writes(ft, "fixture", "fixture.py", fpar) if not w[4]]
    fs = scan_shared(ft, fpar, {"P": {"table"}}, {"_MEMO"})
    fh = scan_hidden(ft)
    fm = [pm for n in ast.walk(ft) if isinstance(n, ast.FunctionDef) for pm in param_mutations(n, fpar)[0]]
    if len(fw) < 2 or len(fs) < 4 or len(fh) < 3 or not fm:
        raise AnalysisError(f"positive control failed: writes={len(fw)} shared={len(fs)} hidden={len(fh)} argmut={len(fm)}")
    import types as _types
    ft2 = ast.parse(FIXTURE_ALIAS)
    fm2 = _types.SimpleNamespace(
        tree=ft2, assigns={t.id: st.value for st in ft2.body if isinstance(st, ast.Assign) for t in st.targets if isinstance(t, ast.Name)},
        classes={c.name: _types.SimpleNamespace(name=c.name, attrs={mangle(t.id, c.name): st.value for st in c.body if isinstance(st, ast.Assign)
                                                                     for t in st.targets if isinstance(t, ast.Name)})
                 for c in ft2.body if isinstance(c, ast.ClassDef)})
    fe = scan_escaping_refs(fm2, _parents(ft2))
    if len(fe) != 2:
        raise AnalysisError(f"positive control failed: escaping references to shared tables flagged = {len(fe)} (2 expected)")
    ctx.instance("R-WRITEONCE", key="fixture", sample=f"positive control: {len(fw)} illegal stores flagged in the fixture")
    ctx.instance("R-NOSHARED", key="fixture", sample=f"positive control: {len(fs)} shared-state mutations flagged in the fixture")
    ctx.instance("R-NOHIDDEN", key="fixture", sample=f"positive control: {len(fh)} hidden inputs flagged in the fixture")
    ctx.instance("R-NOARGMUT", key="fixture", sample=f"positive control: parameter mutation flagged in the fixture")

    # --------------------------------------------------- R-WRITEONCE
    n_stores = 0
    class_attrs = {}
    for ci in model.all_classes():
        class_attrs[ci.name] = set(ci.attrs)
    for m in model.modules.values():
        for kind, fn, cl, node, ok, reason in scan_writes(m.tree, m.name, m.relpath, model.parents):
            n_stores += 1
            ctx.instance("R-WRITEONCE", key=(m.relpath, fn, norm_text(model.parents.get(node)) if kind == "store" else norm_text(node)),
                         sample=f"{m.relpath} {fn}: {norm_text(node)} -> {'ok' if ok else reason}")
            if not ok:
                ctx.violation("R-WRITEONCE", m.relpath, fn, norm_text(_stmt(node, model.parents)),
                              f"object state is written after construction or on another object: {reason}", node.lineno)
    ctx.floor("R-WRITEONCE", n_stores, 5, "attribute stores")

    # --------------------------------------------------- R-NOSHARED
    n_tables = 0
    for m in model.modules.values():
        module_names = set(m.assigns)
        n_tables += len(module_names) + sum(len(c.attrs) for c in m.classes.values())
        for node, reason in scan_shared(m.tree, model.parents, class_attrs, module_names):
            ctx.violation("R-NOSHARED", m.relpath, _fn(node, model.parents), norm_text(_stmt(node, model.parents)),
                          f"shared or instance state is mutated: {reason}", node.lineno)
        for node, reason in scan_escaping_refs(m, model.parents):
            ctx.violation("R-NOSHARED", m.relpath, _fn(node, model.parents), norm_text(_stmt(node, model.parents)),
                          f"shared state can be mutated through an alias: {reason}", node.lineno)
    ctx.instance("R-NOSHARED", key="tables", sample=f"{n_tables} class-level/module-level names guarded", n=max(n_tables, 1))
    ctx.floor("R-NOSHARED", n_tables, 3, "class-level / module-level tables")

    # --------------------------------------------------- R-SETORDER, semantic companion: the set-in / set-out worklists that the
    # syntactic classification accepts are assumed confluent - here the one place where non-confluence is NOT harmless
    # (a completely merged 0-9 becomes the non-equivalent shorthand \d) is evaluated under eight iteration orders
    from . import c07 as _c07
    n_conf = _c07.confluence_rule(ctx, model, "R-SETORDER")
    ctx.instance("R-SETORDER", key="confluence", sample=f"{n_conf} digit-chain unions have the same pattern structure under 8 iteration orders")

    # --------------------------------------------------- R-HISTORY (semantic companion of R-NOSHARED / R-WRITEONCE)
    _history(ctx, model)
    # memo-shaped stores with a computed key were not reported by R-NOSHARED: they are acceptable only if the history
    # script exercises the memoising function repeatedly (whole parameter domains of the meta patterns, forwards and
    # backwards) - R-HISTORY has then compared every result with a fresh process
    for node, fname, table in DEFERRED_MEMOS:
        n_calls = HISTORY_ENTERED.get(fname, 0)
        ctx.instance("R-HISTORY", key=("memo", fname, table), sample=f"memo `{table}` in {fname} with a computed key: exercised {n_calls} times by the history script")
        if n_calls < 6:
            mod = next((m for m in model.modules.values() if any(x is node for x in ast.walk(m.tree))), None)
            ctx.violation("R-NOSHARED", mod.relpath if mod else "?", fname, norm_text(_stmt(node, model.parents)),
                          f"memo on `{table}` with a key computed from the arguments, and the history script does not exercise `{fname}` "
                          "enough to decide that the key determines the result", node.lineno)

    # --------------------------------------------------- R-NOARGMUT
    funcs = list(model.all_functions())
    mutators = {}
    for f in funcs:
        pm, params = param_mutations(f.node, model.parents)
        ctx.instance("R-NOARGMUT", key=f.qualname, nontrivial=bool(pm), sample=f"{f.short}: mutated parameters {sorted(pm)}" if pm else None)
        if pm:
            mutators[f] = (pm, params)
    for f, (pm, params) in mutators.items():
        # a module-level function of a PRIVATE module (`pregex/core/_classutils.py`) is not public API: it is judged by its
        # call sites, which are then looked for in every module that imports the private module (or the function)
        private_module = f.module.name.split(".")[-1].startswith("_") and not f.module.name.split(".")[-1].startswith("__")
        public = not f.node.name.startswith("_") and f.outer is None and not (private_module and f.cls is None)
        sites = []
        for g in funcs:
            for n in ast.walk(g.node):
                if isinstance(n, ast.Call):
                    fn = n.func
                    nm = fn.id if isinstance(fn, ast.Name) else (fn.attr if isinstance(fn, ast.Attribute) else None)
                    if nm != f.node.name and not (isinstance(fn, ast.Name) and g.module.from_imports.get(fn.id) == (f.module.name, f.node.name)):
                        continue
                    if g.module is f.module:
                        sites.append((g, n))
                    elif f.cls is None and isinstance(fn, ast.Attribute) and isinstance(fn.value, ast.Name) and \
                            g.module.imports.get(fn.value.id) == f.module.name:
                        sites.append((g, n))          # _cu.reduce_chars(...)
                    elif f.cls is None and isinstance(fn, ast.Name) and g.module.from_imports.get(fn.id) == (f.module.name, f.node.name):
                        sites.append((g, n))          # from ._classutils import reduce_chars
        for p, nodes in pm.items():
            ps = [x for x in params if x != "self"]
            idx = ps.index(p) if p in ps else None
            bad_sites = []
            for g, call in sites:
                arg = call.args[idx] if idx is not None and idx < len(call.args) else \
                    next((k.value for k in call.keywords if k.arg == p), None)
                if arg is None or not (is_fresh(arg) or _local_fresh(g, arg)):
                    bad_sites.append((g, call))
            if public or not sites or bad_sites:
                why = "a public function" if public else ("no call site found" if not sites else
                      f"call site {bad_sites[0][0].short}:{bad_sites[0][1].lineno} passes a non-fresh object")
                ctx.violation("R-NOARGMUT", f.relpath, f.short, f"parameter {p}: {norm_text(_stmt(nodes[0], model.parents))}",
                              f"parameter `{p}` is mutated in place and {why}", nodes[0].lineno)
    ctx.floor("R-NOARGMUT", len(funcs), 100, "functions scanned")

    # --------------------------------------------------- R-SETORDER
    sf = SetFlow(model)
    sinks = order_sinks(model, sf)
    for f, n, kind, cls, reason in sinks:
        if not hasattr(n, "lineno"):
            n.lineno = n.iter.lineno
        key = (f.qualname, kind, norm_text(n)[:80])
        ctx.instance("R-SETORDER", key=key, sample=f"{f.relpath}:{n.lineno} {f.short} [{kind}] {norm_text(n)[:70]} -> {cls}: {reason}")
        if cls != "ok":
            ctx.violation("R-SETORDER", f.relpath, f.short, f"{kind}: {norm_text(n)[:90]}",
                          f"the iteration order of a set (hash-seed dependent) is observed: {reason}", n.lineno)
    ctx.floor("R-SETORDER", len(sinks), 3, "order-observing uses of set-typed values")

    # --------------------------------------------------- R-NOHIDDEN
    n_h = 0
    for m in model.modules.values():
        for node, what in scan_hidden(m.tree):
            n_h += 1
            ctx.violation("R-NOHIDDEN", m.relpath, _fn(node, model.parents), norm_text(node)[:80],
                          f"hidden input: {what}", getattr(node, "lineno", None))
    ctx.instance("R-NOHIDDEN", key="package", sample=f"{n_h} hidden inputs in {len(model.modules)} modules (expected 0)")

    # --------------------------------------------------- R-RETALIAS
    alias = []
    for f in funcs:
        if f.cls is None:
            continue
        ps = f.params
        for r in ast.walk(f.node):
            if isinstance(r, ast.Return) and isinstance(r.value, ast.Name) and r.value.id in ps and model._owner_def(r, None) is f.node:
                rebound = any(isinstance(x, ast.Name) and x.id == r.value.id and isinstance(x.ctx, ast.Store) for x in ast.walk(f.node))
                if not rebound or r.value.id == "self":
                    alias.append(f"{f.short}:{r.value.id}")
    ctx.extra["aliasing_shortcuts"] = sorted(set(alias))
    ctx.instance("R-RETALIAS", key="list", sample=f"{len(set(alias))} builders return an operand itself: {sorted(set(alias))[:8]}...")
    ctx.exhaustive = True


PURE_FUNCTOOLS = {"reduce", "partial", "wraps", "cmp_to_key", "total_ordering"}     # no cache, no hidden state


LOG_METHODS = {"debug", "info", "warning", "warn", "error", "exception", "critical", "log"}


def _sink_only(node, parents, wo, depth=0):
    """Does the value of `node` flow ONLY into sinks that cannot reach a result - a logger call, a store into a
    write-only instrumentation table, or a local name all of whose uses do?"""
    p, child = parents.get(node), node
    while p is not None and not isinstance(p, ast.stmt):
        if isinstance(p, ast.Call) and isinstance(p.func, ast.Attribute) and p.func.attr in LOG_METHODS and child is not p.func:
            return True
        child, p = p, parents.get(p)
    # handed to a helper of the same module whose parameter only flows into sinks (`_record("seconds", t1 - t0)`)
    q, ch = parents.get(node), node
    while q is not None and not isinstance(q, ast.stmt):
        if isinstance(q, ast.Call) and ch in q.args and depth < 3:
            fname = q.func.attr if isinstance(q.func, ast.Attribute) else (q.func.id if isinstance(q.func, ast.Name) else None)
            root = q
            while parents.get(root) is not None:
                root = parents.get(root)
            defs = [d for d in ast.walk(root) if isinstance(d, ast.FunctionDef) and d.name == fname]
            if len(defs) == 1:
                ps = [a.arg for a in defs[0].args.posonlyargs + defs[0].args.args if a.arg not in ("self", "cls")]
                i = q.args.index(ch)
                if i < len(ps):
                    loads = [x for x in ast.walk(defs[0]) if isinstance(x, ast.Name) and x.id == ps[i] and isinstance(x.ctx, ast.Load)]
                    if loads and all(_sink_only(x, parents, wo, depth + 1) for x in loads):
                        return True
            break
        ch, q = q, parents.get(q)
    if isinstance(p, ast.Expr):
        return False
    if isinstance(p, (ast.Assign, ast.AugAssign, ast.AnnAssign)):
        tgts = p.targets if isinstance(p, ast.Assign) else [p.target]
        if all(isinstance(t, ast.Subscript) and isinstance(t.value, ast.Name) and t.value.id in wo for t in tgts):
            return True
        if depth < 3 and len(tgts) == 1 and isinstance(tgts[0], ast.Name):
            fn = _direct_function(p, parents)
            if fn is not None:
                loads = [x for x in ast.walk(fn) if isinstance(x, ast.Name) and x.id == tgts[0].id and isinstance(x.ctx, ast.Load)]
                return bool(loads) and all(_sink_only(x, parents, wo, depth + 1) for x in loads)
    return False


def scan_hidden(tree):
    out = []
    functools_aliases = set()
    from_cache = set()
    parents = _parents(tree)
    wo = write_only_names(tree, parents) if isinstance(tree, ast.Module) else set()
    clock_aliases = {}
    # code under `if NAME:` where NAME is a module-level constant False that is bound exactly once is dead
    false_consts = set()
    if isinstance(tree, ast.Module):
        binds = {}
        for x in ast.walk(tree):
            if isinstance(x, ast.Name) and isinstance(x.ctx, ast.Store):
                binds[x.id] = binds.get(x.id, 0) + 1
        for st in tree.body:
            tgt, val = (st.targets[0], st.value) if isinstance(st, ast.Assign) and len(st.targets) == 1 else \
                ((st.target, st.value) if isinstance(st, ast.AnnAssign) else (None, None))
            if isinstance(tgt, ast.Name) and isinstance(val, ast.Constant) and val.value is False and binds.get(tgt.id) == 1:
                false_consts.add(tgt.id)
    dead = set()
    for x in ast.walk(tree):
        if isinstance(x, ast.If) and isinstance(x.test, ast.Name) and x.test.id in false_consts:
            for b in x.body:
                for y in ast.walk(b):
                    dead.add(id(y))
    for n in ast.walk(tree):
        if id(n) in dead:
            continue
        if isinstance(n, ast.Call) and isinstance(n.func, ast.Name) and n.func.id in HIDDEN_CALLS:
            if n.func.id == "id" and _sink_only(n, parents, wo):
                continue          # an identity that is only logged / counted cannot reach a result
            out.append((n, f"call of {n.func.id}()"))
        if isinstance(n, ast.Import):
            for a in n.names:
                if a.name == "functools":
                    functools_aliases.add(a.asname or a.name)      # judged by what is used from it, below
                elif a.name == "time":
                    clock_aliases[a.asname or a.name] = n           # judged by where the readings go, below
                elif a.name.split(".")[0] in HIDDEN_MODULES:
                    out.append((n, f"import of {a.name}"))
    for alias, imp in clock_aliases.items():
        uses = [x for x in ast.walk(tree) if isinstance(x, ast.Name) and x.id == alias and isinstance(x.ctx, ast.Load)]
        ok = True
        for u in uses:
            att = parents.get(u)
            call = parents.get(att) if isinstance(att, ast.Attribute) else None
            if not (isinstance(att, ast.Attribute) and isinstance(call, ast.Call) and call.func is att and _sink_only(call, parents, wo)):
                ok = False
        if not ok:
            out.append((imp, "import of time (a clock reading reaches something else than a log / a write-only statistics table)"))
    for n in ast.walk(tree):
        if isinstance(n, ast.ImportFrom) and n.module and n.module.split(".")[0] in HIDDEN_MODULES:
            if n.module == "functools" and all(a.name in PURE_FUNCTOOLS or a.name in ("lru_cache", "cache") for a in n.names):
                for a in n.names:
                    if a.name in ("lru_cache", "cache"):
                        from_cache.add(a.asname or a.name)      # judged per decorated function, below
                continue
            if n.module == "os" and all(a.name in ("PathLike",) for a in n.names):
                continue          # a type used in annotations / isinstance tests: reads nothing from the process environment
            out.append((n, f"import from {n.module}"))
    # a cache as decorator of a function without `self` whose every return is an immutable value cannot change any
    # result (the function is re-evaluated or its old, unalterable result is handed out): judged per decorated function
    safe_cache_nodes = set()
    cache_names = {"lru_cache", "cache"}
    def _is_cache_expr(d):
        core = d.func if isinstance(d, ast.Call) else d
        return (isinstance(core, ast.Attribute) and isinstance(core.value, ast.Name) and core.value.id in functools_aliases
                and core.attr in cache_names) or (isinstance(core, ast.Name) and core.id in from_cache)
    # the wrapper spelled as a call instead of a decorator:  NAME = functools.lru_cache(maxsize=N)(f)  /  functools.cache(f)
    # with f a function of the same module - judged exactly like the decorator form
    wrapped = []
    defs_by_name = {}
    for fn in ast.walk(tree):
        if isinstance(fn, ast.FunctionDef):
            defs_by_name.setdefault(fn.name, []).append(fn)
    for c in ast.walk(tree):
        if isinstance(c, ast.Call) and len(c.args) == 1 and not c.keywords and isinstance(c.args[0], ast.Name) and \
                (_is_cache_expr(c.func) if isinstance(c.func, ast.Call) else
                 (_is_cache_expr(c) and not (isinstance(c.func, ast.Attribute) and c.func.attr == "lru_cache") and not
                  (isinstance(c.func, ast.Name) and c.func.id == "lru_cache"))) and len(defs_by_name.get(c.args[0].id, [])) == 1:
            wrapped.append((defs_by_name[c.args[0].id][0], c.func if isinstance(c.func, ast.Call) else c))
    for fn in ast.walk(tree):
        if not isinstance(fn, ast.FunctionDef):
            continue
        for d in list(fn.decorator_list) + [w for g, w in wrapped if g is fn]:
            if not _is_cache_expr(d):
                continue
            params = [a.arg for a in fn.args.posonlyargs + fn.args.args]
            rets = [r.value for r in ast.walk(fn) if isinstance(r, ast.Return) and r.value is not None]
            local_mut = {t.id for a in ast.walk(fn) if isinstance(a, ast.Assign) and _mutable_expr(a.value)
                         for t in a.targets if isinstance(t, ast.Name)}
            immutable = all(not _mutable_expr(v) and not (isinstance(v, ast.Name) and v.id in local_mut) for v in rets)
            if params[:1] not in (["self"], ["cls"]) and rets and immutable and not any(isinstance(x, (ast.Yield, ast.YieldFrom)) for x in ast.walk(fn)):
                for x in ast.walk(d):
                    safe_cache_nodes.add(id(x))
            else:
                out.append((d, f"cache on `{fn.name}`, which " + ("takes the instance as key" if params[:1] in (["self"], ["cls"]) else
                                                                  "returns a mutable object (every caller shares and may alter it)")))
    for n in ast.walk(tree):
        if isinstance(n, ast.Attribute) and isinstance(n.value, ast.Name) and n.value.id in functools_aliases \
                and n.attr not in PURE_FUNCTOOLS:
            if id(n) in safe_cache_nodes or any(o[0] is not n and id(n) in {id(y) for y in ast.walk(o[0])} for o in out):
                continue
            out.append((n, f"use of functools.{n.attr} (caches / hidden state)"))
        elif isinstance(n, ast.Name) and n.id in functools_aliases and not isinstance(n.ctx, ast.Store):
            par = None     # a bare use of the module object (passed around): cannot be judged
            out_of_attr = True
            for m in ast.walk(tree):
                if isinstance(m, ast.Attribute) and m.value is n:
                    out_of_attr = False
                    break
            if out_of_attr:
                out.append((n, "the functools module object is passed around"))
    return out


def _stmt(node, parents):
    st = node
    while st is not None and not isinstance(st, ast.stmt):
        st = parents.get(st)
    return st if st is not None else node
