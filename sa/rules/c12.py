"""C12 - capture extraction is consistent with the source text and group identity.

The four iterate_*captures* generators (and, through C11's R-WRAP, their get_* forms) are
walked by the abstract interpreter over abstract match objects whose groups mix unnamed /
named, participating / empty / non-participating groups in an order where the ordinal of
a named group differs from its group number.  Rules:

R-GROUPID  every reported position is that very group's span (index-kind agreement)
R-FILTER   include_empty=False drops exactly the captures equal to '' (None is kept)
R-RELPOS   relative_to_match shifts both ends by the match start; (-1,-1) stays (-1,-1)
R-SOURCE   `re` is applied to exactly the text the caller supplied (witness: CR LF, controls, non-characters, the
           source's own short string constants), so positions index the caller's string
R-SHAPE    one container per match, all groups in order / all named groups under their names
"""
from __future__ import annotations

import ast
import itertools

from ..model import norm_text
from . import matching as MM
from .matching import PRE, TEXT

METHODS = ["iterate_captures", "iterate_captures_and_pos", "iterate_named_captures", "iterate_named_captures_and_pos"]


def spec(meth, m: MM.AbsMatch, include_empty, relative):
    groups = [(g[0], m.value_of(i + 1), g[1], g[2]) for i, g in enumerate(m.grps)]
    named = "named" in meth
    pos = meth.endswith("_and_pos")
    out = []
    for name, v, s, e in groups:
        if named and not name:
            continue
        if not include_empty and v == "":
            continue
        if pos:
            if relative and s > -1:
                s, e = s - m.s, e - m.s
            item = (v, s, e)
        else:
            item = v
        out.append((name, item))
    if named:
        return {k: v for k, v in out}
    return [v for _, v in out] if pos else tuple(v for _, v in out)


def classify(meth, got, want, m, include_empty, relative):
    """Name the rule that the deviation belongs to."""
    named = "named" in meth
    pos = meth.endswith("_and_pos")
    try:
        gk = list(got.keys()) if named else list(range(len(got)))
        wk = list(want.keys()) if named else list(range(len(want)))
    except Exception:
        return "R-SHAPE"
    if type(got) is not type(want):
        return "R-SHAPE"
    gv = [got[k] for k in gk]
    wv = [want[k] for k in wk]
    texts_g = [(x[0] if pos and isinstance(x, tuple) else x) for x in gv]
    texts_w = [(x[0] if pos else x) for x in wv]
    if gk != wk or texts_g != texts_w:
        # is it only the filter?
        allv = spec(meth, m, True, relative)
        all_texts = [(x[0] if pos else x) for x in (allv.values() if named else allv)]
        if not include_empty and set(map(repr, texts_g)) <= set(map(repr, all_texts)):
            return "R-FILTER"
        return "R-SHAPE"
    if pos:
        abs_want = spec(meth, m, include_empty, False)
        abs_wv = [abs_want[k] for k in wk]
        if relative and all(isinstance(x, tuple) and len(x) == 3 for x in gv):
            # right group, wrong shift?
            if [x[2] - x[1] if x[1] > -1 else 0 for x in gv] == [x[2] - x[1] if x[1] > -1 else 0 for x in abs_wv]:
                return "R-RELPOS"
        return "R-GROUPID"
    return "R-SHAPE"


def precondition(model):
    bad = []
    for meth in METHODS:
        f = model.method(PRE, "Pregex", meth)
        for node in ast.walk(f.node):
            if isinstance(node, ast.Call) and isinstance(node.func, ast.Attribute) \
                    and node.func.attr in ("strip", "lower", "upper", "replace", "split", "find", "index", "count", "startswith", "endswith"):
                bad.append(f"{f.relpath}:{node.lineno} {f.short}: `{norm_text(node)[:50]}` (string operation on captured data)")
    return bad


def run(ctx, model):
    from . import signatures as _sig
    _n_sig = _sig.check(ctx, model, "R-SIGNATURE", lambda k: 'capture' in k.split('.')[-1] and k.startswith('pregex.core.pre:') and k.split('.')[-1] != 'capture')
    ctx.floor("R-SIGNATURE", _n_sig, 1, "public entry points")
    ctx.explanation = __doc__.strip().replace("\n", " ")
    ctx.assumptions += [
        "re's own semantics of groups()/groupdict()/span(); get_* forms equal iterate_* forms by C11 R-WRAP",
        "abstract matches: 5 matches x 5 groups covering {unnamed,named} x {text, '', None} with named ordinals != group numbers; "
        "complete because the loop bodies treat groups uniformly and inspect values only by comparison with '' and positions by "
        "comparison with -1 (syntactic scan)",
    ]
    bad = precondition(model)
    if bad:
        ctx.note("uniformity precondition failed: " + "; ".join(bad[:3]))
    ctx.exhaustive = not bad
    abs_wrong = {}
    for meth, (mlabel, mfun) in itertools.product(METHODS, (("", MM.std_matches), (" [twelve groups]", MM.wide_matches),
                                                                   (" [nested groups]", MM.nested_matches))):
        ms = mfun(TEXT)
        f = model.method(PRE, "Pregex", meth)
        has_rel = "relative_to_match" in f.params
        for include_empty, relative, compiled in itertools.product((True, False), (False, True) if has_rel else (False,), (False, True)):
            kw = {"include_empty": include_empty}
            if has_rel:
                kw["relative_to_match"] = relative
            kind, v, hooks, o = MM.run_method(model, meth, [TEXT], kw, compiled=compiled, matches_for=mfun)
            inp = f"{meth}(include_empty={include_empty}{', relative_to_match=' + str(relative) if has_rel else ''}) compiled={compiled}{mlabel}"
            if kind == "raise":
                ctx.instance("R-SHAPE", key=inp)
                ctx.violation("R-SHAPE", f.relpath, f.short, "<raise>", f"{meth} raises {v.name}", f.node.lineno, inp=inp)
                continue
            got = list(v)
            rule_hit = None
            if len(got) != len(ms):
                ctx.instance("R-SHAPE", key=inp)
                ctx.violation("R-SHAPE", f.relpath, f.short, "<yield count>",
                              f"{meth} yields {len(got)} containers for {len(ms)} matches", f.node.lineno, inp=inp)
                continue
            for i, (g, m) in enumerate(zip(got, ms)):
                want = spec(meth, m, include_empty, relative)
                for r in ("R-GROUPID", "R-FILTER", "R-RELPOS", "R-SHAPE"):
                    if (r == "R-GROUPID" or r == "R-RELPOS") and not meth.endswith("_and_pos"):
                        continue
                    if r == "R-RELPOS" and not relative:
                        continue
                    if r == "R-FILTER" and include_empty:
                        continue
                    ctx.instance(r, key=(inp, i), sample=f"{inp} match#{i} {m!r} -> {g!r}")
                if g != want:
                    r = classify(meth, g, want, m, include_empty, relative)
                    if r in ("R-RELPOS", "R-GROUPID") and relative:
                        # absolute positions right => the offset is at fault; else the same group-identity defect
                        r = "R-GROUPID" if abs_wrong.get((meth, include_empty, compiled)) else "R-RELPOS"
                    if not relative:
                        abs_wrong[(meth, include_empty, compiled)] = True
                    ctx.violation(r, f.relpath, f.short, _construct(model, f, r),
                                  {"R-GROUPID": "a reported position does not belong to the group whose text is reported",
                                   "R-FILTER": "include_empty=False does not drop exactly the captures equal to ''",
                                   "R-RELPOS": "relative_to_match does not shift both ends by the match start (or touches (-1,-1))",
                                   "R-SHAPE": "the yielded container does not list every (named) group in order"}[r],
                                  f.node.lineno, inp=inp, detail=f"match#{i} {m!r}: got {g!r}, required {want!r}")
    # ---------------- R-SOURCE: captures and positions refer to the caller's text, so that text is what re must see
    MM.subject_rule(ctx, model, "R-SOURCE", sorted(n for n in MM.matching_methods(model) if "capture" in n or n.endswith("_and_pos")))
    ctx.floor("R-SOURCE", ctx.rule_counts.get("R-SOURCE", 0), 16, "methods reporting captures / positions")
    ctx.floor("R-GROUPID", ctx.rule_counts.get("R-GROUPID", 0), 40, "position reports")
    ctx.floor("R-FILTER", ctx.rule_counts.get("R-FILTER", 0), 40, "filter evaluations")


def _construct(model, f, rule):
    """A stable construct name: the span lookup / filter expression of the function."""
    for node in ast.walk(f.node):
        if rule == "R-GROUPID" and isinstance(node, ast.Call) and isinstance(node.func, ast.Attribute) \
                and node.func.attr in ("span", "start", "end") and node.args:
            return norm_text(node)
    return {"R-GROUPID": "<position lookup>", "R-FILTER": "<filter>", "R-RELPOS": "<offset>", "R-SHAPE": "<container>"}[rule]
