"""Shared outcome computation for the quantifier entry points (C04, C05, C09).

R-QUANT: every entry point (7 methods, 7 classes, `*` both ways) is walked by the
abstract interpreter on every abstract input; the outcome is compared with a
specification function written from the property statement.
"""
from __future__ import annotations

import ast
import re

from ..absdom import (PregexHooks, check_type_enum, infer_empty_rule, make_operand, parse_regex, pattern_of,
                      same_regex, witnesses)
from ..interp import FuncRef, ClassRef, Interp, Obj, PyRaise, explore, Incomplete
from ..model import AnalysisError, Model, mangle, norm_text

PRE = "pregex.core.pre"
QU = "pregex.core.quantifiers"

# entry -> requested range as a function of (n, m)    [oracle: property statement C04]
RANGE = {
    "optional": lambda n, m: (0, 1),
    "indefinite": lambda n, m: (0, None),
    "one_or_more": lambda n, m: (1, None),
    "exactly": lambda n, m: (n, n),
    "at_least": lambda n, m: (n, None),
    "at_most": lambda n, m: (0, n),
    "at_least_at_most": lambda n, m: (n, m),
}
# which bound may be None
NONE_OK = {"at_most": {"n"}, "at_least_at_most": {"m"}}

CLASS_TO_METHOD = {"Optional": "optional", "Indefinite": "indefinite", "OneOrMore": "one_or_more",
                   "Exactly": "exactly", "AtLeast": "at_least", "AtMost": "at_most",
                   "AtLeastAtMost": "at_least_at_most"}

T_EXC = "InvalidArgumentTypeException"
V_EXC = "InvalidArgumentValueException"
R_EXC = "CannotBeRepeatedException"

BOUNDS_QUICK = [True, "x", None, -1, 0, 1, 2, 3]
BOUNDS_THOROUGH = [True, False, "x", 1.5, None, -2, -1, 0, 1, 2, 3, 4, 7]


class Entry:
    def __init__(self, label, kind, meaning, params, func=None, cls=None):
        self.label = label      # e.g. "Pregex.at_least", "AtLeast(...)", "Pregex.__mul__"
        self.kind = kind        # method | class | mul | rmul
        self.meaning = meaning  # key of RANGE
        self.params = params    # subset of [n, m, is_greedy] in signature order
        self.func = func
        self.cls = cls


def entries(model: Model):
    out = []
    for meth in RANGE:
        f = model.method(PRE, "Pregex", meth)
        ps = [p for p in f.params if p != "self"]
        out.append(Entry(f"Pregex.{meth}", "method", meth, ps, func=f))
    for cname, meth in CLASS_TO_METHOD.items():
        ci = model.cls(QU, cname)
        init = ci.methods.get("__init__")
        if init is None:
            raise AnalysisError(f"anchor vanished: {cname}.__init__")
        ps = [p for p in init.params if p not in ("self", "pre")]
        out.append(Entry(f"{cname}(...)", "class", meth, ps, func=init, cls=ci))
    out.append(Entry("Pregex.__mul__", "mul", "exactly", ["n"], func=model.method(PRE, "Pregex", "__mul__")))
    out.append(Entry("Pregex.__rmul__", "rmul", "exactly", ["n"], func=model.method(PRE, "Pregex", "__rmul__")))
    return out


# ------------------------------------------------------------------ precondition
def bound_precondition(model: Model):
    """Order-type sufficiency: bound parameters n/m are only (i) isinstance args,
    (ii) compared with 0/1/None or each other, (iii) formatted without spec,
    (iv) forwarded as arguments to calls.  Returns list of offending uses."""
    bad = []
    scanned = 0
    funcs = [e.func for e in entries(model)]
    for f in funcs:
        names = {p for p in f.params if p in ("n", "m")}
        if not names:
            continue
        scanned += 1
        for node in ast.walk(f.node):
            if isinstance(node, ast.Name) and node.id in names and isinstance(node.ctx, ast.Load):
                par = model.parents.get(node)
                ok = False
                if isinstance(par, ast.Call):
                    ok = True   # isinstance(n, int) or forwarded argument
                elif isinstance(par, ast.keyword):
                    ok = True
                elif isinstance(par, ast.Compare):
                    others = [par.left] + list(par.comparators)
                    ok = all((isinstance(o, ast.Constant) and (o.value in (0, 1) or o.value is None))
                             or (isinstance(o, ast.Name) and o.id in ("n", "m")) for o in others)
                elif isinstance(par, ast.FormattedValue):
                    ok = par.format_spec is None
                elif isinstance(par, (ast.Tuple, ast.Starred)):
                    ok = True
                if not ok:
                    bad.append(f"{f.relpath}:{node.lineno} {f.short}: `{norm_text(par)}`")
    return scanned, bad


# ------------------------------------------------------------------ receivers
def receivers(tier):
    """(label, type tag, text, repeatable)"""
    w = witnesses("recv")
    out = []
    for tname, lst in w.items():
        take = lst if tier == "thorough" else lst[:2]
        if tname == "Quantifier" and tier != "thorough":
            take = lst[:2] + [x for x in lst if x[0].endswith("*")][:1]       # a star-quantified receiver as well
        if tname == "Assertion":
            take = lst if tier == "thorough" else [lst[0], lst[2], lst[6], lst[7]]
        for text, rep in take:
            out.append((f"{tname}{'' if rep else '/non-repeatable'}:{text!r}", tname, text, rep))
    return out


# ------------------------------------------------------------------ evaluation
def run_entry(model: Model, e: Entry, recv, argvals: dict):
    label, tname, text, rep = recv

    def run(it: Interp):
        op = make_operand(model, text, tname, rep)
        it.recv = op
        args = [argvals[p] for p in e.params]
        if e.kind == "method":
            return it.call(FuncRef(e.func, op, True), args)
        if e.kind == "class":
            return it.construct(e.cls, [op] + args)
        if e.kind == "mul":
            return it.binop(ast.Mult(), op, argvals["n"], None)
        if e.kind == "rmul":
            return it.binop(ast.Mult(), argvals["n"], op, None)
        raise AssertionError(e.kind)

    results = explore(model, run, lambda: PregexHooks(model))
    outs = []
    for r in results:
        if r.outcome == "raise":
            outs.append(("raise", r.value.name, r.value))
        else:
            v = r.value
            if not isinstance(v, Obj):
                outs.append(("value", repr(v), None))
            else:
                outs.append(("text", pattern_of(v), v is r.interp.recv))
    return outs


def classify_bound(v, none_ok):
    if v is None:
        return "ok" if none_ok else "type"
    if isinstance(v, bool) or not isinstance(v, int):
        return "type"
    if v < 0:
        return "value"
    return "ok"


def expected(e: Entry, recv, argvals):
    """Specification function. Returns (kind, payload): ('raise', {names}) | ('empty',) |
    ('self',) | ('quant', lo, hi, lazy)."""
    label, tname, text, rep = recv
    n = argvals.get("n")
    m = argvals.get("m")
    greedy = argvals.get("is_greedy", True)
    none_ok = NONE_OK.get(e.meaning, set())
    kinds = []
    if "n" in e.params:
        kinds.append(classify_bound(n, "n" in none_ok))
    if "m" in e.params:
        kinds.append(classify_bound(m, "m" in none_ok))
    if "type" in kinds and "value" in kinds:
        return ("raise", {T_EXC, V_EXC})
    if "type" in kinds:
        return ("raise", {T_EXC})
    if "value" in kinds:
        return ("raise", {V_EXC})
    lo, hi = RANGE[e.meaning](n, m)
    if hi is not None and lo is not None and hi < lo:
        return ("raise", {V_EXC})
    if tname == "Empty":
        return ("empty",)
    if (lo, hi) == (0, 0):
        return ("empty",)
    if (lo, hi) == (1, 1):
        return ("self",)
    if not rep and (hi is None or hi > 1):
        return ("raise", {R_EXC})
    return ("quant", lo, hi, not greedy)


def _norm_repeat(tree):
    """MIN_REPEAT with min == max is the same as MAX_REPEAT."""
    if isinstance(tree, tuple):
        if len(tree) == 2 and tree[0] == "MIN_REPEAT" and isinstance(tree[1], tuple) and tree[1][0] == tree[1][1]:
            return ("MAX_REPEAT", _norm_repeat(tree[1]))
        return tuple(_norm_repeat(x) for x in tree)
    return tree


def conforms(exp, out, recv):
    """Does an interpreter outcome satisfy the specification?  -> (ok, reason)"""
    label, tname, text, rep = recv
    kind = out[0]
    if exp[0] == "raise":
        if kind == "raise" and out[1] in exp[1]:
            return True, ""
        return False, f"expected {' or '.join(sorted(exp[1]))}, got {describe(out)}"
    if kind == "raise":
        return False, f"expected {exp}, got {describe(out)}"
    if kind != "text" or not isinstance(out[1], str):
        return False, f"expected a pattern, got {describe(out)}"
    got = out[1]
    if exp[0] == "empty":
        return (got == "", "" if got == "" else f"expected the empty pattern, got {got!r}")
    if exp[0] == "self":
        ok, why = same_regex(got, text)
        return ok, (why and f"expected the operand unchanged ({text!r}); {why}")
    _, lo, hi, lazy = exp
    suffix = "{%d,%s}" % (lo, "" if hi is None else hi)
    ref = f"(?:{text}){suffix}{'?' if lazy and lo != hi else ''}"
    try:
        a = _norm_repeat(parse_regex(got))
        b = _norm_repeat(parse_regex(ref))
    except re.error as ex:
        return False, f"emitted text {got!r} does not parse: {ex}"
    if a == b:
        return True, ""
    return False, f"emitted {got!r}; required meaning {ref!r} (range {lo}..{hi if hi is not None else 'inf'}, {'lazy' if lazy else 'greedy'})"


def describe(out):
    if out[0] == "raise":
        return f"RAISE({out[1]})"
    if out[0] == "text":
        return f"{'SELF' if out[2] else 'NEW'}({out[1]!r})"
    return f"VALUE({out[1]})"


def grid(e: Entry, bounds):
    vals = {}
    combos = [{}]
    for p in e.params:
        if p in ("n", "m"):
            combos = [dict(c, **{p: b}) for c in combos for b in bounds]
        elif p == "is_greedy":
            combos = [dict(c, is_greedy=g) for c in combos for g in (True, False)]
        else:
            raise AnalysisError(f"{e.label}: unexpected parameter {p!r}; the entry table must be revisited")
    return combos


def where_of(e: Entry, out):
    """Best location for a violation: the raise site or the entry itself."""
    if out[0] == "raise" and out[2] is not None and out[2].node is not None and out[2].where is not None:
        f = out[2].where
        return f.relpath, f.short, out[2].node.lineno, norm_text(out[2].node)
    return e.func.relpath, e.func.short, e.func.node.lineno, "<outcome>"


def evaluate_all(ctx, model: Model, rule: str, select=None, on_case=None):
    """Walk every entry × input; report deviations as violations of `rule`.
    select(e, recv, argvals, exp) -> bool filters the cases a property cares about."""
    check_type_enum(model)
    ok, why = infer_empty_rule(model)
    if not ok:
        raise AnalysisError(f"oracle '' -> Empty not justified by __infer_type: {why}")
    scanned, bad = bound_precondition(model)
    bounds = list(BOUNDS_THOROUGH if ctx.tier == "thorough" else BOUNDS_QUICK)
    exhaustive = not bad
    if bad:
        ctx.note("order-type sufficiency precondition FAILED (bounds used outside comparisons with 0/1/None/each other): "
                 + "; ".join(bad[:3]) + " - the grid is widened by the constants the code computes with and by multi-digit values; "
                 "the verdict is bounded")
        bounds = list(BOUNDS_THOROUGH) + [5, 6, 8, 9, 10, 11, 12, 99, 100, 101]
    # constants the quantifier code (entries and everything they call inside Pregex) compares or computes with
    from ..consts import call_closure, interesting_ints, around
    reach = call_closure(model, [e.func for e in entries(model)] + [model.method(PRE, "Pregex", m) for m in RANGE])
    extra = [v for v in around(interesting_ints(reach), lo=-2) if v not in bounds and v not in (0, 1, 2, 3)]
    if extra:
        ctx.note(f"bound grid extended by constants found in the quantifier code: {extra}")
        bounds += extra[:12]
        exhaustive = exhaustive and len(extra) <= 12
    ctx.extra["bound_grid"] = [repr(b) for b in bounds]
    ents = entries(model)
    ctx.floor(rule, len(ents), 16, "quantifier entry points")
    recvs = receivers(ctx.tier)
    n_cases = 0
    for e in ents:
        for argvals in grid(e, bounds):
            for recv in recvs:
                exp = expected(e, recv, argvals)
                if select is not None and not select(e, recv, argvals, exp):
                    continue
                outs = run_entry(model, e, recv, argvals)
                n_cases += 1
                inp = f"{e.label} args={ {k: argvals[k] for k in e.params} } receiver={recv[0]}"
                key = (e.label, tuple(sorted((k, repr(v)) for k, v in argvals.items())), recv[0])
                ctx.instance(rule, key=key, nontrivial=True,
                             sample=f"{inp} -> {', '.join(describe(o) for o in outs)}  [spec: {exp}]")
                if on_case:
                    on_case(e, recv, argvals, exp, outs)
                for o in outs:
                    good, why = conforms(exp, o, recv)
                    if not good:
                        file, func, line, construct = where_of(e, o)
                        ctx.violation(rule, file, func, construct,
                                      f"{e.label}: outcome differs from the quantifier specification", line,
                                      inp=f"{e.label} {tuple(argvals.get(p) for p in e.params)!r} recv={recv[1]}{'' if recv[3] else '/nonrep'}",
                                      detail=f"{inp}: {why}")
    return exhaustive, n_cases, len(ents)
