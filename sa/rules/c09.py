"""C09 - only anchored / positive-look-around patterns are refused repetition.

R-REPEAT   CannotBeRepeatedException iff (receiver non-repeatable and range can repeat and bounds valid)
R-FLAGSRC  the flag consulted is written once, from __infer_type's second component; False only for the
           (Assertion, False) return guarded by the non-repeatable recogniser
R-RECOG    emitter templates <-> recogniser constants agree
"""
from __future__ import annotations

import ast
import re

from ..absdom import FLAGS, parse_regex
from ..consts import fold_str
from ..interp import FuncRef, Interp, PyRaise
from ..model import AnalysisError, mangle, norm_text
from . import builders as B
from . import quant
from .builders import PRE


def infer_returns(model):
    """[(type name, flag, guard regex const or None, node)] for the returns of __infer_type."""
    f = model.method(PRE, "Pregex", "__infer_type")
    out = []

    def walk(stmts, guard):
        for st in stmts:
            if isinstance(st, ast.FunctionDef):
                continue
            if isinstance(st, ast.Return):
                v = st.value
                if not (isinstance(v, ast.Tuple) and len(v.elts) == 2 and isinstance(v.elts[1], ast.Constant)
                        and isinstance(v.elts[1].value, bool)):
                    raise AnalysisError(f"__infer_type return of unexpected shape at line {st.lineno}: {norm_text(st)}")
                tname = ast.unparse(v.elts[0]).split(".")[-1]
                out.append((tname, v.elts[1].value, guard, st))
            elif isinstance(st, ast.If):
                g = _guard_const(model, f, st.test)
                if g is None and any(isinstance(r, ast.Return) and isinstance(r.value, ast.Tuple) and len(r.value.elts) == 2 and
                                     isinstance(r.value.elts[1], ast.Constant) and r.value.elts[1].value is False for r in st.body):
                    # the guard of a non-repeatable verdict is not a literal `re.fullmatch(CONST, text)` (precompiled
                    # patterns, helper predicates ...): this syntactic rule does not apply to that spelling
                    raise AnalysisError(f"guard at line {st.lineno} is not a literal regex test: {norm_text(st.test)[:60]}")
                walk(st.body, g)
                walk(st.orelse, None if not (len(st.orelse) == 1 and isinstance(st.orelse[0], ast.If)) else None)
            elif isinstance(st, (ast.For, ast.While)):
                walk(st.body, guard)
    walk(f.node.body, None)
    return f, out


def _guard_const(model, f, test):
    """`_re.fullmatch(CONST, pattern|temp, flags=...) is not None` -> (CONST, subject name, extra flags)"""
    if isinstance(test, ast.Compare) and len(test.ops) == 1 and isinstance(test.ops[0], ast.IsNot) \
            and isinstance(test.comparators[0], ast.Constant) and test.comparators[0].value is None \
            and isinstance(test.left, ast.Call) and isinstance(test.left.func, ast.Attribute) \
            and test.left.func.attr == "fullmatch":
        c = test.left
        pat = c.args[0] if c.args else next((k.value for k in c.keywords if k.arg == "pattern"), None)
        subj = c.args[1] if len(c.args) > 1 else next((k.value for k in c.keywords if k.arg == "string"), None)
        s = fold_str(model, f, pat)
        flags = next((k.value for k in c.keywords if k.arg == "flags"), None)
        ic = flags is not None and "IGNORECASE" in ast.unparse(flags)
        if s is not None and isinstance(subj, ast.Name):
            return (s, subj.id, ic)
    return None


def run(ctx, model):
    ctx.explanation = (
        "R-REPEAT: the outcome table of the 16 quantifier entry points (abstract interpretation, see C04) projected "
        "on the receiver's repeatable flag: a non-repeatable receiver raises CannotBeRepeatedException iff the "
        "requested range can repeat (max > 1 or unbounded) and the bounds are valid; repeatable receivers of every "
        "type tag never do; Optional / Exactly 0,1 / AtMost 1 / (0,1) / *0 / *1 never raise it.  R-FLAGSRC: "
        "who-may-write rule on the flag field (written once in __init__ from __infer_type's 2nd component; "
        "_is_repeatable returns it) and return-shape rule on __infer_type (False only with (Assertion, False) under "
        "the non-repeatable recogniser).  R-RECOG: every assertion emitter is walked on operand witnesses and the "
        "emitted template must be accepted by the recogniser constant (anchors/positive look-arounds: the "
        "non-repeatable one; negative look-arounds and word boundaries: the repeatable one and not the other); "
        "the recognisers' hole positions are checked to be `.+` so the filler is immaterial.")
    ctx.assumptions += [
        "not decided: false positives of the recognisers on assertion-free run-time text (e.g. a literal ending in '$'), "
        "and bare anchors built from the empty pattern - facts about __infer_type on arbitrary strings",
    ]
    B.prepare(model)
    exhaustive, n, n_entries = quant.evaluate_all(
        ctx, model, "R-REPEAT",
        select=lambda e, recv, argvals, exp: not (exp[0] == "raise" and quant.R_EXC not in exp[1]))
    ctx.exhaustive = exhaustive
    ctx.floor("R-REPEAT", n, 1000, "valid-bound cases")

    # ---------------- R-FLAGSRC
    P = model.pregex
    isrep = model.method(PRE, "Pregex", "_is_repeatable")
    from ..absdom import layout as _layout, slot_field as _slot_field, make_operand
    init = model.method(PRE, "Pregex", "__init__")
    if _layout(model) is not None:
        # Semantic form (no private field name, classifier signature or storage shape assumed).  The probed layout has
        # established that the constructor stores the classifier's second component in exactly one slot (the forced
        # answers True / False appeared there and nowhere else); what remains: the accessor returns that slot, and
        # nothing but the constructor writes the field that holds it.
        from ..interp import Hooks as _H
        for rep in (True, False):
            op = make_operand(model, "pq", "Other" if rep else "Assertion", rep)
            try:
                got = Interp(model, _H()).call(FuncRef(isrep, op, True), [])
            except PyRaise as e:
                got = "!" + e.name
            ctx.instance("R-FLAGSRC", key=("accessor", rep), sample=f"_is_repeatable() of an operand classified repeatable={rep}: {got!r}")
            if got is not rep:
                ctx.violation("R-FLAGSRC", isrep.relpath, isrep.short, "return", "_is_repeatable does not return the flag the classifier assigned",
                              isrep.node.lineno, detail=f"flag {rep}: returns {got!r}")
        fld = _slot_field(model, "rep")
        writes = []
        for fn in model.all_functions():
            clsname = fn.cls.name if fn.cls else None
            for node in ast.walk(fn.node):
                if isinstance(node, ast.Attribute) and isinstance(node.ctx, (ast.Store, ast.Del)) and mangle(node.attr, clsname) == fld:
                    writes.append((fn, node))
        ctx.instance("R-FLAGSRC", key="writers", sample=f"{len(writes)} store(s) to {fld}: {[w[0].short for w in writes]}")
        for fn, node in writes:
            if fn.node is not init.node:
                ctx.violation("R-FLAGSRC", fn.relpath, fn.short, norm_text(model.parents.get(node)),
                              "the field holding the repeatable flag is written outside Pregex.__init__", node.lineno)
    else:
        ctx.note(f"R-FLAGSRC: instance layout could not be probed ({model.__dict__.get('_layout_error')}); syntactic form used")
        body = [s for s in isrep.node.body if not (isinstance(s, ast.Expr) and isinstance(s.value, ast.Constant))]
        fld = None
        if len(body) == 1 and isinstance(body[0], ast.Return) and isinstance(body[0].value, ast.Attribute) \
                and isinstance(body[0].value.value, ast.Name) and body[0].value.value.id == "self":
            fld = mangle(body[0].value.attr, "Pregex")
        ctx.instance("R-FLAGSRC", key="accessor", sample=f"_is_repeatable returns self.{fld}")
        if fld is None:
            ctx.violation("R-FLAGSRC", isrep.relpath, isrep.short, "return", "_is_repeatable does not return the flag field",
                          isrep.node.lineno)
            from ..absdom import F
            fld = F(model).repeatable
        writes = []
        for fn in model.all_functions():
            clsname = fn.cls.name if fn.cls else None
            for node in ast.walk(fn.node):
                if isinstance(node, ast.Attribute) and isinstance(node.ctx, (ast.Store, ast.Del)) \
                        and mangle(node.attr, clsname) == fld:
                    writes.append((fn, node))
        ctx.instance("R-FLAGSRC", key="writers", sample=f"{len(writes)} store(s) to {fld}: {[w[0].short for w in writes]}")
        init = model.method(PRE, "Pregex", "__init__")
        for fn, node in writes:
            ok = False
            if fn.node is init.node:
                st = model.parents.get(node)
                while st is not None and not isinstance(st, ast.stmt):
                    st = model.parents.get(st)
                cname = model.method(PRE, "Pregex", "__infer_type").node.name
                is_cls_call = lambda v: isinstance(v, ast.Call) and ast.unparse(v.func).endswith(cname)
                if isinstance(st, ast.Assign) and isinstance(st.targets[0], ast.Tuple) and len(st.targets[0].elts) == 2 \
                        and st.targets[0].elts[1] is node:
                    if is_cls_call(st.value):
                        ok = True
                    elif isinstance(st.value, ast.Name):
                        # `r = T.get(text); if r is None: r = classify(text); T[text] = r` - the pair comes from the classifier,
                        # possibly through a memo of it (whether that memo is exact is C20's business)
                        binds = [a.value for a in ast.walk(init.node) if isinstance(a, ast.Assign) and
                                 any(isinstance(t, ast.Name) and t.id == st.value.id for t in a.targets)]
                        lookups = [b for b in binds if isinstance(b, ast.Subscript) or
                                   (isinstance(b, ast.Call) and isinstance(b.func, ast.Attribute) and b.func.attr == "get")]
                        others = [b for b in binds if b not in lookups]
                        ok = bool(others) and all(is_cls_call(b) for b in others)
                    elif isinstance(st.value, ast.Tuple) and len(st.value.elts) == 2:
                        # `r = classify(text); self.t, self.flag = r.type, r.repeatable` (or r[0], r[1])
                        src = st.value.elts[1]
                        base = src.value if isinstance(src, (ast.Attribute, ast.Subscript)) else None
                        if isinstance(base, ast.Name):
                            binds = [a.value for a in ast.walk(init.node) if isinstance(a, ast.Assign) and
                                     any(isinstance(t, ast.Name) and t.id == base.id for t in a.targets)]
                            ok = len(binds) == 1 and is_cls_call(binds[0])
            if not ok:
                ctx.violation("R-FLAGSRC", fn.relpath, fn.short, norm_text(model.parents.get(node)),
                              "the repeatable flag is written outside `self.__type, self.__repeatable = __infer_type(...)`",
                              node.lineno)
        if not any(fn.node is init.node for fn, _ in writes):
            ctx.violation("R-FLAGSRC", init.relpath, init.short, "<missing store>",
                          "Pregex.__init__ no longer stores the repeatable flag from __infer_type", init.node.lineno)

    try:
        f_inf, rets = infer_returns(model)
    except AnalysisError as e:
        # the classifier is spelled differently (tables, computed flags, helper functions): the syntactic return-shape
        # rule does not apply; the semantic rules below (R-RECOG, R-REPEAT-LIT: classifier interpreted) still decide
        f_inf, rets = model.method(PRE, "Pregex", "__infer_type"), []
        ctx.note(f"R-FLAGSRC return-shape rule not applicable to this spelling of the classifier ({str(e)[:90]}); "
                 "the flag's meaning is decided by the interpreted classifier (R-RECOG, R-REPEAT-LIT)")
    if rets:
        ctx.floor("R-FLAGSRC", len(rets), 3, "return statements of __infer_type")
    nonrep_const = rep_const = None
    for tname, flag, guard, st in rets:
        ctx.instance("R-FLAGSRC", key=("return", tname, flag, guard and guard[0]),
                     sample=f"return ({tname}, {flag}) guarded by {guard and guard[0]!r}")
        if flag is False:
            if tname != "Assertion" or guard is None:
                ctx.violation("R-FLAGSRC", f_inf.relpath, f_inf.short, norm_text(st),
                              "a return of __infer_type marks a non-assertion (or an unguarded case) as non-repeatable",
                              st.lineno)
            else:
                nonrep_const = guard
        elif tname == "Assertion" and guard is not None and guard[1] == "pattern" and "?<!" in guard[0]:
            rep_const = guard
    if rets and nonrep_const is None:
        ctx.violation("R-FLAGSRC", f_inf.relpath, f_inf.short, "<no (Assertion, False) return>",
                      "__infer_type has no return marking anchored / positive look-around patterns non-repeatable",
                      f_inf.node.lineno)
        return

    # ---------------- R-RECOG (the classifier itself is interpreted on every emitted template)
    from ..interp import Hooks as _PlainHooks
    _cls_cache = {}

    def classify(text):
        if text not in _cls_cache:
            try:
                from ..absdom import classify_real
                t, flag = classify_real(model, text)
                _cls_cache[text] = (getattr(t, "name", str(t)), flag)
            except PyRaise as e:
                _cls_cache[text] = ("!" + e.name, None)
        return _cls_cache[text]
    for nm, (const, _, _) in [(a_, b_) for a_, b_ in (("non-repeatable", nonrep_const), ("repeatable", rep_const)) if b_ is not None]:
        tree = parse_regex(const)[0]
        alts = tree[0][1][1] if (len(tree) == 1 and tree[0][0] == "BRANCH") else (tree,)
        for alt in alts:
            any_rep = ("MAX_REPEAT", (1, 4294967295, (("ANY", None),)))
            def is_any(x):
                return isinstance(x, tuple) and len(x) == 2 and x[0] == "MAX_REPEAT" and x[1][0] == 1 \
                    and x[1][2] == (("ANY", None),)
            if not (is_any(alt[0]) or is_any(alt[-1])):
                ctx.note(f"{nm} recogniser alternative without a `.+` hole: witness filler may matter")
                ctx.exhaustive = False
    recvs = [s for s in B.operand_list("recv", ctx.tier) if s[1] != "Empty"]
    args = [s for s in B.operand_list("arg", ctx.tier) if s[1] not in ("Empty", "Quantifier")]
    n_rec = 0

    def check(f, meth, text, want_nonrep, inp):
        nonlocal n_rec
        n_rec += 1
        tname, flag = classify(text)
        m_non = flag is False
        m_rep = tname == "Assertion" and flag is True
        ctx.instance("R-RECOG", key=(meth, inp), sample=f"{meth} {inp}: {text!r} nonrep-recogniser={m_non} rep-recogniser={m_rep}")
        if want_nonrep and not m_non:
            ctx.violation("R-RECOG", f.relpath, f.short, "<emitted template>",
                          f"{meth}: emitted template is not recognised as non-repeatable by __infer_type's recogniser",
                          f.node.lineno, inp=inp, detail=f"{text!r} is classified {tname}, repeatable={flag}")
        if not want_nonrep and (m_non or not m_rep):
            ctx.violation("R-RECOG", f.relpath, f.short, "<emitted template>",
                          f"{meth}: a negative look-around / boundary template is "
                          f"{'taken for non-repeatable' if m_non else 'not recognised as an assertion'}",
                          f.node.lineno, inp=inp, detail=f"{text!r}")

    for meth in B.ANCHORS:
        for r in recvs:
            outs, f = B.call_method_ident(model, meth, r)
            for o in outs:
                if o.text is not None:
                    check(f, meth, o.text, True, f"recv={r[0]}")
    for meth in list(B.POSITIVE) + list(B.NEGATIVE):
        for r in recvs:
            if meth in B.NEGATIVE and not r[3]:
                continue
            for a in args:
                if meth in B.NEGATIVE and not a[3]:
                    continue   # operand contains an anchor / positive look-around: outside the property
                outs, f = B.call_method_ident(model, meth, r, [a])
                for o in outs:
                    if o.text is not None:
                        if meth in B.NEGATIVE and classify(r[2])[1] is False:
                            continue
                        check(f, meth, o.text, meth in B.POSITIVE, f"recv={r[0]} arg={a[0]}")
    ctx.floor("R-RECOG", n_rec, 300, "emitter x operand templates")

    # ---------------- R-REPEAT-LIT (depth-2 composition with the real classifier)
    from . import compose
    recs = compose.run_all(ctx, model)
    n_lit = compose.judge_c09(ctx, model, recs)
    ctx.floor("R-REPEAT-LIT", n_lit, 2000, "repetition decisions with the interpreted classifier")
