"""Abstract `re` layer for the matching / extraction / splitting methods (C11-C14).

The methods of Pregex that talk to `re` are walked by the abstract interpreter with
* the `re` module replaced by a recorder: every call to search / fullmatch / finditer /
  sub / compile is logged with its bound arguments and answered with *abstract match
  objects* (`AbsMatch`) whose groups, names and spans are chosen by the rule;
* the compiled cache being either None or an abstract compiled pattern (`AbsCompiled`);
* `__extract_text` replaced by a table path-witness -> text-witness (its body is checked
  separately), so that "the text" and "the path" are distinguishable values.
"""
from __future__ import annotations

import inspect
import re

from ..absdom import PregexHooks, make_operand
from ..interp import FuncRef, Interp, Native, NativeMethod, Obj, PyRaise, Incomplete
from ..model import AnalysisError, Model

PRE = "pregex.core.pre"
TEXT = "abcde\nfghij\nklmnopqrst"      # the file's content: three lines, distinct characters
PATH = "/P/A/T/H/0123456789.TXT"        # the path: disjoint alphabet
PAT = "<pattern-text>"
RE_FLAGS = re.MULTILINE | re.DOTALL


class AbsMatch(Native):
    """groups: list of (name|None, start, end) with (-1,-1) = did not participate."""

    def __init__(self, subject: str, start: int, end: int, groups=(), lastindex=None):
        self.subject = subject
        self.s, self.e = start, end
        self.grps = list(groups)
        self.lastindex = lastindex       # number of the group CLOSED last (differs from the highest participating one when groups nest)

    def _idx(self, k):
        if isinstance(k, bool) or not isinstance(k, (int, str)):
            raise PyRaise(IndexError, ("no such group",))
        if isinstance(k, str):
            for i, g in enumerate(self.grps):
                if g[0] == k:
                    return i + 1
            raise PyRaise(IndexError, ("no such group",))
        if k < 0 or k > len(self.grps):
            raise PyRaise(IndexError, ("no such group",))
        return k

    def span_of(self, k=0):
        k = self._idx(k)
        if k == 0:
            return (self.s, self.e)
        return (self.grps[k - 1][1], self.grps[k - 1][2])

    def value_of(self, k=0):
        s, e = self.span_of(k)
        return None if s < 0 else self.subject[s:e]

    def sa_getattr(self, interp, name):
        if name == "group":
            return NativeMethod(lambda it, a, kw: self.value_of(*a) if len(a) <= 1 else tuple(self.value_of(x) for x in a))
        if name == "groups":
            dflt = lambda a, kw: a[0] if a else kw.get("default")
            fill = lambda v, d: d if v is None else v
            return NativeMethod(lambda it, a, kw: tuple(fill(self.value_of(i + 1), dflt(a, kw)) for i in range(len(self.grps))))
        if name == "groupdict":
            dflt = lambda a, kw: a[0] if a else kw.get("default")
            fill = lambda v, d: d if v is None else v
            return NativeMethod(lambda it, a, kw: {g[0]: fill(self.value_of(i + 1), dflt(a, kw)) for i, g in enumerate(self.grps) if g[0]})
        if name == "span":
            return NativeMethod(lambda it, a, kw: self.span_of(*a))
        if name == "start":
            return NativeMethod(lambda it, a, kw: self.span_of(*a)[0])
        if name == "end":
            return NativeMethod(lambda it, a, kw: self.span_of(*a)[1])
        if name == "lastindex":
            if self.lastindex is not None:
                return self.lastindex
            idx = [i + 1 for i, g in enumerate(self.grps) if g[1] >= 0]
            return max(idx) if idx else None
        if name == "lastgroup":
            li = self.sa_getattr(interp, "lastindex")
            return self.grps[li - 1][0] if li else None
        if name == "string":
            return self.subject
        if name == "regs":
            return tuple([(self.s, self.e)] + [(g[1], g[2]) for g in self.grps])
        if name == "re":
            return AbsPatternInfo(len(self.grps), {g[0]: i + 1 for i, g in enumerate(self.grps) if g[0]})
        if name == "pos":
            return 0
        if name == "endpos":
            return len(self.subject)
        raise Incomplete(f"match.{name} not modelled")

    def sa_getitem(self, interp, k):
        return self.value_of(k)

    def __repr__(self):
        return f"<match {self.s}:{self.e} {self.grps}>"


class AbsFile(Native):
    """What open(<path witness>) returns: the text witness, readable as a whole or line by line."""

    def __init__(self, text):
        self.text = text
        self.closed = False
        self.pos = 0
        self.sizes = []      # positive size / hint arguments seen: the scale at which a reader may change behaviour

    def sa_enter(self, interp):
        return self

    def sa_exit(self, interp):
        self.closed = True

    def _rest(self):
        r = self.text[self.pos:]
        return r

    def _size(self, a, kw, key):
        n = a[0] if a else kw.get(key, -1)
        if n is None:
            return -1
        if isinstance(n, bool) or not isinstance(n, int):
            raise PyRaise(TypeError, ("argument should be integer or None",))
        if n > 0:
            self.sizes.append(n)
        return n

    def sa_getattr(self, interp, name):
        if name == "read":
            def read(it, a, kw):
                n = self._size(a, kw, "size")
                r = self._rest() if n < 0 else self._rest()[:n]
                self.pos += len(r)
                return r
            return NativeMethod(read)
        if name == "readlines":
            def readlines(it, a, kw):
                # io semantics: no more lines are read once the total size read so far reaches a positive hint
                n = self._size(a, kw, "hint")
                out, total = [], 0
                for ln in self._rest().splitlines(keepends=True):
                    out.append(ln)
                    total += len(ln)
                    if n > 0 and total >= n:
                        break
                self.pos += total
                return out
            return NativeMethod(readlines)
        if name == "readline":
            def readline(it, a, kw):
                n = self._size(a, kw, "size")
                ls = self._rest().splitlines(keepends=True)
                r = ls[0] if ls else ""
                if n >= 0:
                    r = r[:n]
                self.pos += len(r)
                return r
            return NativeMethod(readline)
        if name == "close":
            return NativeMethod(lambda it, a, kw: self.sa_exit(it))
        raise Incomplete(f"file.{name} not modelled")

    def sa_iter(self, interp):
        r = self._rest().splitlines(keepends=True)
        self.pos = len(self.text)
        return iter(r)


class AbsPatternInfo(Native):
    """`match.re`: only the group table of the compiled pattern is exposed."""

    def __init__(self, groups, groupindex):
        self.groups = groups
        self.groupindex = groupindex

    def sa_getattr(self, interp, name):
        if name == "groups":
            return self.groups
        if name == "groupindex":
            return dict(self.groupindex)
        raise Incomplete(f"pattern.{name} not modelled")


class AbsCompiled(Native):
    def __init__(self, hooks, pattern, flags):
        self.hooks = hooks
        self.pattern = pattern
        self.flags = flags

    def sa_getattr(self, interp, name):
        if name in ("search", "fullmatch", "finditer", "match", "findall", "sub", "split"):
            return NativeMethod(lambda it, a, kw: self.hooks.re_call("compiled", name, a, kw, self))
        if name == "pattern":
            return self.pattern
        if name == "flags":
            return self.flags
        if name == "groups":
            return self.hooks.n_groups()
        if name == "groupindex":
            return self.hooks.group_index()
        raise Incomplete(f"compiled.{name} not modelled")


_RE_FUNCS = {getattr(re, n): n for n in ("search", "fullmatch", "finditer", "match", "findall", "sub", "subn",
                                         "split", "compile", "purge")}


class MatchHooks(PregexHooks):
    def __init__(self, model: Model, matches_for=None):
        super().__init__(model)
        try:
            self.extract = model.method(PRE, "Pregex", "__extract_text")
        except AnalysisError:
            self.extract = None
        self.calls = []          # dicts
        self.extracted = []      # files opened
        self.opens = []          # bound arguments of every open()
        self.matches_for = matches_for or (lambda subject: [])
        self.file_text = TEXT    # content of the path witness
        self.files = []

    def open_file(self, interp, args, kwargs, node):
        import inspect as _inspect
        import builtins as _b
        try:
            ba = _inspect.signature(_b.open).bind(*args, **kwargs)
        except TypeError as e:
            raise PyRaise(TypeError, e.args)
        b = dict(ba.arguments)
        src = b.get("file")
        self.extracted.append(src)
        self.opens.append({"file": src, "mode": b.get("mode", "r"), "encoding": b.get("encoding"), "errors": b.get("errors"),
                           "newline": b.get("newline")})
        if isinstance(src, str):
            fobj = AbsFile(self.file_text if src == PATH else f"<content-of:{src}>")
            self.files.append(fobj)
            return fobj
        raise PyRaise(TypeError, ("open() argument",))

    def intercept_py(self, interp, f, args, kwargs, node):
        try:
            name = _RE_FUNCS.get(f)
        except TypeError:
            name = None
        if name is None:
            return NotImplemented
        return self.re_call("module", name, args, kwargs, None)

    def re_call(self, via, name, args, kwargs, compiled):
        if name == "purge":
            self.calls.append({"via": via, "entry": "purge"})
            return None
        if via == "module":
            sig = inspect.signature(getattr(re, name))
        else:
            sig = inspect.signature(getattr(re.compile(""), name))
        try:
            ba = sig.bind(*args, **kwargs)
        except TypeError as e:
            raise PyRaise(TypeError, e.args)
        ba.apply_defaults()
        b = dict(ba.arguments)
        rec = {"via": via, "entry": name, "pattern": b.get("pattern", compiled.pattern if compiled else None),
               "subject": b.get("string"), "flags": b.get("flags", compiled.flags if compiled else 0),
               "count": b.get("count"), "repl": b.get("repl"), "maxsplit": b.get("maxsplit"),
               "pos": b.get("pos"), "endpos": b.get("endpos")}
        self.calls.append(rec)
        if name == "compile":
            return AbsCompiled(self, b["pattern"], b.get("flags", 0))
        subject = rec["subject"]
        if name in ("search", "fullmatch", "match"):
            ms = self.matches_for(subject)
            return ms[0] if ms else None
        if name == "finditer":
            return iter(list(self.matches_for(subject)))
        if name == "findall":
            return [m.value_of(0) for m in self.matches_for(subject)]
        if name in ("sub", "subn"):
            return f"<re.sub pattern={rec['pattern']!r} repl={rec['repl']!r} string={subject!r} count={rec['count']!r} flags={int(rec['flags'])}>"
        if name == "split":
            # what re.split returns for the abstract matches: the pieces between them, each followed by the groups of the
            # match that ended it (None for a group that did not take part); at most `maxsplit` matches are used
            ms = list(self.matches_for(subject)) if isinstance(subject, str) else []
            limit = b.get("maxsplit") or 0
            if isinstance(limit, int) and not isinstance(limit, bool) and limit > 0:
                ms = ms[:limit]
            parts, idx = [], 0
            for m in ms:
                parts.append(subject[idx:m.s])
                parts.extend(m.value_of(i + 1) for i in range(len(m.grps)))
                idx = m.e
            parts.append(subject[idx:] if isinstance(subject, str) else subject)
            return parts
        raise Incomplete(f"re.{name} not modelled")

    def _sample_matches(self):
        subj = next((c.get("subject") for c in reversed(self.calls) if isinstance(c.get("subject"), str)), TEXT)
        return list(self.matches_for(subj)) or list(self.matches_for(TEXT))

    def n_groups(self):
        ms = self._sample_matches()
        return len(ms[0].grps) if ms else 0

    def group_index(self):
        ms = self._sample_matches()
        return {g[0]: i + 1 for i, g in enumerate(ms[0].grps) if g[0]} if ms else {}


def pregex_obj(model: Model, hooks: MatchHooks, compiled: bool):
    o = make_operand(model, PAT, "Other", True, tag="matcher")
    if compiled:
        from ..absdom import cache_field
        o.fields[cache_field(model)] = AbsCompiled(hooks, "<exported:" + PAT + ">", RE_FLAGS)
    return o


def run_method(model: Model, meth: str, args=(), kwargs=None, compiled=False, matches_for=None, obj_setup=None):
    """-> (outcome 'return'|'raise', value, hooks, obj)"""
    hooks = MatchHooks(model, matches_for)
    it = Interp(model, hooks)
    o = pregex_obj(model, hooks, compiled)
    if obj_setup:
        obj_setup(o, hooks)
    f = model.method(PRE, "Pregex", meth)
    try:
        v = it.call(FuncRef(f) if f.is_static else FuncRef(f, o, True), list(args), dict(kwargs or {}))
        return "return", v, hooks, o
    except PyRaise as e:
        return "raise", e, hooks, o


def matching_methods(model: Model):
    """All public methods of Pregex with an `is_path` parameter (name -> FuncInfo)."""
    out = {}
    for name, f in model.pregex.methods.items():
        if "is_path" in f.params and not f.node.name.startswith("_"):
            out[f.node.name] = f
    return out


# standard abstract match configurations over TEXT -------------------------------------
def std_matches(subject):
    """Three matches: at the very start, in the middle (empty), at the very end; the groups mix
    unnamed/named, participating/empty/non-participating, in an order where named ordinals
    differ from group numbers."""
    n = len(subject)
    return [
        AbsMatch(subject, 0, 3, [(None, 0, 0), ("n1", 0, 1), (None, -1, -1), ("n2", 1, 3), ("n3", 0, 0)]),
        AbsMatch(subject, 5, 5, [(None, 5, 5), ("n1", -1, -1), (None, 5, 5), ("n2", 5, 5), ("n3", 5, 5)]),
        AbsMatch(subject, 8, 12, [(None, 8, 9), ("n1", 9, 11), (None, 11, 11), ("n2", -1, -1), ("n3", 11, 12)]),
        AbsMatch(subject, 12, 14, [(None, 12, 13), ("n1", 13, 13), (None, 13, 14), ("n2", 14, 14), ("n3", -1, -1)]),
        AbsMatch(subject, n - 2, n, [(None, -1, -1), ("n1", n - 2, n - 1), (None, n - 1, n), ("n2", n, n), ("n3", n - 2, n)]),
    ]


def wide_matches(subject):
    """Two matches with twelve groups each (two-digit group numbers, nine named groups so that a named ordinal
    of 9 meets group number 12), every third group empty or not participating."""
    n = len(subject)
    out = []
    for base in (0, n - 13):
        grps = []
        for g in range(12):
            name = f"g{g}" if g % 4 != 1 else None
            if g % 5 == 3:
                grps.append((name, -1, -1))
            elif g % 3 == 2:
                grps.append((name, base + g, base + g))
            else:
                grps.append((name, base + g, base + g + 1))
        out.append(AbsMatch(subject, base, base + 13, grps))
    return out


def nested_matches(subject):
    """Matches whose groups NEST (an outer group closes after the inner ones, so `lastindex` is the outer group's
    number although higher-numbered groups took part), with a trailing optional group that does not participate,
    and an alternation-in-a-loop shape where the group closed last is not the highest-numbered participant."""
    n = len(subject)
    # one group table for all matches (as for every iterator over one pattern): 1 'pair' (outer), 2 'key' and 3 (unnamed),
    # both nested in 'pair', 4 'w' (a trailing optional group)
    return [
        AbsMatch(subject, 0, 6, [("pair", 0, 6), ("key", 0, 2), (None, 3, 6), ("w", -1, -1)], lastindex=1),
        AbsMatch(subject, 7, 12, [("pair", 7, 11), ("key", 7, 8), (None, 9, 11), ("w", 11, 12)], lastindex=4),
        AbsMatch(subject, n - 4, n, [("pair", n - 4, n), ("key", n - 4, n - 3), (None, n - 2, n), ("w", -1, -1)], lastindex=1),
        AbsMatch(subject, n, n, [("pair", n, n), ("key", n, n), (None, -1, -1), ("w", -1, -1)], lastindex=1),
    ]


# a text witness made of the characters matching code could treat specially -----------------
def rich_text(model: Model):
    """Line-ending and control characters, a non-character, an astral character, plus every short string constant
    that occurs in the source of the functions reachable from the matching methods (sentinels, separators, ...)."""
    import ast
    from ..consts import call_closure
    parts = ["ab\r\ncd\re\n\tf\x00g\uffffh\u2028i\u0085j\U0001f600k  l\\r\\nm"]
    seen = set()
    for f in call_closure(model, list(matching_methods(model).values())):
        doc = ast.get_docstring(f.node, clean=False)
        for n in ast.walk(f.node):
            if isinstance(n, ast.Constant) and isinstance(n.value, str) and 0 < len(n.value) <= 4 and n.value != doc \
                    and n.value not in seen and not n.value.isalnum():
                seen.add(n.value)
                parts.append(n.value)
    for ci in (model.pregex,):
        for name, expr in getattr(ci, "attrs", {}).items():
            if isinstance(expr, ast.Constant) and isinstance(expr.value, str) and 0 < len(expr.value) <= 4 and expr.value not in seen:
                seen.add(expr.value)
                parts.append(expr.value)
    return "x".join(parts) + "\r\n"


def rich_texts(model: Model):
    """The rich witness, plus variants that START / END with each special candidate (a byte order mark, line
    endings, blanks, NUL and every short string constant of the matching code): normalisations such as
    strip / removeprefix / rstrip only bite at the edges."""
    rich = rich_text(model)
    consts = [p for p in rich.split("x") if p and len(p) <= 4][1:]
    edge = ["\ufeff", "\n", "\r\n", " ", "\t", "\x00", "\ufffe", "\u200b"] + consts
    seen, out = set(), [rich]
    for c in edge:
        if c in seen or not c:
            continue
        seen.add(c)
        out.append(c + "ab cd" + c + c + "ef" + c)
    return out[:24]


def subject_rule(ctx, model: Model, rule, names):
    """Whatever `re` is applied to must be the very text the caller supplied: positions, captures, pieces and
    replacements are all relative to it."""
    texts = rich_texts(model)
    _subject_rule_path(ctx, model, rule, names, texts[0])
    for rich in texts:
        _subject_rule_one(ctx, model, rule, names, rich)


def _subject_rule_path(ctx, model: Model, rule, names, rich):
    """The same for a FILE source: with is_path=True - spelled by keyword or by position, on a compiled or an
    uncompiled pattern - `re` must be applied to the file's text, never to the path string."""
    meths = matching_methods(model)
    for name in names:
        f = meths[name]
        ps = [p for p in f.params if p != "self"]
        val = lambda p: (PATH if p == "source" else True if p == "is_path" else 1 if p in ("n_left", "n_right") else "<repl>" if p == "repl"
                         else 0 if p == "count" else True)
        for spelling in ("keyword", "positional"):
            if spelling == "keyword":
                args, kw = [], {p: val(p) for p in ps}
            else:
                args, kw = [val(p) for p in ps], {}
            for compiled in (False, True):
                def setup(o, hooks):
                    hooks.file_text = rich
                kind, v, hooks, o = run_method(model, name, args, kw, compiled=compiled, matches_for=std_matches, obj_setup=setup)
                if kind == "return" and hasattr(v, "__next__"):
                    try:
                        list(v)
                    except PyRaise as e:
                        kind, v = "raise", e
                seen = [c.get("subject") for c in hooks.calls if c.get("subject") is not None]
                inp = f"{name}(path, is_path=True given by {spelling}) compiled={compiled}"
                ctx.instance(rule, key=inp, sample=f"{inp}: re received {len(seen)} subject(s), all of them the file's text: {all(x == rich for x in seen)}")
                bad = [x for x in seen if x != rich]
                if bad or kind == "raise" or not seen:
                    what = "the path string itself" if bad and bad[0] == PATH else "another text"
                    ctx.violation(rule, f.relpath, f.short, "<text given to re>",
                                  "with a file source re is not applied to the file's text", f.node.lineno, inp=inp,
                                  detail=(f"re received {what}: {bad[0][:40]!r}" if bad else (f"raises {v.name}" if kind == "raise" else "re was not called")))


def _subject_rule_one(ctx, model: Model, rule, names, rich):
    meths = matching_methods(model)
    for name in names:
        f = meths[name]
        kw = {p: (rich if p == "source" else False if p == "is_path" else 1 if p in ("n_left", "n_right") else "<repl>" if p == "repl"
                  else 0 if p == "count" else True) for p in f.params if p != "self"}
        for compiled in (False, True):
            kind, v, hooks, o = run_method(model, name, [], kw, compiled=compiled, matches_for=std_matches)
            if kind == "return" and hasattr(v, "__next__"):
                list(v)
            seen = [c.get("subject") for c in hooks.calls if c.get("subject") is not None]
            inp = f"{name}(text {rich[:12]!r}... of {len(rich)} characters: CR LF, controls, U+FFFF, BOM, the source's own string constants) compiled={compiled}"
            ctx.instance(rule, key=inp, sample=f"{inp}: re received {len(seen)} subject(s), identical to the source: {all(x == rich for x in seen)}")
            bad = [x for x in seen if x != rich]
            if bad or kind == "raise":
                i = next((k for k, (a, b) in enumerate(zip(bad[0], rich)) if a != b), min(len(bad[0]), len(rich))) if bad else 0
                ctx.violation(rule, f.relpath, f.short, "<text given to re>",
                              "re is applied to a text that differs from the source the caller supplied", f.node.lineno, inp=inp,
                              detail=(f"first difference at offset {i}: source has {rich[i:i + 4]!r}, re received {bad[0][i:i + 4]!r}"
                                      if bad else f"raises {v.name}"))
