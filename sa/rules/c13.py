"""C13 - splitting and replacing reconstruct the source exactly.

R-CURSOR   split_by_match / split_by_capture tile the text: pieces and consumed spans alternate,
           one more piece than spans, slices taken from the text the spans were computed on
R-REPLACE  replace == one re.sub(pattern text, repl, text, count, flags=class flags), guarded by count < 0
"""
from __future__ import annotations

import ast

from ..model import norm_text
from . import matching as MM
from .matching import PRE, TEXT, PAT, RE_FLAGS, AbsMatch


def match_configs():
    n = len(TEXT)
    cfg = {
        "no match": [],
        "one match at the very start": [(0, 2)],
        "one match at the very end": [(n - 3, n)],
        "whole text": [(0, n)],
        "adjacent matches": [(2, 4), (4, 7), (7, 8)],
        "empty matches": [(0, 0), (3, 3), (n, n)],
        "empty match adjacent to a match": [(2, 5), (5, 5), (9, 12)],
        "spread": [(1, 2), (5, 9), (15, 16)],
        "eleven matches, some empty": [(i, i + (i % 2)) for i in range(0, 22, 2)],
    }
    return cfg


def capture_configs():
    """matches with non-nesting groups in left-to-right order; None = did not participate."""
    n = len(TEXT)
    return {
        "two groups per match": [((0, 6), [(0, 2), (3, 6)]), ((8, 12), [(8, 9), (10, 12)])],
        "optional group missing": [((0, 5), [(1, 2), None, (3, 5)]), ((6, 9), [None, (6, 8), None])],
        "empty captures": [((0, 4), [(1, 1), (2, 4)]), ((4, 6), [(4, 4), (6, 6)]), ((10, n), [(n, n), None])],
        "capture at both ends": [((0, n), [(0, 3), (n - 2, n)])],
        "no groups": [((2, 4), [])],
        "empty capture at offset 0": [((0, 1), [(0, 0)]), ((3, 5), [(3, 3), (4, 5)])],
        "only an empty capture at offset 0": [((0, 0), [(0, 0)])],
        "two empty captures at the same offset": [((0, 2), [(1, 1), (1, 1)]), ((5, 5), [(5, 5), (5, 5), (5, 5)])],
        "identical non-empty spans in different matches": [((0, 2), [(0, 2)]), ((2, 4), [(2, 4)])],
        "empty capture where the previous capture ended": [((0, 4), [(0, 2), (2, 2), (2, 4)])],
        "eleven groups in one match": [((0, n), [(i, i + 1) if i % 3 else ((i, i) if i % 2 else None) for i in range(0, 22, 2)])],
        "no match": [],
    }


def tiles(text, spans):
    out, idx = [], 0
    for s, e in spans:
        out.append(text[idx:s])
        idx = e
    out.append(text[idx:])
    return out


def precondition(model):
    bad = []
    for meth in ("split_by_match", "split_by_capture"):
        f = model.method(PRE, "Pregex", meth)
        for node in ast.walk(f.node):
            if isinstance(node, ast.BinOp) and not isinstance(node.op, ast.Add):
                bad.append(f"{f.relpath}:{node.lineno} {f.short}: arithmetic `{norm_text(node)}`")
            if isinstance(node, ast.BinOp) and isinstance(node.op, ast.Add) and \
                    any(isinstance(x, ast.Constant) and isinstance(x.value, int) for x in (node.left, node.right)):
                bad.append(f"{f.relpath}:{node.lineno} {f.short}: offset arithmetic `{norm_text(node)}`")
    return bad


def run(ctx, model):
    from . import signatures as _sig
    _n_sig = _sig.check(ctx, model, "R-SIGNATURE", lambda k: k.split('.')[-1] in ('replace', 'split_by_match', 'split_by_capture'))
    ctx.floor("R-SIGNATURE", _n_sig, 1, "public entry points")
    ctx.explanation = (
        "split_by_match, split_by_capture and replace are walked by the abstract interpreter over an abstract `re` "
        "layer.  R-CURSOR: for every order type of match/capture spans (none, at either end, whole text, adjacent, "
        "empty, empty next to non-empty, optional groups missing, empty captures) the returned pieces must equal the "
        "tiling of the text by those spans (so interleaving pieces and spans rebuilds the text, with one more piece "
        "than spans); positions are only sliced/assigned (syntactic scan), hence behaviour depends on the spans' order "
        "type only.  R-REPLACE: replace must perform exactly one re.sub whose bound arguments (via "
        "inspect.signature(re.sub)) are pattern=instance text, repl=repl, string=text, count=count, "
        "flags=MULTILINE|DOTALL and return its result; a negative count raises InvalidArgumentValueException first.")
    ctx.assumptions += ["behaviour of re.sub / finditer on empty and adjacent matches is re's semantics",
                        "nested capturing groups are outside the property"]
    bad = precondition(model)
    if bad:
        ctx.note("order-type precondition failed: " + "; ".join(bad[:3]))
    ctx.exhaustive = not bad

    # ---------------- R-CURSOR / split_by_match
    f = model.method(PRE, "Pregex", "split_by_match")
    for label, spans in match_configs().items():
        for compiled in (False, True):
            mf = lambda subj, spans=spans: [AbsMatch(subj, s, e) for s, e in spans]
            kind, v, hooks, o = MM.run_method(model, "split_by_match", [TEXT], compiled=compiled, matches_for=mf)
            want = tiles(TEXT, spans)
            inp = f"split_by_match [{label}] compiled={compiled}"
            ctx.instance("R-CURSOR", key=inp, sample=f"{inp}: spans={spans} -> {v!r}")
            if kind == "raise" or v != want:
                ctx.violation("R-CURSOR", f.relpath, f.short, "<pieces>",
                              "split_by_match does not return the pieces between consecutive matches "
                              "(interleaving pieces and matches must rebuild the text)", f.node.lineno, inp=inp,
                              detail=f"spans={spans}: got {v!r}, required {want!r}")
            _subjects(ctx, hooks, f, inp)
    # ---------------- R-CURSOR / split_by_capture
    f = model.method(PRE, "Pregex", "split_by_capture")
    for label, ms in capture_configs().items():
        for include_empty in (True, False):
            for compiled in (False, True):
                def mf(subj, ms=ms):
                    return [AbsMatch(subj, s, e, [(None,) + (g if g else (-1, -1)) for g in gs]) for (s, e), gs in ms]
                kind, v, hooks, o = MM.run_method(model, "split_by_capture", [TEXT], {"include_empty": include_empty},
                                                  compiled=compiled, matches_for=mf)
                spans = [g for _, gs in ms for g in gs if g is not None and (include_empty or g[0] != g[1])]
                want = tiles(TEXT, spans)
                inp = f"split_by_capture [{label}] include_empty={include_empty} compiled={compiled}"
                ctx.instance("R-CURSOR", key=inp, sample=f"{inp}: capture spans={spans} -> {v!r}")
                if kind == "raise" or v != want:
                    ctx.violation("R-CURSOR", f.relpath, f.short, "<pieces>",
                                  "split_by_capture does not return the pieces between consecutive captured spans",
                                  f.node.lineno, inp=inp, detail=f"spans={spans}: got {v!r}, required {want!r}")
                _subjects(ctx, hooks, f, inp)
    MM.subject_rule(ctx, model, "R-CURSOR", ["split_by_match", "split_by_capture", "replace"])
    ctx.floor("R-CURSOR", ctx.rule_counts.get("R-CURSOR", 0), 30, "span configurations")

    # ---------------- R-REPLACE
    f = model.method(PRE, "Pregex", "replace")
    for count in (None, 0, 1, 3, -1, -5):
        for compiled in (False, True):
            args = [TEXT, "<repl>"] + ([] if count is None else [count])
            kind, v, hooks, o = MM.run_method(model, "replace", args, compiled=compiled)
            inp = f"replace(text, repl{'' if count is None else ', ' + str(count)}) compiled={compiled}"
            subs = [c for c in hooks.calls if c["entry"] in ("sub", "subn")]
            ctx.instance("R-REPLACE", key=inp, sample=f"{inp}: {[(c['entry'], c['pattern'], c['repl'], c['subject'], c['count'], int(c['flags'])) for c in subs]} -> {kind}")
            if count is not None and count < 0:
                if not (kind == "raise" and v.name == "InvalidArgumentValueException") or hooks.calls:
                    ctx.violation("R-REPLACE", f.relpath, f.short, "count guard",
                                  "a negative count is not rejected with InvalidArgumentValueException before substituting",
                                  f.node.lineno, inp=inp, detail=f"{kind} {getattr(v, 'name', v)!r}")
                continue
            if kind == "raise" or len(subs) != 1 or len(hooks.calls) != 1:
                ctx.violation("R-REPLACE", f.relpath, f.short, "<re.sub call>", "replace must be exactly one re.sub",
                              f.node.lineno, inp=inp, detail=f"{kind}; calls={[c['entry'] for c in hooks.calls]}")
                continue
            c = subs[0]
            want_count = 0 if count is None else count
            probs = []
            if c["entry"] != "sub":
                probs.append(f"entry {c['entry']}")
            if c["pattern"] != PAT and not (c["via"] == "compiled"):
                probs.append(f"pattern={c['pattern']!r} (expected the instance's text)")
            if c["repl"] != "<repl>":
                probs.append(f"repl={c['repl']!r}")
            if c["subject"] != TEXT:
                probs.append(f"string={c['subject']!r}")
            if c["count"] != want_count:
                probs.append(f"count={c['count']!r} (expected {want_count})")
            if c["flags"] != RE_FLAGS:
                probs.append(f"flags={c['flags']!r} (expected MULTILINE|DOTALL)")
            if v != f"<re.sub pattern={c['pattern']!r} repl={c['repl']!r} string={c['subject']!r} count={c['count']!r} flags={int(c['flags'])}>":
                probs.append("result of re.sub is not returned unchanged")
            if probs:
                ctx.violation("R-REPLACE", f.relpath, f.short, "<re.sub arguments>",
                              "replace does not substitute exactly the first `count` matches of the pattern in the text",
                              f.node.lineno, inp=inp, detail="; ".join(probs))
    ctx.floor("R-REPLACE", ctx.rule_counts.get("R-REPLACE", 0), 8, "replace evaluations")


def _subjects(ctx, hooks, f, inp):
    for c in hooks.calls:
        if c.get("subject") is not None and c["subject"] != TEXT:
            ctx.violation("R-CURSOR", f.relpath, f.short, "<matched text>",
                          "spans are computed on a different string than the one that is sliced", f.node.lineno,
                          inp=inp, detail=f"subject={c['subject']!r}")
        if c.get("entry") in ("purge", "compile") or c.get("subject") is None:
            continue
        # every scan behind a split must see ALL matches of the instance's pattern under the library's flags: a module-arm
        # call with other flags (e.g. the flags passed in the positional slot of `maxsplit` / `count`), another pattern,
        # a split limit or a restricted window yields pieces that no longer tile the text once the text has more matches /
        # spans lines
        probs = []
        if c.get("via") == "module":
            if c.get("pattern") != PAT:
                probs.append(f"pattern={c.get('pattern')!r} (expected the instance's text)")
            if c.get("flags") != RE_FLAGS:
                probs.append(f"flags={c.get('flags')!r} (expected MULTILINE|DOTALL)")
        if c.get("maxsplit") not in (None, 0) or (c.get("entry") in ("sub", "subn") and c.get("count") not in (None, 0)):
            probs.append(f"limit maxsplit={c.get('maxsplit')!r} count={c.get('count')!r} (every match must be used)")
        if c.get("pos") not in (None, 0) or (c.get("endpos") is not None and c.get("endpos") < 2 ** 31):
            probs.append(f"window pos={c.get('pos')!r} endpos={c.get('endpos')!r}")
        if probs:
            ctx.violation("R-CURSOR", f.relpath, f.short, f"{c.get('via')}.{c.get('entry')} arguments",
                          "the scan behind the split does not run the instance's pattern over the whole text under the library's flags",
                          f.node.lineno, inp=inp, detail="; ".join(probs))
