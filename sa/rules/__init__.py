"""One module per property (c01.py ... c20.py); each exposes run(ctx, model)."""
