"""Depth-2 composition with the REAL type classifier (shared by C02 and C09).

The per-builder rules of C02/C04/C09 take the operand's type tag as an abstract input.  What they
cannot see is whether `Pregex.__infer_type` - a regex cascade over the emitted text - assigns the tag
the emitters rely on.  That is a property of all run-time strings and is not decidable here; what IS
decidable is the emitter -> classifier agreement on a systematically generated family:

  leaves     escaped literals over an adversarial alphabet (pipes, parentheses, brackets, anchors,
             quantifier characters, trailing backslashes ...), classes and tokens built by the library's
             own constructors
  depth 1    every unary / binary builder over the leaves
  depth 2    every context (concatenation on either side, alternation, quantifiers, capture, look-ahead,
             anchor, enclose) around every depth-1 expression

Everything is walked by the abstract interpreter with `__infer_type` interpreted as ordinary code (no
oracle).  The emitted text must have the syntax tree of the fully parenthesised reference built from the
same leaf texts (R-COMPOSE, C02), and CannotBeRepeatedException must be raised exactly for expressions that
are directly an anchor / positive look-around (R-REPEAT-LIT, C09).
"""
from __future__ import annotations

from ..absdom import pattern_of

import concurrent.futures as cf
import re

from ..interp import FuncRef, Hooks, Incomplete, Interp, Obj, PyRaise
from ..model import AnalysisError, Model
from . import builders as B
from .builders import PRE

LITERALS_QUICK = ["\\\\", "\\\\\\", "a", "ab", "a|", "|b", "a\\", "\\", "(", "a)", "[", "a[b", "]", "a$", "^a", "a?", "*", "a+b", "{2}", ".", "\\|", "a\\|b", "C:\\",
                  "abcdefgh", "a.b|c(d)e[f]g$", "ünï¢ødé", "a" * 12 + "|" + "b" * 12]
LITERALS_MORE = ["a|b", "(a|b)", "(?:", "a\\\\", "\\(", "[a]", "[^", "a{1,2}", "$", "^", "\\b", "a\\b", "\\A", "(?=a)", "\n", "a\nb", "-", "a-z", "}", "?"]
CLASS_LEAVES = [("AnyLetter", ()), ("AnyFrom", ("|", "a")), ("AnyFrom", (")", "(")), ("AnyFrom", ("]",)), ("AnyDigit", ()), ("AnyButFrom", ("$",)),
                ("AnyFrom", ("?", "*")), ("Any", ()), ("AnyButFrom", ("\\",)), ("AnyBetween", ("A", "\\")), ("AnyFrom", ("\\", "]"))]
TOKEN_LEAVES = ["Backslash", "Newline", "Dollar"]
# classes whose text holds an UNBALANCED unescaped parenthesis, and groups around such classes: a classifier that looks at
# the text before the classes are collapsed sees `([<(])|([>)])` as one balanced group
PAREN_CLASSES = [("AnyFrom", ("(", "<")), ("AnyFrom", (")", ">")), ("AnyButFrom", ("(",)), ("AnyFrom", ("[", "(")), ("AnyFrom", ("\\", ")"))]
COMPOSITE_LEAVES = [("cap", ("cls", ("AnyFrom", ("(", "<")))), ("cap", ("cls", ("AnyFrom", (")", ">")))), ("grp", ("cls", ("AnyFrom", ("(", "<")))),
                    ("cap", ("cls", ("AnyFrom", ("|", "a")))), ("cap", ("lit", "a)")), ("grp", ("lit", "(b")), ("cap", ("cls", ("AnyFrom", ("\\", ")"))))]
COMPOSITE_PARTNERS = [("cap", ("cls", ("AnyFrom", (")", ">")))), ("grp", ("cls", ("AnyFrom", (")", "]")))), ("cap", ("lit", "(b"))]

UNARY1 = ["optional", "at_least2", "capture", "named_capture", "group", "group_i", "match_at_start", "match_at_line_end"]
BINARY1 = ["either", "concat", "followed_by", "not_preceded_by", "enclose"]
CONTEXTS = ["concat_right", "concat_left", "either_right", "either_left", "optional", "exactly2", "at_least3", "capture", "followed_by",
            "preceded_by_it", "match_at_end", "enclose", "capture_named", "group", "group_i"]
GROUP_CONTEXTS = {"capture", "capture_named", "group", "group_i"}
GROUP_OPS = {"capture", "named_capture", "group", "group_i"}
REPEATING = {"exactly2", "at_least3"}
ASSERTING1 = {"match_at_start", "match_at_line_end", "followed_by"}   # depth-1 ops that make E *directly* an anchor / positive look-around


def _call(it, model, obj, meth, *args, **kw):
    f = model.method(PRE, "Pregex", meth)
    return it.call(FuncRef(f, obj, True), list(args), kw)


def apply1(it, model, op, x, y=None):
    if op == "optional":
        return _call(it, model, x, "optional")
    if op == "at_least2":
        return _call(it, model, x, "at_least", 2)
    if op == "capture":
        return _call(it, model, x, "capture")
    if op == "named_capture":
        return _call(it, model, x, "capture", "g")
    if op == "group":
        return _call(it, model, x, "group")
    if op == "group_i":
        return _call(it, model, x, "group", True)
    if op in ("match_at_start", "match_at_line_end"):
        return _call(it, model, x, op)
    if op in ("either", "concat", "followed_by", "not_preceded_by", "enclose"):
        return _call(it, model, x, op, y)
    raise AssertionError(op)


def ref1(op, X, Y=None):
    g = lambda t: f"(?:{t})"
    return {
        "optional": lambda: f"{g(X)}?", "at_least2": lambda: f"{g(X)}{{2,}}", "capture": lambda: f"({X})",
        "named_capture": lambda: f"(?P<g>{X})", "group": lambda: g(X), "group_i": lambda: f"(?i:{X})",
        "match_at_start": lambda: f"\\A{g(X)}", "match_at_line_end": lambda: f"{g(X)}$",
        "either": lambda: f"{g(X)}|{g(Y)}", "concat": lambda: f"{g(X)}{g(Y)}", "followed_by": lambda: f"{g(X)}(?={Y})",
        "not_preceded_by": lambda: f"(?<!{Y}){g(X)}", "enclose": lambda: f"{g(Y)}{g(X)}{g(Y)}",
    }[op]()


def apply2(it, model, ctxname, e, z):
    if ctxname == "concat_right":
        return _call(it, model, e, "concat", z)
    if ctxname == "concat_left":
        return _call(it, model, z, "concat", e)
    if ctxname == "either_right":
        return _call(it, model, e, "either", z)
    if ctxname == "either_left":
        return _call(it, model, z, "either", e)
    if ctxname == "optional":
        return _call(it, model, e, "optional")
    if ctxname == "exactly2":
        return _call(it, model, e, "exactly", 2)
    if ctxname == "at_least3":
        return _call(it, model, e, "at_least", 3, False)
    if ctxname == "capture":
        return _call(it, model, e, "capture")
    if ctxname == "capture_named":
        return _call(it, model, e, "capture", "h")
    if ctxname == "group":
        return _call(it, model, e, "group")
    if ctxname == "group_i":
        return _call(it, model, e, "group", True)
    if ctxname == "followed_by":
        return _call(it, model, e, "followed_by", z)
    if ctxname == "preceded_by_it":
        return _call(it, model, z, "followed_by", e)
    if ctxname == "match_at_end":
        return _call(it, model, e, "match_at_end")
    if ctxname == "enclose":
        return _call(it, model, e, "enclose", z)
    raise AssertionError(ctxname)


def ref2(ctxname, E, Z, op1=None, X=None):
    g = lambda t: f"(?:{t})"
    if ctxname == "capture" and op1 in ("capture", "named_capture"):
        return E                       # "creating a capturing group out of a capturing group does nothing"
    if ctxname == "capture" and op1 == "group":
        return f"({X})"                # a non-capturing group is converted
    if ctxname == "capture_named":
        if op1 in ("capture", "named_capture", "group"):
            return f"(?P<h>{X})"       # names / renames / converts the outermost group only
        return f"(?P<h>{E})"
    if ctxname in ("group", "group_i"):
        opening = "(?i:" if ctxname == "group_i" else "(?:"
        if op1 in GROUP_OPS:
            return f"{opening}{X})"    # un-captures / re-flags the outermost group only
        return f"{opening}{E})"
    return {
        "concat_right": f"{g(E)}{g(Z)}", "concat_left": f"{g(Z)}{g(E)}", "either_right": f"{g(E)}|{g(Z)}", "either_left": f"{g(Z)}|{g(E)}",
        "optional": f"{g(E)}?", "exactly2": f"{g(E)}{{2}}", "at_least3": f"{g(E)}{{3,}}?", "capture": f"({E})",
        "followed_by": f"{g(E)}(?={Z})", "preceded_by_it": f"{g(Z)}(?={E})", "match_at_end": f"{g(E)}\\Z", "enclose": f"{g(Z)}{g(E)}{g(Z)}",
    }[ctxname]


def build_leaf(it, model, spec):
    kind, a = spec
    if kind == "lit":
        return it.construct(model.pregex, [a])
    if kind == "cls":
        return it.construct(model.cls("pregex.core.classes", a[0]), list(a[1]))
    if kind == "tok":
        return it.construct(model.cls("pregex.core.tokens", a), [])
    if kind in ("cap", "grp"):        # composite leaf: a capture / group around another leaf (the classifier sees `(...)` around it)
        inner = build_leaf(it, model, a)
        return _call(it, model, inner, "capture" if kind == "cap" else "group")
    raise AssertionError(kind)


def leaf_label(spec):
    kind, a = spec
    if kind == "lit":
        return repr(a)
    if kind == "cls":
        return f"{a[0]}({', '.join(map(repr, a[1]))})"
    if kind in ("cap", "grp"):
        return f"{'Capture' if kind == 'cap' else 'Group'}({leaf_label(a)})"
    return f"{a}()"


def leaves(tier):
    lits = LITERALS_QUICK + (LITERALS_MORE if tier == "thorough" else [])
    out = [("lit", s) for s in lits] + [("cls", c) for c in CLASS_LEAVES + PAREN_CLASSES] + [("tok", t) for t in TOKEN_LEAVES] + COMPOSITE_LEAVES
    return out


def _text(o):
    return pattern_of(o) if isinstance(o, Obj) else None


_MODELS = {}


def eval_chunk(args):
    """-> list of result dicts for (op, xspec, yspec) jobs: one depth-1 expression and all its contexts."""
    root, jobs = args
    import warnings
    warnings.simplefilter("ignore")
    model = _MODELS.get(root)
    if model is None:
        model = _MODELS[root] = Model(root)
    out = []
    for op, xs, ys in jobs:
        rec = {"op": op, "x": xs, "y": ys, "ctx": {}}
        it = Interp(model, Hooks(), fuel=3_000_000)
        try:
            x = build_leaf(it, model, xs)
            y = build_leaf(it, model, ys) if ys is not None else None
            z = build_leaf(it, model, ("lit", "z"))
            rec["X"], rec["Y"], rec["Z"] = _text(x), _text(y) if y is not None else None, _text(z)
        except PyRaise as e:
            rec["leaf_error"] = e.name
            out.append(rec)
            continue
        except Incomplete as e:
            rec["incomplete"] = str(e)
            out.append(rec)
            continue
        try:
            e1 = apply1(it, model, op, x, y)
            rec["E"] = _text(e1)
        except PyRaise as e:
            rec["E_raise"] = e.name
            out.append(rec)
            continue
        except Incomplete as e:
            rec["incomplete"] = str(e)
            out.append(rec)
            continue
        for c in CONTEXTS:
            it.fuel = 3_000_000
            try:
                r = apply2(it, model, c, e1, z)
                rec["ctx"][c] = ("text", _text(r))
            except PyRaise as e:
                rec["ctx"][c] = ("raise", e.name)
            except Incomplete as e:
                rec["ctx"][c] = ("incomplete", str(e))
        out.append(rec)
    return out


def run_all(ctx, model):
    """Evaluate the whole family (in parallel) and return the records."""
    lv = leaves(ctx.tier)
    lits = [l for l in lv if l[0] == "lit"]
    partner = [("lit", "b"), ("lit", "p|q"), ("lit", "c\\"), ("cls", ("AnyLetter", ())), ("cls", ("AnyButFrom", ("\\",)))] + COMPOSITE_PARTNERS
    jobs = []
    for xs in lv:
        for op in UNARY1:
            if xs[0] in ("cap", "grp") and op in GROUP_OPS:
                continue              # group()/capture() of a group CONVERTS it (documented; C08 decides that), nothing is wrapped
            jobs.append((op, xs, None))
        for op in BINARY1:
            for ys in partner:
                jobs.append((op, xs, ys))
                if xs[0] == "lit" and ys != xs:
                    jobs.append((op, ys, xs))
    # literal x literal alternations and concatenations (both operands adversarial)
    for xs in lits:
        for ys in lits[::3]:
            ys = ("lit", ys[1].replace("a", "d").replace("b", "e").replace("C", "D"))   # no common prefix with xs (sre factors prefixes)
            if ys[1][:1] == xs[1][:1]:
                continue                      # alternatives with a common first character get factored by CPython's parser
            jobs.append(("either", xs, ys))
            jobs.append(("concat", xs, ys))
    jobs = [j for j in dict.fromkeys(jobs) if not (j[0] == "either" and j[1] == j[2])]
    n = max(1, min(ctx.jobs, 16))
    size = max(20, len(jobs) // (n * 4))
    chunks = [jobs[i:i + size] for i in range(0, len(jobs), size)]
    out = []
    if n == 1:
        _MODELS[model.root] = model
        for c in chunks:
            out.extend(eval_chunk((model.root, c)))
    else:
        with cf.ProcessPoolExecutor(max_workers=n) as ex:
            for r in ex.map(eval_chunk, [(model.root, c) for c in chunks]):
                out.extend(r)
    return out


def describe(rec, c=None):
    x = leaf_label(rec["x"])
    e = f"{rec['op']}({x}{', ' + leaf_label(rec['y']) if rec['y'] is not None else ''})"
    if c is None:
        return e
    return {"concat_right": f"concat({e}, 'z')", "concat_left": f"concat('z', {e})", "either_right": f"either({e}, 'z')",
            "either_left": f"either('z', {e})", "optional": f"optional({e})", "exactly2": f"exactly({e}, 2)",
            "at_least3": f"at_least({e}, 3, lazy)", "capture": f"capture({e})", "followed_by": f"followed_by({e}, 'z')",
            "preceded_by_it": f"followed_by('z', {e})", "match_at_end": f"match_at_end({e})", "enclose": f"enclose({e}, 'z')",
            "capture_named": f"capture({e}, 'h')", "group": f"group({e})", "group_i": f"group({e}, True)"}[c]


def contains_assertion(rec):
    """Does the depth-1 expression contain an anchor / positive look-around anywhere (from its construction)?"""
    return rec["op"] in ASSERTING1


def judge_c02(ctx, model, recs):
    """R-COMPOSE: structure of depth-1 and depth-2 emissions against the parenthesised reference."""
    f_inf = model.method(PRE, "Pregex", "__infer_type")

    def judge_rec(ctx, r):
        n = 0
        if "incomplete" in r:
            raise AnalysisError(f"R-COMPOSE: {describe(r)}: {r['incomplete']}")
        if "leaf_error" in r:
            ctx.violation("R-COMPOSE", f_inf.relpath, "<leaf construction>", leaf_label(r["x"]), f"a leaf cannot be built ({r['leaf_error']})")
            return n
        if "E_raise" in r:
            if r["E_raise"] not in ("CannotBeRepeatedException",):     # repeatability is C09's business
                ctx.violation("R-COMPOSE", f_inf.relpath, f"Pregex.{_meth(r['op'])}", "composition raises",
                              "a builder fails on assertion-free, fixed-width operands", inp=describe(r), detail=r["E_raise"])
            return n
        n += 1
        ok, why = B.same_structure(r["E"], ref1(r["op"], r["X"], r["Y"]))
        ctx.instance("R-COMPOSE", key=describe(r), sample=f"{describe(r)} -> {r['E']!r}")
        if ok is False:
            ctx.violation("R-COMPOSE", f_inf.relpath, f_inf.short, f"operand of {_meth(r['op'])} is not kept intact",
                          "an operand built by the library's own constructors is classified such that the builder does not group it",
                          f_inf.node.lineno, inp=describe(r), detail=why)
        for c, (k, v) in r["ctx"].items():
            n += 1
            inp = describe(r, c)
            ctx.instance("R-COMPOSE", key=inp, sample=f"{inp} -> {v!r}")
            if k == "incomplete":
                raise AnalysisError(f"R-COMPOSE: {inp}: {v}")
            if k == "raise":
                if v == "CannotBeRepeatedException":
                    continue
                ctx.violation("R-COMPOSE", f_inf.relpath, f_inf.short, "composition raises",
                              "composing library-built operands fails", f_inf.node.lineno, inp=inp, detail=v)
                continue
            ok, why = B.same_structure(v, ref2(c, r["E"], r["Z"], r["op"], r["X"]))
            if ok is False:
                ctx.violation("R-COMPOSE", f_inf.relpath, f_inf.short,
                              f"{r['op']}-expression is not kept intact as an operand",
                              "the type inferred for an emitted expression makes the next builder bind to a fragment of it "
                              "(emitter and classifier disagree)", f_inf.node.lineno, inp=inp, detail=why)
        return n
    return sum(ctx.parallel(recs, judge_rec))


def judge_c09(ctx, model, recs):
    """R-REPEAT-LIT: with the real classifier, repetition is refused exactly for direct anchors / positive look-arounds."""
    n = 0
    f_inf = model.method(PRE, "Pregex", "__infer_type")
    R = "CannotBeRepeatedException"
    for r in recs:
        if "incomplete" in r:
            raise AnalysisError(f"R-REPEAT-LIT: {describe(r)}: {r['incomplete']}")
        if "leaf_error" in r:
            continue
        if "E_raise" in r:
            n += 1
            ctx.instance("R-REPEAT-LIT", key=describe(r), sample=f"{describe(r)} -> {r['E_raise']}")
            if r["E_raise"] == R:
                ctx.violation("R-REPEAT-LIT", f_inf.relpath, f_inf.short, "assertion-free operand refused",
                              "a literal / class / token is classified as non-repeatable although it contains no anchor or positive look-around",
                              f_inf.node.lineno, inp=describe(r))
            continue
        for c in REPEATING:
            k, v = r["ctx"].get(c, (None, None))
            if k is None:
                continue
            n += 1
            inp = describe(r, c)
            ctx.instance("R-REPEAT-LIT", key=inp, sample=f"{inp} -> {k} {v!r}")
            raised = k == "raise" and v == R
            if r["op"] in ASSERTING1 and not raised:
                ctx.violation("R-REPEAT-LIT", f_inf.relpath, f_inf.short, "direct assertion repeated",
                              "a repeating quantifier is accepted on a pattern that is directly an anchor / positive look-around",
                              f_inf.node.lineno, inp=inp, detail=f"{k} {v!r}")
            if r["op"] not in ASSERTING1 and raised:
                ctx.violation("R-REPEAT-LIT", f_inf.relpath, f_inf.short, "assertion-free expression refused",
                              "an expression that contains no anchor or positive look-around is refused repetition",
                              f_inf.node.lineno, inp=inp)
        k, v = r["ctx"].get("optional", (None, None))
        if k == "raise":
            n += 1
            ctx.violation("R-REPEAT-LIT", f_inf.relpath, f_inf.short, "Optional refused", "Optional must be accepted for every operand",
                          f_inf.node.lineno, inp=describe(r, "optional"), detail=v)
    return n


def _meth(op):
    return {"at_least2": "at_least", "named_capture": "capture", "group_i": "group"}.get(op, op)


def judge_c08(ctx, model, recs):
    """R-GROUP-REAL: capture / group around library-built expressions, with the classifier interpreted: group count,
    names and structure are what the expression spells out (literals containing '(' ')' '?:' '?P<' included)."""
    n = 0
    cap = model.method(PRE, "Pregex", "capture")
    grp = model.method(PRE, "Pregex", "group")
    for r in recs:
        if "incomplete" in r or "leaf_error" in r or "E_raise" in r:
            continue
        for c in GROUP_CONTEXTS:
            k, v = r["ctx"].get(c, (None, None))
            if k is None:
                continue
            n += 1
            inp = describe(r, c)
            f = cap if c.startswith("capture") else grp
            ctx.instance("R-GROUP-REAL", key=inp, sample=f"{inp} -> {v!r}" if r["op"] in GROUP_OPS else None)
            if k != "text":
                ctx.violation("R-GROUP-REAL", f.relpath, f.short, "grouping fails", "capture / group raises on a library-built operand",
                              f.node.lineno, inp=inp, detail=str(v))
                continue
            ok, why = B.same_structure(v, ref2(c, r["E"], r["Z"], r["op"], r["X"]))
            if ok is False:
                ctx.violation("R-GROUP-REAL", f.relpath, f.short,
                              f"{c.split('_')[0]} of a {'group' if r['op'] in GROUP_OPS else r['op'] + '-expression'}",
                              "the capturing-group structure is not what the expression spells out (classifier and group rewriting disagree)",
                              f.node.lineno, inp=inp, detail=why)
    return n
