"""C14 - file sources and context windows refer to the text, not the path.

R-PATHSTATE  every method with `is_path` returns for (path, is_path=True) exactly what it returns for
             (content, is_path=False); `re` only ever sees the content; the reader is called once
R-READER     __extract_text opens the file read-only as UTF-8 and returns read()
R-WINDOW     the context window is text[max(start-n_left,0) : min(end+n_right,len)] for every order type
R-WINARGS    non-integer / bool / negative window sizes raise the documented exceptions before anything is yielded
"""
from __future__ import annotations

import ast
import itertools

from ..model import AnalysisError, norm_text
from . import matching as MM
from .matching import PRE, TEXT, PATH, AbsMatch

T_EXC = "InvalidArgumentTypeException"
V_EXC = "InvalidArgumentValueException"


def _freeze(v):
    if hasattr(v, "__next__"):
        v = list(v)
    if isinstance(v, list):
        return ("list", tuple(_freeze(x) for x in v))
    if isinstance(v, tuple):
        return ("tuple", tuple(_freeze(x) for x in v))
    if isinstance(v, dict):
        return ("dict", tuple((k, _freeze(x)) for k, x in v.items()))
    if isinstance(v, AbsMatch):
        return ("match", v.subject, v.s, v.e)
    return v


def run(ctx, model):
    from . import signatures as _sig
    _n_sig = _sig.check(ctx, model, "R-SIGNATURE", lambda k: k.startswith('pregex.core.pre:Pregex.') and any(x in k.split('.')[-1] for x in ('match', 'capture', 'replace', 'split')) and k.split('.')[-1] not in ('capture', 'match_at_start', 'match_at_end', 'match_at_line_start', 'match_at_line_end'))
    ctx.floor("R-SIGNATURE", _n_sig, 1, "public entry points")
    ctx.explanation = (
        "Every method of Pregex that has an `is_path` parameter (19 public ones on the pinned tree, discovered from the "
        "signatures) is walked twice by the abstract interpreter over the abstract `re` layer: once with the path "
        "witness and is_path=True (the file reader is replaced by the table path-witness -> text-witness, its body is "
        "checked by R-READER) and once with the text witness and is_path=False, for every combination of the boolean "
        "parameters and both cache states.  R-PATHSTATE requires equal outcomes, that every `re` call sees the text "
        "witness, and exactly one read of the path.  R-WINDOW evaluates the context generator on all order types of "
        "(start - n_left vs 0) and (end + n_right vs len) and compares with the specified window.")
    ctx.assumptions += ["decoding behaviour of open() itself", "abstract matches stand for whatever re finds (C11)"]
    meths = MM.matching_methods(model)
    ctx.floor("R-PATHSTATE", len(meths), 19, "public methods with an is_path parameter")
    for name, f in sorted(meths.items()):
        params = [p for p in f.params if p != "self"]
        domains = []
        for p in params:
            if p in ("source", "is_path"):
                domains.append([None])
            elif p in ("n_left", "n_right"):
                domains.append([0, 1, 3])
            elif p == "repl":
                domains.append(["<repl>"])
            elif p == "count":
                domains.append([0, 2])
            elif p in ("include_empty", "relative_to_match"):
                domains.append([True, False])
            else:
                raise AnalysisError(f"{f.short}: unknown parameter {p!r}; extend the C14 argument table")
        for combo in itertools.product(*domains):
            for compiled in (False, True):
                kw = dict(zip(params, combo))
                kw_path = dict(kw, source=PATH, is_path=True)
                kw_text = dict(kw, source=TEXT, is_path=False)
                rp = MM.run_method(model, name, [], kw_path, compiled=compiled, matches_for=MM.std_matches)
                rt = MM.run_method(model, name, [], kw_text, compiled=compiled, matches_for=MM.std_matches)
                inp = f"{name}({', '.join(f'{k}={v!r}' for k, v in kw.items() if k not in ('source', 'is_path'))}) compiled={compiled}"
                ctx.instance("R-PATHSTATE", key=inp, sample=f"{inp}: path run -> {str(rp[1])[:70]!r}; reads={rp[2].extracted}")
                same = rp[0] == rt[0] and (_freeze(rp[1]) == _freeze(rt[1]) if rp[0] == "return" else rp[1].name == rt[1].name)
                if not same:
                    hint = ""
                    flat = str(_freeze(rp[1]))
                    if any(ch in flat for ch in "/0123456789.TXT"[:1]) or PATH[:4] in flat:
                        hint = " (the result contains pieces of the path string)"
                    ctx.violation("R-PATHSTATE", f.relpath, f.short, "<result for a path>",
                                  f"{name}(path, is_path=True) differs from {name}(content){hint}", f.node.lineno, inp=inp,
                                  detail=f"path: {str(rp[1])[:160]}  content: {str(rt[1])[:160]}")
                for which, r in (("path", rp), ("content", rt)):
                    for c in r[2].calls:
                        if c.get("subject") is not None and c["subject"] != TEXT:
                            ctx.violation("R-PATHSTATE", f.relpath, f.short, f"re.{c['entry']} subject",
                                          f"{name}: re is applied to {'the path string' if c['subject'] == PATH else 'something other than the text'}",
                                          f.node.lineno, inp=f"{inp} [{which} run]", detail=f"subject={c['subject']!r}")
                if rp[0] == "return" and rp[2].extracted != [PATH]:
                    ctx.violation("R-PATHSTATE", f.relpath, f.short, "<file reads>",
                                  f"{name}(path, is_path=True) reads {rp[2].extracted!r} (expected exactly one read of the path)",
                                  f.node.lineno, inp=inp)
                if rt[2].extracted:
                    ctx.violation("R-PATHSTATE", f.relpath, f.short, "<file reads>",
                                  f"{name}(text, is_path=False) tries to open {rt[2].extracted!r}", f.node.lineno, inp=inp)

    # ---------------- R-READER (semantic: how the path is opened and what is read from it)
    try:
        rf = model.method(PRE, "Pregex", "__extract_text")
    except AnalysisError:
        rf = None        # no dedicated reader: the open() calls are attributed to the methods themselves
    for name in sorted(meths):
        f = meths[name]
        kw = {p: (PATH if p == "source" else True if p == "is_path" else 1 if p in ("n_left", "n_right") else "<repl>" if p == "repl"
                  else 0 if p == "count" else True) for p in f.params if p != "self"}
        r = MM.run_method(model, name, [], kw, matches_for=MM.std_matches)
        opens = r[2].opens
        ctx.instance("R-READER", key=name, sample=f"{name}(path): open calls {opens}")
        where = rf or f
        for o in opens:
            enc = str(o.get("encoding") or "").lower().replace("_", "-")
            if o.get("mode") not in ("r", "rt", None) or enc not in ("utf-8", "utf8") or o.get("errors") not in (None, "strict"):
                ctx.violation("R-READER", where.relpath, where.short, "open() arguments",
                              "the file is not opened read-only as strict UTF-8 text", where.node.lineno, inp=name, detail=str(o))
            if o.get("newline") not in (None,):
                ctx.violation("R-READER", where.relpath, where.short, "open() arguments",
                              "newline translation is changed: the text would differ from the file's content as a string",
                              where.node.lineno, inp=name, detail=str(o))

    # R-READER at scale: a reader that passes a size / hint to the file object may behave differently once the
    # file is longer than that size.  The sizes the reader used are recorded by the abstract file; the run is
    # repeated on a multi-line content witness longer than three times the largest of them (and of every integer
    # constant in the reader's source); `re` must still receive the whole content.
    from ..consts import interesting_ints
    r0 = MM.run_method(model, "get_matches", [], {"source": PATH, "is_path": True}, matches_for=lambda s: [])
    sizes = [n for fo in r0[2].files for n in fo.sizes] + sorted(interesting_ints([rf] if rf else [meths["get_matches"]]))
    scale = 3 * max(sizes + [100]) + 7
    line = "".join(chr(0x3b1 + i % 24) for i in range(36)) + "\n"
    long_text = (line * (scale // len(line) + 2))[:-1]
    for name in ("get_matches", "has_match", "replace"):
        if name not in meths:
            continue
        kw = {p: (PATH if p == "source" else True if p == "is_path" else "<repl>" if p == "repl" else 0) for p in meths[name].params
              if p in ("source", "is_path", "repl", "count")}
        hooks_setup = lambda o, h: setattr(h, "file_text", long_text)
        r = MM.run_method(model, name, [], kw, matches_for=lambda s: [], obj_setup=hooks_setup)
        seen = [c.get("subject") for c in r[2].calls if c.get("subject") is not None]
        where = rf or meths[name]
        inp = f"{name}(path) on a {len(long_text)}-character, {long_text.count(chr(10)) + 1}-line file (reader sizes seen: {sorted(set(sizes))[:6]})"
        ctx.instance("R-READER", key=f"scale:{name}", sample=f"{inp}: re received {[len(x) for x in seen]} characters")
        if r[0] == "raise" or not seen or any(x != long_text for x in seen):
            got = seen[0] if seen else ""
            ctx.violation("R-READER", where.relpath, where.short, "<content read>",
                          "the reader does not return the whole content of a long multi-line file", where.node.lineno,
                          inp=inp, detail=f"re received {len(got)} of {len(long_text)} characters" if r[0] != "raise" else f"raises {r[1].name}")

    # ---------------- R-WINDOW
    f = model.method(PRE, "Pregex", "iterate_matches_with_context")
    n = len(TEXT)
    spans = [(0, 0), (0, 2), (3, 5), (6, 6), (n - 2, n), (n, n), (0, n)]
    sizes = [0, 1, 2, 3, n - 3, n, n + 5]
    for (s, e), nl, nr, compiled in itertools.product(spans, sizes, sizes, (False,)):
        mf = lambda subj, s=s, e=e: [AbsMatch(subj, s, e)]
        kind, v, hooks, o = MM.run_method(model, "iterate_matches_with_context", [TEXT, nl, nr], compiled=compiled, matches_for=mf)
        want = [TEXT[max(s - nl, 0):min(e + nr, n)]]
        inp = f"match span=({s},{e}) n_left={nl} n_right={nr} len={n}"
        ctx.instance("R-WINDOW", key=inp, sample=f"{inp} -> {v!r}")
        if kind == "raise" or list(v) != want:
            ctx.violation("R-WINDOW", f.relpath, f.short, "<window slice>",
                          "the context window is not the match extended by up to n_left / n_right characters, clipped to the text",
                          f.node.lineno, inp=inp, detail=f"got {v!r}, required {want!r}")
    # several matches: one window per match, in order
    kind, v, hooks, o = MM.run_method(model, "iterate_matches_with_context", [TEXT, 1, 1], matches_for=MM.std_matches)
    want = [TEXT[max(m.s - 1, 0):min(m.e + 1, n)] for m in MM.std_matches(TEXT)]
    ctx.instance("R-WINDOW", key="multi", sample=f"5 matches, n_left=n_right=1 -> {v!r}")
    if kind == "raise" or list(v) != want:
        ctx.violation("R-WINDOW", f.relpath, f.short, "<window slice>", "one window per match, in order, is required",
                      f.node.lineno, inp="5 matches", detail=f"got {v!r}, required {want!r}")

    # ---------------- R-WINARGS
    for meth in ("iterate_matches_with_context", "get_matches_with_context"):
        f = model.method(PRE, "Pregex", meth)
        for which in ("n_left", "n_right"):
            for val, exc in (("x", T_EXC), (1.5, T_EXC), (True, T_EXC), (None, T_EXC), (-1, V_EXC), (-7, V_EXC)):
                kw = {"source": TEXT, "n_left": 1, "n_right": 1}
                kw[which] = val
                kind, v, hooks, o = MM.run_method(model, meth, [], kw, matches_for=MM.std_matches)
                inp = f"{meth}({which}={val!r})"
                ctx.instance("R-WINARGS", key=inp, sample=f"{inp} -> {kind} {getattr(v, 'name', '')}")
                if not (kind == "raise" and v.name == exc):
                    ctx.violation("R-WINARGS", f.relpath, f.short, f"validation of {which}",
                                  f"{which}={val!r} must raise {exc}", f.node.lineno, inp=inp,
                                  detail=f"{kind} {getattr(v, 'name', v)!r}")


def _reader_ok(rf):
    withs = [n for n in ast.walk(rf.node) if isinstance(n, ast.With)]
    if len(withs) != 1 or len(withs[0].items) != 1:
        return False, "expected exactly one `with open(...)`"
    call = withs[0].items[0].context_expr
    if not (isinstance(call, ast.Call) and isinstance(call.func, ast.Name) and call.func.id == "open"):
        return False, "the context manager is not open()"
    kw = {k.arg: k.value for k in call.keywords}
    pos = list(call.args)
    file = kw.get("file", pos[0] if pos else None)
    mode = kw.get("mode", pos[1] if len(pos) > 1 else None)
    enc = kw.get("encoding")
    param = rf.params[-1]
    if not (isinstance(file, ast.Name) and file.id == param):
        return False, "open() is not applied to the path parameter"
    if mode is not None and not (isinstance(mode, ast.Constant) and mode.value in ("r", "rt")):
        return False, f"file opened with mode {ast.unparse(mode)}"
    if not (isinstance(enc, ast.Constant) and str(enc.value).lower().replace("_", "-") in ("utf-8", "utf8")):
        return False, "file is not decoded as UTF-8"
    var = withs[0].items[0].optional_vars
    rets = [n for n in ast.walk(rf.node) if isinstance(n, ast.Return)]
    reads = [n for n in ast.walk(rf.node) if isinstance(n, ast.Call) and isinstance(n.func, ast.Attribute)
             and n.func.attr == "read" and isinstance(n.func.value, ast.Name) and isinstance(var, ast.Name)
             and n.func.value.id == var.id and not n.args]
    if not reads:
        return False, "the whole file is not read()"
    if len(rets) != 1:
        return False, "expected one return"
    rv = rets[0].value
    if isinstance(rv, ast.Call) and rv in reads:
        return True, "with open(path, 'r', encoding='utf-8') as f: return f.read()"
    if isinstance(rv, ast.Name):
        for n in ast.walk(rf.node):
            if isinstance(n, ast.Assign) and len(n.targets) == 1 and isinstance(n.targets[0], ast.Name) \
                    and n.targets[0].id == rv.id and n.value in reads:
                return True, "with open(path, 'r', encoding='utf-8') as f: text = f.read(); return text"
    return False, "the returned value is not the result of read()"
