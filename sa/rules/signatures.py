"""R-SIGNATURE - the public call signatures are those of the documented API.

A caller may pass every documented parameter by position or by keyword; renaming a parameter, reordering two
parameters or changing a default silently changes what existing calls mean (Decimal(0, 9, 1, 2, True) turning the
fifth argument from include_sign into is_extensible) while every keyword call - all the test-suite uses - keeps
working.  The reference is the frozen table spec/signatures.json (tools/gen_signatures.py, taken from the confirmed
tree; it agrees with the documented parameter lists).  The rule is prefix-compatibility: every documented parameter is
still there, at the same position, of the same kind, with the same default; additional parameters are fine when they
come after the documented ones and have defaults (nothing an existing call can observe)."""
from __future__ import annotations

import ast
import json
import os

from ..model import AnalysisError, Model

SPEC = os.path.join(os.path.dirname(os.path.dirname(os.path.dirname(os.path.abspath(__file__)))), "spec", "signatures.json")
MODULES = ["pregex.core.pre", "pregex.core.operators", "pregex.core.quantifiers", "pregex.core.groups", "pregex.core.assertions",
           "pregex.core.classes", "pregex.core.tokens", "pregex.meta.essentials"]


def public_entries(model: Model):
    """{'module:Class.__init__' | 'module:Class.method': FuncInfo} for the public surface."""
    out = {}
    for mn in MODULES:
        mod = model.modules.get(mn)
        if mod is None:
            continue
        for cname, ci in mod.classes.items():
            if cname.startswith("_"):
                continue
            init = ci.find_method("__init__")
            if init is not None:
                out[f"{mn}:{cname}.__init__"] = init
            if cname == "Pregex":
                for nm, f in ci.methods.items():
                    if not nm.startswith("_") or nm in ("__add__", "__radd__", "__mul__", "__rmul__"):
                        out[f"{mn}:{cname}.{nm}"] = f
    return out


def _default_text(f, d):
    """Source text of a default; a bare name bound to a module-level constant stands for that constant (its value is
    what a caller observes, not its spelling)."""
    if d is None:
        return None
    if isinstance(d, ast.Name):
        v = f.module.assigns.get(d.id)
        if isinstance(v, ast.Constant):
            return ast.unparse(v)
    return ast.unparse(d)


def describe(f):
    a = f.node.args
    ps = []
    pos = a.posonlyargs + a.args
    defaults = [None] * (len(pos) - len(a.defaults)) + list(a.defaults)
    for p, d in zip(pos, defaults):
        if p.arg in ("self", "cls"):
            continue
        ps.append({"name": p.arg, "kind": "pos", "default": _default_text(f, d)})
    if a.vararg is not None:
        ps.append({"name": a.vararg.arg, "kind": "vararg", "default": None})
    for p, d in zip(a.kwonlyargs, a.kw_defaults):
        ps.append({"name": p.arg, "kind": "kwonly", "default": _default_text(f, d)})
    if a.kwarg is not None:
        ps.append({"name": a.kwarg.arg, "kind": "kwarg", "default": None})
    return ps


def check(ctx, model: Model, rule: str, select):
    """select(key) -> bool picks the entry points this property is about."""
    try:
        spec = json.load(open(SPEC))
    except OSError as e:
        raise AnalysisError(f"R-SIGNATURE: reference table missing: {e}")
    cur = public_entries(model)
    n = 0
    for key, want in sorted(spec.items()):
        if not select(key):
            continue
        n += 1
        f = cur.get(key)
        ctx.instance(rule, key=("signature", key), sample=f"{key}({', '.join(p['name'] for p in want)})")
        if f is None:
            raise AnalysisError(f"anchor vanished: public entry point {key}")
        got = describe(f)
        why = None
        for i, w in enumerate(want):
            if i >= len(got):
                why = f"documented parameter {w['name']!r} is gone"
                break
            g = got[i]
            if g["name"] != w["name"]:
                why = f"position {i + 1} is {g['name']!r}, documented: {w['name']!r}"
                break
            if g["kind"] != w["kind"]:
                why = f"parameter {w['name']!r} is now {g['kind']}, documented: {w['kind']}"
                break
            if (g["default"] is None) != (w["default"] is None) or (w["default"] is not None and _norm(g["default"]) != _norm(w["default"])):
                why = f"default of {w['name']!r} is {g['default']}, documented: {w['default']}"
                break
        if why is None:
            for g in got[len(want):]:
                if g["kind"] in ("pos", "kwonly") and g["default"] is None:
                    why = f"new required parameter {g['name']!r}"
                    break
                if g["kind"] == "vararg" and any(w["kind"] == "pos" for w in want) and False:
                    why = "new *args"
        if why is not None:
            ctx.violation(rule, f.relpath, f.short, "<public signature>",
                          "the public signature differs from the documented one: existing positional / keyword calls change their meaning",
                          f.node.lineno, inp=key, detail=why)
    return n


def _norm(d):
    try:
        return ast.dump(ast.parse(d, mode="eval"))
    except SyntaxError:
        return d
