"""C05 - the empty pattern is neutral in every construction (R-EMPTY)."""
from __future__ import annotations

from ..interp import FuncRef
from . import builders as B
from . import quant
from .builders import PRE

EMPTY = ("Empty:''", "Empty", "", True)
NEG_EXC = "EmptyNegativeAssertionException"


def run(ctx, model):
    ctx.explanation = (
        "R-EMPTY: the abstract interpreter walks every builder with the Empty abstract operand (text '', type tag "
        "Empty - the classification of '' is read off __infer_type's first branch) substituted in each operand "
        "position named by the property: receiver of the 16 quantifier entry points (all bounds x laziness), "
        "receiver of capture/group, argument and receiver of concat/+/Concat, argument of enclose/Enclose, later "
        "alternative of either/Either, assertion of the 3 positive and 3 negative look-arounds (method and class "
        "form), and __Operator with 0/1 operands; the other operand ranges over every type tag.  Required outcome: "
        "the other operand itself (same syntax tree), the empty pattern, or EmptyNegativeAssertionException - so "
        "an expression with an empty sub-pattern is literally built from the empty-free sub-expression, at any depth.")
    ctx.assumptions += [
        "returning `self` is safe because operands are immutable (C20)",
        "Empty as FIRST alternative of Either is outside the property and not checked",
    ]
    B.prepare(model)
    # 1. quantifiers on the empty receiver (shares R-QUANT's machinery and specification)
    exhaustive, n, _ = quant.evaluate_all(
        ctx, model, "R-EMPTY/quantifier",
        select=lambda e, recv, argvals, exp: recv[1] == "Empty")
    ctx.exhaustive = exhaustive
    ctx.floor("R-EMPTY/quantifier", n, 16, "quantifier x bounds cases on the empty receiver")

    others = [s for s in B.operand_list("recv", ctx.tier) if s[1] != "Empty"]
    rule = "R-EMPTY"
    cnt = 0

    def judge(f, what, outs, want, inp):
        """want: ('same', text) | ('empty',) | ('raise', name)"""
        nonlocal cnt
        for o in outs:
            cnt += 1
            ctx.instance(rule, key=(what, inp), sample=f"{what} {inp} -> {o.describe()}  [required {want}]")
            ok, why = True, ""
            if want[0] == "raise":
                ok = o.kind == "raise" and o.exc.name == want[1]
                why = f"expected {want[1]}, got {o.describe()}"
            elif o.kind == "raise" or o.text is None:
                ok, why = False, f"expected {want}, got {o.describe()}"
            elif want[0] == "empty":
                ok, why = o.text == "", f"expected the empty pattern, got {o.describe()}"
            else:
                v, why = B.same_structure(o.text, want[1])
                ok = v is not False
            if not ok:
                file, func, line, construct = o.where(f)
                ctx.violation(rule, file, func, construct if o.kind == "raise" else f"{what}: <emitted pattern>",
                              f"{what}: the empty pattern is not neutral", line, inp=inp, detail=why)

    # 2. capture / group on the empty receiver
    for meth, xs in (("capture", (None, "nm")), ("group", (False, True))):
        for x in xs:
            outs, f = B.call_method_ident(model, meth, EMPTY, [], [x])
            judge(f, meth, outs, ("empty",), f"recv=Empty arg={x!r}")
    for cname, xs in (("Capture", (None, "nm")), ("Group", (False, True))):
        ci = model.cls("pregex.core.groups", cname)
        for x in xs:
            for e in (EMPTY, ""):
                outs = B.run_thunk(model, lambda it, e=e, x=x: it.construct(ci, [B.mk(model, e) if e else "", x]))
                judge(ci.find_method("__init__"), cname, outs, ("empty",), f"{cname}({'Pregex()' if e else repr(e)}, {x!r})")

    # 3. binary builders
    for o_spec in others + [EMPTY]:
        R = o_spec[2]
        for e_arg in (EMPTY, ""):
            earg = [e_arg] if e_arg else [""]
            lab = "Pregex()" if e_arg else "''"
            for extra in ((), (False,)):
                outs, f = B.call_method_ident(model, "concat", o_spec, earg, extra)
                judge(f, "concat", outs, ("same", R), f"recv={o_spec[0]} arg={lab} on_right={not extra}")
                outs, f = B.call_method_ident(model, "either", o_spec, earg, extra)
                judge(f, "either", outs, ("same", R), f"recv={o_spec[0]} later-alternative={lab} on_right={not extra}")
            if o_spec[1] != "Empty":
                outs, f = B.call_method_ident(model, "enclose", o_spec, earg)
                judge(f, "enclose", outs, ("same", R), f"recv={o_spec[0]} enclosing={lab}")
            for meth in B.POSITIVE:
                outs, f = B.call_method_ident(model, meth, o_spec, earg)
                judge(f, meth, outs, ("same", R), f"recv={o_spec[0]} assertion={lab}")
            for meth in B.NEGATIVE:
                outs, f = B.call_method_ident(model, meth, o_spec, earg)
                judge(f, meth, outs, ("raise", NEG_EXC), f"recv={o_spec[0]} assertion={lab}")
        # receiver Empty, argument non-empty: concat / + yield the argument
        if o_spec[1] != "Empty":
            outs, f = B.call_method_ident(model, "concat", EMPTY, [o_spec])
            judge(f, "concat", outs, ("same", R), f"recv=Empty arg={o_spec[0]}")
            for dunder in ("__add__", "__radd__"):
                df = model.method(PRE, "Pregex", dunder)
                outs = B.run_thunk(model, lambda it, df=df, o_spec=o_spec: it.call(FuncRef(df, B.mk(model, EMPTY), True), [B.mk(model, o_spec)]))
                judge(df, dunder, outs, ("same", R), f"Empty {dunder} {o_spec[0]}")
                outs = B.run_thunk(model, lambda it, df=df, o_spec=o_spec: it.call(FuncRef(df, B.mk(model, o_spec), True), [B.mk(model, EMPTY)]))
                judge(df, dunder, outs, ("same", R), f"{o_spec[0]} {dunder} Empty")

    # 4. class forms: 0 / 1 operands, empties at any position
    OPS = "pregex.core.operators"
    ASR = "pregex.core.assertions"
    for cname in ("Concat", "Either", "Enclose"):
        ci = model.cls(OPS, cname)
        init = ci.find_method("__init__")
        if cname != "Enclose":
            outs = B.run_thunk(model, lambda it, ci=ci: it.construct(ci, []))
            judge(init, cname, outs, ("empty",), f"{cname}()")
        for o_spec in others:
            R = o_spec[2]
            outs = B.run_thunk(model, lambda it, ci=ci, o_spec=o_spec: it.construct(ci, [B.mk(model, o_spec)]))
            judge(init, cname, outs, ("same", R), f"{cname}({o_spec[0]})")
            for e_arg in (EMPTY, ""):
                lab = "Pregex()" if e_arg else "''"
                mk_e = (lambda: B.mk(model, EMPTY)) if e_arg else (lambda: "")
                outs = B.run_thunk(model, lambda it, ci=ci, o_spec=o_spec, mk_e=mk_e: it.construct(ci, [B.mk(model, o_spec), mk_e()]))
                judge(init, cname, outs, ("same", R), f"{cname}({o_spec[0]}, {lab})")
                outs = B.run_thunk(model, lambda it, ci=ci, o_spec=o_spec, mk_e=mk_e: it.construct(ci, [B.mk(model, o_spec), mk_e(), mk_e()]))
                judge(init, cname, outs, ("same", R), f"{cname}({o_spec[0]}, {lab}, {lab})")
        # empties between two non-empty operands: same as without them
        a, b = others[0], others[-1]
        b = (b[0], b[1], b[2].replace("s", "p").replace("t", "q").replace("u", "r"), b[3])
        ref_outs = B.run_thunk(model, lambda it, ci=ci: it.construct(ci, [B.mk(model, a), B.mk(model, b)]))
        refs = sorted({o.text for o in ref_outs if o.text is not None})
        outs = B.run_thunk(model, lambda it, ci=ci: it.construct(ci, [B.mk(model, a), B.mk(model, EMPTY), B.mk(model, b), ""]))
        got = sorted({o.text for o in outs if o.text is not None})
        cnt += 1
        ctx.instance(rule, key=(cname, "middle"), sample=f"{cname}(a, Pregex(), b, '') -> {got} vs {cname}(a, b) -> {refs}")
        mismatch = [g for g in got if not any(B.same_structure(g, r)[0] for r in refs)]
        if mismatch or not got or any(o.kind == "raise" for o in outs):
            ctx.violation(rule, init.relpath, init.short, f"{cname}: <emitted pattern>",
                          f"{cname}: empty operands between non-empty ones change the result", init.node.lineno,
                          inp=f"{cname}({a[0]}, Empty, {b[0]}, '')", detail=f"{got} vs {refs}")
    for cname, (modname, meth, kind) in B.CLASS_FORMS.items():
        if kind != "fold2":
            continue
        ci = model.cls(modname, cname)
        init = ci.find_method("__init__")
        for o_spec in others:
            for e_arg in (EMPTY, ""):
                lab = "Pregex()" if e_arg else "''"
                mk_e = (lambda: B.mk(model, EMPTY)) if e_arg else (lambda: "")
                outs = B.run_thunk(model, lambda it, ci=ci, o_spec=o_spec, mk_e=mk_e: it.construct(ci, [B.mk(model, o_spec), mk_e()]))
                want = ("same", o_spec[2]) if meth in B.POSITIVE else ("raise", NEG_EXC)
                judge(init, cname, outs, want, f"{cname}({o_spec[0]}, {lab})")
    # 5. every operand a plain string (the word-list form): the empty string is as neutral as Pregex() - the call emits
    #    exactly what the same call with Pregex(s) operands emits (nothing replaced: classifier interpreted)
    P = model.pregex
    for cname in ("Concat", "Either", "Enclose"):
        ci = model.cls(OPS, cname)
        init = ci.find_method("__init__")
        for strs in (["ab", ""], ["", "ab"], ["ab", "", "cd"], ["", ""], ["ab", "cd", ""], ["", "ab", "", "c.d"], ["a|b", ""]):
            as_str = B.run_thunk(model, lambda it, ci=ci, strs=strs: it.construct(ci, list(strs)), real_classifier=True, fuel_factor=200)
            as_pre = B.run_thunk(model, lambda it, ci=ci, strs=strs: it.construct(ci, [it.construct(P, [x]) for x in strs]), real_classifier=True, fuel_factor=200)
            d = lambda outs: sorted((o.text if o.kind == "return" else "!" + o.exc.name) for o in outs)
            inp = f"{cname}({', '.join(repr(x) for x in strs)})"
            cnt += 1
            ctx.instance(rule, key=("all strings", inp), sample=f"{inp} -> {d(as_str)[:1]}")
            if d(as_str) != d(as_pre):
                ctx.violation(rule, init.relpath, init.short, f"{cname}: all operands plain strings",
                              f"{cname}: an empty string among plain-string operands is not neutral (the call differs from the same call with Pregex operands)",
                              init.node.lineno, inp=inp, detail=f"strings: {d(as_str)[:2]}; Pregex operands: {d(as_pre)[:2]}")
    ctx.floor(rule, cnt, 400, "empty-operand cases")
