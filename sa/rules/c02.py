"""C02 - composition keeps every sub-pattern intact (automatic grouping).

R-TABLE   grouping decisions >= the minimum imposed by regex operator precedence
R-HOLE    every builder, on every operand type/witness, emits text whose syntax tree
          (CPython's parser) equals that of the fully parenthesised composition
R-DELEG   class form / operator form / method form of one expression emit the same text
R-COMPOSE depth-2 compositions over adversarial leaves, with Pregex.__infer_type interpreted (no type oracle): the
          emitted text has the syntax tree of the fully parenthesised reference (emitter <-> classifier agreement)
"""
from __future__ import annotations

import ast

from ..interp import FuncRef, Obj
from ..model import AnalysisError, norm_text
from . import builders as B
from .builders import PRE

# minimum grouping demanded by precedence: accessor -> types that MUST be grouped
MINIMUM = {
    "_quantify_conditional_group": {"Alternation", "Assertion", "Other", "Quantifier"},
    "_concat_conditional_group": {"Alternation"},
    "_assert_conditional_group": {"Alternation"},
}
# exceptions a builder may legitimately raise on non-empty operands (other properties decide when)
ALLOWED_EXC = {m: {"NonFixedWidthPatternException"} for m in B.LOOKBEHIND}


def text_use_precondition(model):
    """Prefix/suffix-domain sufficiency: builder bodies look at operand text only through
    emission, startswith/replace/re.sub/re.match/re.search/re.fullmatch with constant
    patterns, and constant slices."""
    allowed_attr_calls = {"startswith", "replace", "sub", "match", "search", "fullmatch", "group",
                          "_to_pregex", "_get_type", "_is_repeatable", "_concat_conditional_group",
                          "_quantify_conditional_group", "_assert_conditional_group", "capture", "concat",
                          "exactly", "either", "enclose", "isidentifier"}
    bad = []
    n = 0
    names = list(B.BINARY_REF) + list(B.UNARY_REF) + ["capture", "group"]
    for meth in names:
        f = model.method(PRE, "Pregex", meth)
        n += 1
        for node in (x for st in f.node.body for x in ast.walk(st)):
            if isinstance(node, ast.Call) and isinstance(node.func, ast.Attribute):
                if node.func.attr not in allowed_attr_calls and not node.func.attr.endswith("Exception"):
                    bad.append(f"{f.relpath}:{node.lineno} {f.short}: call `{norm_text(node)[:60]}`")
            if isinstance(node, ast.Subscript):
                s = node.slice
                parts = [s.lower, s.upper, s.step] if isinstance(s, ast.Slice) else [s]
                for p in parts:
                    if p is not None and not (isinstance(p, ast.Constant) or
                                              (isinstance(p, ast.UnaryOp) and isinstance(p.operand, ast.Constant))):
                        bad.append(f"{f.relpath}:{node.lineno} {f.short}: non-constant subscript `{norm_text(node)}`")
            if isinstance(node, (ast.For, ast.While)):
                bad.append(f"{f.relpath}:{node.lineno} {f.short}: loop in builder")
    return n, bad


def run(ctx, model):
    from . import signatures as _sig
    _n_sig = _sig.check(ctx, model, "R-SIGNATURE", lambda k: k.startswith('pregex.core.operators:') or k.split('.')[-1] in ('concat', 'either', 'enclose', '__add__', '__radd__'))
    ctx.floor("R-SIGNATURE", _n_sig, 1, "public entry points")
    ctx.explanation = (
        "R-TABLE: the three conditional-group accessors are evaluated (abstract interpretation of the accessor, "
        "rule-lookup and group() bodies) for every operand type tag and must group at least what regex operator "
        "precedence requires.  R-HOLE: each of the 15 non-quantifier builders is walked for every receiver type "
        "x argument type (several witnesses each) and the emitted text must parse - with CPython's own regex "
        "parser - to the same syntax tree as the reference that wraps every operand in (?:...); a syntactic scan "
        "first proves the builders look at operand text only through emission/prefix tests/constant rewrites, so "
        "witnesses per syntactic category are representative.  R-DELEG: every class form and operator form is "
        "interpreted (base-class __init__ and `transform` lambdas bound per call site) and must emit the same "
        "text as the method form on the same abstract operands.")
    ctx.assumptions += [
        "Pregex.__infer_type assigns the right type tag to run-time text (heuristic over all strings; not decided)",
        "quantifier holes are decided under C04 with the same parser oracle",
        "trusted base: CPython ast and re._parser; /verif/sa interpreter",
    ]
    B.prepare(model)
    n_scanned, bad = text_use_precondition(model)
    if bad:
        ctx.note("prefix/suffix sufficiency precondition failed: " + "; ".join(bad[:3]))
    ctx.exhaustive = not bad

    recvs = B.operand_list("recv", ctx.tier)
    args = B.operand_list("arg", ctx.tier)

    # ---------------- R-TABLE
    n_cells = 0
    for acc, must in MINIMUM.items():
        f = model.method(PRE, "Pregex", acc)
        for spec in recvs:
            label, tname, text, rep = spec
            if tname == "Empty":
                continue

            def thunk(it, f=f, spec=spec):
                return it.call(FuncRef(f, B.mk(model, spec), True), [])
            for o in B.run_thunk(model, thunk):
                n_cells += 1
                ctx.instance("R-TABLE", key=(acc, label), sample=f"{acc} on {label} -> {o.value!r}")
                if o.kind == "raise" or not isinstance(o.value, str):
                    ctx.violation("R-TABLE", f.relpath, f.short, "<accessor result>",
                                  f"{acc} does not return text for a {tname} operand", f.node.lineno,
                                  inp=label, detail=o.describe())
                    continue
                grouped = o.value != text
                if tname in must and not grouped:
                    ctx.violation("R-TABLE", f.relpath, f.short, f"no grouping for {tname}",
                                  f"{acc} leaves a {tname} operand ungrouped although precedence requires a group",
                                  f.node.lineno, inp=label, detail=f"{text!r} -> {o.value!r}")
                if grouped:
                    ok, why = B.same_structure(o.value, f"(?:{text})")
                    if ok is False:
                        ctx.violation("R-TABLE", f.relpath, f.short, f"grouping rewrites {tname}",
                                      f"{acc} changes the operand instead of only grouping it", f.node.lineno,
                                      inp=label, detail=why)
    ctx.floor("R-TABLE", n_cells, 3 * 14, "accessor x type cells")

    # ---------------- R-HOLE
    n_hole = 0
    for meth, ref in B.UNARY_REF.items():
        for spec in recvs:
            if spec[1] == "Empty":
                continue
            outs, f = B.call_method_ident(model, meth, spec)
            n_hole += _judge(ctx, "R-HOLE", f, meth, outs, ref(spec[2]), f"{meth} recv={spec[0]}", set())
    def hole_item(ctx, item):
        meth, spec, a, extra = item
        ref = B.BINARY_REF[meth]
        outs, f = B.call_method_ident(model, meth, spec, [a], extra, {})
        R, A = spec[2], a[2]
        r = ref(R, A)
        if extra == (False,):
            r = {"concat": f"(?:{A})(?:{R})", "either": f"(?:{A})|(?:{R})"}[meth]
        return _judge(ctx, "R-HOLE", f, meth, outs, r,
                      f"{meth}{'(on_right=False)' if extra else ''} recv={spec[0]} arg={a[0]}",
                      ALLOWED_EXC.get(meth, set()))
    items = [(meth, spec, a, extra) for meth in B.BINARY_REF for spec in recvs if spec[1] != "Empty"
             for a in args if a[1] != "Empty" for extra in (((), (False,)) if meth in ("concat", "either") else ((),))]
    n_hole += sum(ctx.parallel(items, hole_item))
    # confusable texts: one operand ends (starts) with the other operand's text, but escaped - 's\\\\b' next to '\\b',
    # 's\\$' next to '$': a builder that inspects the text of its operands must not mistake one for the other
    from ..absdom import parse_regex
    import re as _re

    def _valid(t):
        try:
            parse_regex(t)
            return True
        except _re.error:
            return False
    def confusable_item(ctx, meth):
        ref = B.BINARY_REF[meth]
        n = 0
        pairs = []
        for a in args:
            if a[1] not in ("Empty",):
                for rt in ("s\\" + a[2], a[2] + "s", "s" + a[2][1:] if a[2].startswith("\\") else None):
                    if rt and rt != a[2] and _valid(rt) and _valid(a[2] + rt) and a[1] in ("Assertion", "Token", "Class"):
                        pairs.append(((f"Other:{rt!r}", "Other", rt, True), a))
        for rcv in recvs:
            if rcv[1] in ("Assertion", "Token", "Class"):
                at = "p\\" + rcv[2]
                if _valid(at):
                    pairs.append((rcv, (f"Other:{at!r}", "Other", at, True)))
        for spec, a in pairs:
            outs, f = B.call_method_ident(model, meth, spec, [a])
            n += _judge(ctx, "R-HOLE", f, meth, outs, ref(spec[2], a[2]), f"{meth} recv={spec[0]} arg={a[0]} [confusable texts]",
                        ALLOWED_EXC.get(meth, set()))
        # bare anchors / shorthands against a literal that ends (starts) with the same characters escaped; types from
        # the interpreted classifier
        mf = model.method(PRE, "Pregex", meth)
        P = model.pregex
        for anchor in ("\\b", "\\B", "$", "^", "\\Z", "\\A", "\\d", "."):
            for rt in ("s\\" + anchor, "\\" + anchor + "s", "s\\" + anchor + "t", "\\" + anchor):
                for swap in (False, True):
                    x, y = (anchor, rt) if swap else (rt, anchor)

                    def thunk(it, x=x, y=y):
                        r = it.construct(P, [x], {"escape": False})
                        a_ = it.construct(P, [y], {"escape": False})
                        return it.call(FuncRef(mf, r, True), [a_])
                    outs = B.run_thunk(model, thunk, real_classifier=True)
                    n += _judge(ctx, "R-HOLE", mf, meth, outs, ref(x, y), f"{meth} recv={x!r} arg={y!r} [confusable texts]",
                                ALLOWED_EXC.get(meth, set()) | {"NonFixedWidthPatternException", "CannotBeRepeatedException"})
        return n
    n_hole += sum(ctx.parallel(list(B.BINARY_REF), confusable_item, min_items=2))
    for meth, mk_ref in (("capture", lambda R, x: f"({R})" if x is None else f"(?P<{x}>{R})"),
                         ("group", lambda R, x: f"(?i:{R})" if x else f"(?:{R})")):
        for spec in recvs:
            if spec[1] in ("Empty", "Group"):
                continue   # Group-typed receivers are rewritten, not wrapped: C08
            for x in ((None, "nm") if meth == "capture" else (False, True)):
                outs, f = B.call_method_ident(model, meth, spec, [], [x])
                n_hole += _judge(ctx, "R-HOLE", f, meth, outs, mk_ref(spec[2], x), f"{meth}({x!r}) recv={spec[0]}", set())
    n_hole += _conditional(ctx, model, recvs, args)
    ctx.floor("R-HOLE", n_hole, 500, "builder x operand cases")

    # ---------------- R-DELEG
    n_deleg = _deleg(ctx, model, recvs, args)
    n_deleg += B.same_object_twice(ctx, model, "R-DELEG", [("Alternation:'p|q'", "Alternation", "p|q", True), ("Group:'(p)'", "Group", "(p)", True)])
    ctx.floor("R-DELEG", n_deleg, 60, "spelling comparisons")
    # ---------------- R-TYPED (what an object IS does not depend on the spelling that built it)
    n_typed = _typed(ctx, model)
    ctx.floor("R-TYPED", n_typed, 150, "spelling pairs compared as objects")
    # ---------------- R-COMPOSE (depth-2 composition with the real classifier)
    from . import compose
    recs = compose.run_all(ctx, model)
    n_comp = compose.judge_c02(ctx, model, recs)
    ctx.floor("R-COMPOSE", n_comp, 5000, "depth-1 / depth-2 emissions")
    ctx.extra["compose_depth1_expressions"] = len(recs)
    ctx.extra["builders"] = len(B.UNARY_REF) + len(B.BINARY_REF) + 2
    ctx.extra["precondition_scanned_functions"] = n_scanned


def _conditional(ctx, model, recvs, args):
    """Conditional(name, pre1[, pre2]) must keep both operands intact: (?(name)(?:P1)|(?:P2))."""
    ci = model.cls("pregex.core.groups", "Conditional")
    init = ci.find_method("__init__")
    n = 0
    yes = [r for r in recvs if r[1] != "Empty"]
    no = [a for a in args if a[1] != "Empty"]
    for r in yes:
        for a in [None] + no:
            def thunk(it, r=r, a=a):
                return it.construct(ci, ["nm", B.mk(model, r)] + ([B.mk(model, a)] if a is not None else []))
            outs = B.run_thunk(model, thunk)
            ref = f"(?P<nm>x)(?(nm)(?:{r[2]})" + (f"|(?:{a[2]})" if a is not None else "") + ")"
            for o in outs:
                if o.text is not None:
                    o.text = "(?P<nm>x)" + o.text
            n += _judge(ctx, "R-HOLE", init, "Conditional", outs, ref,
                        f"Conditional('nm', {r[0]}{', ' + a[0] if a else ''})", set())
    return n


def _judge(ctx, rule, f, meth, outs, ref, inp, allowed_exc):
    n = 0
    for o in outs:
        n += 1
        ctx.instance(rule, key=inp, sample=f"{inp} -> {o.describe()}  [reference {ref!r}]")
        if o.kind == "raise":
            if o.exc.name in allowed_exc:
                continue
            file, func, line, construct = o.where(f)
            ctx.violation(rule, file, func, construct, f"{meth}: unexpected {o.exc.name} on non-empty operands",
                          line, inp=inp, detail=o.describe())
            continue
        if o.text is None:
            ctx.violation(rule, f.relpath, f.short, "<return value>", f"{meth} does not return a pattern",
                          f.node.lineno, inp=inp, detail=o.describe())
            continue
        ok, why = B.same_structure(o.text, ref)
        if ok is False:
            ctx.violation(rule, f.relpath, f.short, "<emitted pattern>",
                          f"{meth}: an operand is not kept intact (operator binds to a fragment / swallows a neighbour)",
                          f.node.lineno, inp=inp, detail=why)
    return n


def _texts(outs):
    """choices -> outcome description (text or exception name)."""
    d = {}
    for o in outs:
        d[o.choices] = o.text if o.kind == "return" else f"!{o.exc.name}"
    return d


def _deleg(ctx, model, recvs, args):
    n = 0
    tasks = []

    import types

    def _snap(fn):
        """Copy of a closure with its free variables frozen at their current values (the loops below rebind them)."""
        if not isinstance(fn, types.FunctionType) or fn.__closure__ is None:
            return fn
        cells = []
        for c in fn.__closure__:
            try:
                cells.append(types.CellType(c.cell_contents))
            except ValueError:
                cells.append(c)
        g = types.FunctionType(fn.__code__, fn.__globals__, fn.__name__, fn.__defaults__, tuple(cells))
        g.__kwdefaults__ = fn.__kwdefaults__
        return g

    def _cmp(ctx_, model_, *a, **kw):      # deferred: all comparisons are evaluated in parallel at the end
        tasks.append((tuple(_snap(x) for x in a), kw))
        return 0
    some_r = [r for r in recvs if r[1] != "Empty"]
    some_a = [a for a in args if a[1] != "Empty"]
    # keep the product small but covering every type on each side
    import zlib
    pairs = [(r, a) for r in some_r for a in some_a if (zlib.crc32((r[0] + a[0]).encode()) % 4 == 0 or ctx.tier == "thorough")]
    if len(pairs) < 20:
        pairs = [(r, a) for r in some_r for a in some_a]
    for cname, (modname, meth, kind) in B.CLASS_FORMS.items():
        ci = model.cls(modname, cname)
        init = ci.find_method("__init__")
        mf = model.method(PRE, "Pregex", meth)
        if kind in ("fold", "fold2"):
            for r, a in pairs:
                def class_form(it, r=r, a=a):
                    return it.construct(ci, [B.mk(model, r), B.mk(model, a)])

                def method_form(it, r=r, a=a):
                    return it.call(FuncRef(mf, B.mk(model, r), True), [B.mk(model, a)])
                n += _cmp(ctx, model, cname, meth, init, class_form, method_form, f"{cname}({r[0]}, {a[0]})")
            # three operands: left fold
            r, a = pairs[0]
            b = some_a[-1]

            def class3(it, r=r, a=a, b=b):
                return it.construct(ci, [B.mk(model, r), B.mk(model, a), B.mk(model, b)])

            def method3(it, r=r, a=a, b=b):
                x = it.call(FuncRef(mf, B.mk(model, r), True), [B.mk(model, a)])
                return it.call(FuncRef(mf, x, True), [B.mk(model, b)])
            n += _cmp(ctx, model, cname, meth, init, class3, method3, f"{cname}({r[0]}, {a[0]}, {b[0]}) [left fold]")
            # six operands: still the same left fold
            ops6 = [pairs[i % len(pairs)][i % 2] for i in range(6)]

            def class6(it, ops6=ops6):
                return it.construct(ci, [B.mk(model, o) for o in ops6])

            def method6(it, ops6=ops6):
                x = B.mk(model, ops6[0])
                for o in ops6[1:]:
                    x = it.call(FuncRef(mf, x, True), [B.mk(model, o)])
                return x
            n += _cmp(ctx, model, cname, meth, init, class6, method6, f"{cname}(6 operands) [left fold]", real=True)
            # the empty pattern at every position of 4..7 operands (a neutral operand must be neutral wherever it stands)
            empties = [r for r in recvs if r[1] == "Empty"]
            for k in (4, 5, 6, 7) if empties else ():
                base = [pairs[(i + k) % len(pairs)][i % 2] for i in range(k)]
                for pos in [(i,) for i in range(k)] + [(0, 2), (2, k - 1), (1, 3)]:
                    opsk = [empties[0] if i in pos else o for i, o in enumerate(base)]

                    def classk(it, opsk=opsk):
                        return it.construct(ci, [B.mk(model, o) for o in opsk])

                    def methodk(it, opsk=opsk):
                        x = B.mk(model, opsk[0])
                        for o in opsk[1:]:
                            x = it.call(FuncRef(mf, x, True), [B.mk(model, o)])
                        return x
                    n += _cmp(ctx, model, cname, meth, init, classk, methodk,
                              f"{cname}({k} operands, empty pattern at {list(pos)}) [left fold]", real=True)
        else:
            extras = {"unary": [()], "unary+name": [(None,), ("nm",)], "unary+flag": [(False,), (True,)]}[kind]
            for r in some_r:
                for extra in extras:
                    def class_form(it, r=r, extra=extra):
                        return it.construct(ci, [B.mk(model, r)] + list(extra))

                    def method_form(it, r=r, extra=extra):
                        return it.call(FuncRef(mf, B.mk(model, r), True), list(extra))
                    n += _cmp(ctx, model, cname, meth, init, class_form, method_form, f"{cname}({r[0]}{', ' + repr(extra[0]) if extra else ''})")
    # operator forms
    concat = model.method(PRE, "Pregex", "concat")
    for dunder, swap in (("__add__", False), ("__radd__", True)):
        df = model.method(PRE, "Pregex", dunder)
        for r, a in pairs:
            def op_form(it, r=r, a=a, swap=swap):
                x, y = B.mk(model, r), B.mk(model, a)
                return it.call(FuncRef(df, x, True), [y])

            def method_form(it, r=r, a=a, swap=swap):
                x, y = B.mk(model, r), B.mk(model, a)
                if swap:   # y + x  ==  y.concat(x)
                    return it.call(FuncRef(concat, y, True), [x])
                return it.call(FuncRef(concat, x, True), [y])
            n += _cmp(ctx, model, dunder, "concat", df, op_form, method_form,
                      f"{'arg + recv' if swap else 'recv + arg'} recv={r[0]} arg={a[0]}")
    return n + sum(ctx.parallel(tasks, lambda c, t: _cmp_now(c, model, *t[0], **t[1])))


def _cmp_now(ctx, model, spelling, meth, func, form_a, form_b, inp, real=False):
    a = _texts(B.run_thunk(model, form_a, real_classifier=real))
    b = _texts(B.run_thunk(model, form_b, real_classifier=real))
    ctx.instance("R-DELEG", key=(spelling, inp), sample=f"{inp}: {sorted(set(a.values()))[:3]} vs method {meth}: {sorted(set(b.values()))[:3]}")
    if sorted(a.values()) != sorted(b.values()) or (set(a) == set(b) and a != b):
        ctx.violation("R-DELEG", func.relpath, func.short, f"{spelling} vs Pregex.{meth}",
                      f"spelling {spelling} does not emit what method {meth} emits on the same operands",
                      func.node.lineno, inp=inp,
                      detail=f"{spelling}: {sorted(set(a.values()))[:4]}  method: {sorted(set(b.values()))[:4]}")
    return 1


def _typed(ctx, model):
    """R-TYPED: class form, method form and operator form of one expression yield objects with the same pattern text,
    the same type tag and the same repeatable flag (the tag decides whether LATER operations wrap the pattern: a
    spelling that mis-tags its result keeps the sub-pattern intact only until it is composed once more).  Nothing is
    replaced: constructors, builders and the classifier are interpreted; the tag and the flag are read through the
    probed instance layout."""
    from ..absdom import slot_of
    from . import quant as Q
    P = model.pregex
    OPS, GRP, CLSM, ASR = "pregex.core.operators", "pregex.core.groups", "pregex.core.classes", "pregex.core.assertions"
    leaves = [
        ("'a'", lambda it: it.construct(P, ["a"])),
        ("'ab'", lambda it: it.construct(P, ["ab"])),
        ("Either('ab','cd')", lambda it: it.construct(model.cls(OPS, "Either"), ["ab", "cd"])),
        ("AnyDigit()", lambda it: it.construct(model.cls(CLSM, "AnyDigit"), [])),
        ("Capture('ab')", lambda it: it.construct(model.cls(GRP, "Capture"), ["ab"])),
        ("Optional('ab')", lambda it: it.construct(model.cls(Q.QU, "Optional"), ["ab"])),
        ("MatchAtStart('a')", lambda it: it.construct(model.cls(ASR, "MatchAtStart"), ["a"])),
        ("Pregex('')", lambda it: it.construct(P, [""])),
    ]
    forms = []      # (label, class name, module, method name, extra args)
    for cname, meth in Q.CLASS_TO_METHOD.items():
        np = len([p_ for p_ in model.cls(Q.QU, cname).find_method("__init__").params if p_ in ("n", "m")])
        grids = {0: [()], 1: [(0,), (1,), (2,)] + ([(None,)] if cname == "AtMost" else []),
                 2: [(0, 0), (0, 1), (1, 1), (0, None), (1, None), (2, 3), (2, 2)]}[np]
        for ex in grids:
            forms.append((f"{cname}(p{''.join(', ' + repr(x) for x in ex)})", cname, Q.QU, meth, list(ex)))
            if cname in ("Optional", "AtLeastAtMost", "AtMost") and ex in ((), (0, 1), (1, 1), (1,)):
                forms.append((f"{cname}(p{''.join(', ' + repr(x) for x in ex)}, is_greedy=False)", cname, Q.QU, meth, list(ex) + [False]))
    for cname, (modname, meth, kind) in B.CLASS_FORMS.items():
        for ex in {"fold": [("x",)], "fold2": [("x",)], "unary": [()], "unary+name": [(None,), ("nm",)], "unary+flag": [(False,), (True,)]}[kind]:
            forms.append((f"{cname}(p{''.join(', ' + repr(x) for x in ex)})", cname, modname, meth, list(ex)))

    def describe(o):
        if o.kind == "raise":
            return ("raise", o.exc.name)
        t = slot_of(model, o.value, "type")
        return ("object", o.text, getattr(t, "name", repr(t)), slot_of(model, o.value, "rep"))

    def item(c2, job):
        (llabel, mk), (flabel, cname, modname, meth, ex) = job
        ci = model.cls(modname, cname)
        mf = model.method(PRE, "Pregex", meth)
        a = B.run_thunk(model, lambda it: it.construct(ci, [mk(it)] + list(ex)), real_classifier=True, fuel_factor=200)
        b = B.run_thunk(model, lambda it: it.call(FuncRef(mf, mk(it), True), list(ex)), real_classifier=True, fuel_factor=200)
        da, db = [describe(o) for o in a], [describe(o) for o in b]
        inp = flabel.replace("(p", "(" + llabel, 1)
        c2.instance("R-TYPED", key=inp, sample=f"{inp}: {da[:1]} = method {meth}: {db[:1]}")
        if da != db:
            f = ci.find_method("__init__")
            c2.violation("R-TYPED", f.relpath, f"{cname}.__init__", f"{cname} vs Pregex.{meth}",
                         "the class form yields an object that differs from what the method form yields on the same operand "
                         "(pattern text, type tag or repeatable flag): later operations will group it differently",
                         f.node.lineno, inp=inp, detail=f"class form: {da[:2]}  method form: {db[:2]}")
        return 1
    jobs = [(lf, fm) for lf in leaves for fm in forms]
    if ctx.tier == "quick":
        jobs = [j for i, j in enumerate(jobs) if j[0][0] in ("'ab'", "Either('ab','cd')", "MatchAtStart('a')") or i % 3 == 0]
    n = sum(ctx.parallel(jobs, item))
    # operator spellings of repetition
    mul, rmul, exactly = (model.method(PRE, "Pregex", m_) for m_ in ("__mul__", "__rmul__", "exactly"))
    for llabel, mk in leaves:
        for k in (0, 1, 2):
            ref = [describe(o) for o in B.run_thunk(model, lambda it: it.call(FuncRef(exactly, mk(it), True), [k]), real_classifier=True, fuel_factor=200)]
            for f, lab in ((mul, f"{llabel} * {k}"), (rmul, f"{k} * {llabel}")):
                got = [describe(o) for o in B.run_thunk(model, lambda it: it.call(FuncRef(f, mk(it), True), [k]), real_classifier=True, fuel_factor=200)]
                ctx.instance("R-TYPED", key=lab, sample=f"{lab}: {got[:1]}")
                n += 1
                if got != ref:
                    ctx.violation("R-TYPED", f.relpath, f.short, f"{f.node.name} vs Pregex.exactly",
                                  "the operator form yields an object that differs from what exactly() yields", f.node.lineno, inp=lab,
                                  detail=f"operator: {got[:2]}  exactly: {ref[:2]}")
    return n
