"""C03 - every call yields a compilable, exportable pattern or a documented exception.

R-RAISE   every `raise` in the package raises a class of pregex.core.exceptions; no try/except swallows errors
R-TERM    the call graph has no cycle except direct self-recursion, and each self-recursive call is guarded by a
          progress test (the recursive argument is compared with the parameter it replaces)
R-TOTAL   abstract interpretation of every public pattern-building entry point with every parameter set, one at a
          time, to each kind of invalid value (None, int, float, bool, str, '', list, negative, huge, Pregex):
          the outcome is a return or a library exception documented for that entry - never a builtin error
R-COMPILE every text returned in that sweep is accepted by CPython's regex parser under the library's flags
R-EXPORT  get_pattern() of a pattern text is printable and parses to the same regex as the text itself, for every
          valid regex over an adversarial alphabet (backslash, n, newline, tab, quotes, non-ASCII) up to length 4/5
"""
from __future__ import annotations

import ast
import itertools
import re

from ..absdom import FLAGS, PregexHooks, compiles, make_operand, parse_regex
from ..interp import FuncRef, Incomplete, Interp, Obj, PyRaise
from ..model import AnalysisError, Model, mangle, norm_text
from .. import finlang as FL
from . import builders as B
from .builders import PRE

EXC_MOD = "pregex.core.exceptions"
CORE_BUILD_MODULES = ["pregex.core.operators", "pregex.core.quantifiers", "pregex.core.groups", "pregex.core.assertions",
                      "pregex.core.classes", "pregex.core.tokens"]
ESS = "pregex.meta.essentials"
BAD_VALUES = [None, 5, 0, -1, 1.5, True, "x", "", "xy", [], ["a"], 10, 100, 10 ** 6]
FIXTURE = """
def f(x):
    try:
        return g(x)
    except Exception:
        pass
    raise ValueError("builtin")
"""


def documented(f):
    """Exception names in the :raises: clauses of a function's (and its class's) docstring."""
    names = set()
    docs = [ast.get_docstring(f.node) or ""]
    if f.cls is not None:
        docs.append(ast.get_docstring(f.cls.node) or "")
    for d in docs:
        names.update(re.findall(r":raises\s+(\w+)", d))
    return names


def run(ctx, model: Model):
    from . import signatures as _sig
    _n_sig = _sig.check(ctx, model, "R-SIGNATURE", lambda k: True)
    ctx.floor("R-SIGNATURE", _n_sig, 1, "public entry points")
    ctx.explanation = __doc__.strip().replace("\n", " ")
    ctx.assumptions += [
        "not decided: termination of the `while` worklists of the class algebra for arbitrary operands (C07 explores them on small "
        "alphabets), compilability of texts built from arbitrary run-time operands (C02 decides the grouping discipline), and "
        "hash-seed independence of class text (C20)",
        "Integer/Decimal digit generators are swept for their argument validation only (C15 not applicable)",
    ]
    ctx.exhaustive = False
    exc_classes = set(model.module(EXC_MOD).classes)

    # ---------------- R-RAISE (+ positive control)
    ft = ast.parse(FIXTURE)
    fx = [n for n in ast.walk(ft) if (isinstance(n, ast.Try) and _swallowing_handlers(n)) or isinstance(n, ast.Raise)]
    if len(fx) != 2:
        raise AnalysisError("positive control of R-RAISE failed")
    ctx.instance("R-RAISE", key="fixture", sample="positive control: try/except and builtin raise are seen in the fixture")
    n_raise = 0
    for m in model.modules.values():
        for node in ast.walk(m.tree):
            if isinstance(node, ast.Try) or (hasattr(ast, "TryStar") and isinstance(node, ast.TryStar)):
                # EAFP around one operation (`except KeyError: raise <library exception>`, `except StopIteration: ...`)
                # is fine; what may swallow arbitrary errors is a bare handler or one for Exception / BaseException
                for h in _swallowing_handlers(node):
                    ctx.violation("R-RAISE", m.relpath, _owner(model, node), "try statement",
                                  "library code catches every exception (errors may be swallowed): "
                                  f"`except{' ' + ast.unparse(h.type) if h.type is not None else ''}:`", h.lineno)
            if isinstance(node, ast.Raise):
                n_raise += 1
                exc = node.exc
                name = None
                if isinstance(exc, ast.Call):
                    exc = exc.func
                if isinstance(exc, ast.Attribute):
                    name = exc.attr
                elif isinstance(exc, ast.Name):
                    name = exc.id
                ctx.instance("R-RAISE", key=(m.relpath, _owner(model, node), norm_text(node)[:60]), sample=f"{m.relpath}:{node.lineno} raise {name}")
                if name not in exc_classes and isinstance(exc, ast.Name) and _param_is_library_exception(model, node, exc.id, exc_classes):
                    continue        # the exception class is a parameter; every call site passes a library exception class
                if name not in exc_classes and isinstance(node.exc, ast.Call) and _returns_library_exception(model, m, node.exc.func, exc_classes):
                    continue        # `raise helper(...)`: every return of the helper constructs a library exception
                if name not in exc_classes and isinstance(exc, ast.Name) and _local_from_exception_table(model, m, node, exc.id, exc_classes):
                    continue        # the class is looked up in a class-level / module-level table whose entries are library exception classes
                if name not in exc_classes:
                    ctx.violation("R-RAISE", m.relpath, _owner(model, node), norm_text(node)[:80],
                                  f"raises `{name}`, which is not one of the library's documented exception classes", node.lineno)
    ctx.floor("R-RAISE", n_raise, 40, "raise statements")

    # ---------------- R-TERM
    _term(ctx, model)

    # ---------------- R-TOTAL / R-COMPILE (core)
    _sweep_core(ctx, model, exc_classes)
    # ---------------- R-GUARD: explicit rows the sweep cannot infer (a missing argument is not a wrong value)
    ASR = "pregex.core.assertions"
    for cname in ("FollowedBy", "PrecededBy", "EnclosedBy", "NotFollowedBy", "NotPrecededBy", "NotEnclosedBy"):
        ci = model.cls(ASR, cname)
        init = ci.find_method("__init__")
        for args_f, label in ((lambda: [make_operand(model, "st", "Other", True)], "one Pregex argument"), (lambda: ["st"], "one str argument")):
            outs = B.run_thunk(model, lambda it, ci=ci, args_f=args_f: it.construct(ci, args_f()))
            for o in outs:
                inp = f"{cname}({label})"
                ctx.instance("R-GUARD", key=inp, sample=f"{inp} -> {o.describe()}")
                if not (o.kind == "raise" and o.exc.name == "NotEnoughArgumentsException"):
                    ctx.violation("R-GUARD", init.relpath, f"{cname}.__init__", "arity check",
                                  f"{cname} without an assertion pattern must raise NotEnoughArgumentsException", init.node.lineno,
                                  inp=inp, detail=o.describe())
    # ---------------- R-TOTAL (class algebra): unions / subtractions of valid classes fail only with library exceptions
    _sweep_class_algebra(ctx, model, exc_classes)
    # ---------------- R-TOTAL (meta)
    _sweep_meta(ctx, model, exc_classes)
    # ---------------- R-EXPORT
    _export(ctx, model)


def _owner(model, node):
    names = []
    p = model.parents.get(node)
    while p is not None:
        if isinstance(p, (ast.FunctionDef, ast.ClassDef)):
            names.append(p.name)
        p = model.parents.get(p)
    return ".".join(reversed(names)) or "<module>"


# ---------------------------------------------------------------------------
def _str_typed(model, f, expr, depth=0):
    """Conservative: is `expr` certainly a str?"""
    if isinstance(expr, (ast.JoinedStr,)) or (isinstance(expr, ast.Constant) and isinstance(expr.value, str)):
        return True
    if isinstance(expr, ast.Call):
        fn = expr.func
        if isinstance(fn, ast.Name) and fn.id in ("str", "repr", "chr"):
            return True
        if isinstance(fn, ast.Attribute):
            if fn.attr in ("replace", "join", "lower", "upper", "strip", "lstrip", "rstrip", "format", "sub"):
                return True
            callee = _resolve_names(model, f, fn.attr)
            if callee and all(c.node.returns is not None and ast.unparse(c.node.returns) in ("str", "'str'") for c in callee):
                return True
    if isinstance(expr, ast.BinOp) and isinstance(expr.op, ast.Add):
        return _str_typed(model, f, expr.left, depth + 1) or _str_typed(model, f, expr.right, depth + 1)
    if isinstance(expr, ast.IfExp):
        return _str_typed(model, f, expr.body, depth + 1) and _str_typed(model, f, expr.orelse, depth + 1)
    if isinstance(expr, ast.Name) and depth < 4:
        vals = []
        for n in ast.walk(f.node):
            if isinstance(n, ast.Assign):
                for t in n.targets:
                    if isinstance(t, ast.Name) and t.id == expr.id:
                        vals.append(n.value)
        for a in f.node.args.args:
            if a.arg == expr.id and a.annotation is not None and ast.unparse(a.annotation) in ("str", "'str'"):
                return True
        return bool(vals) and all(_str_typed(model, f, v, depth + 1) for v in vals)
    return False


_NONPREGEX_CALLS = {"len", "ord", "chr", "str", "repr", "int", "list", "tuple", "set", "dict", "range", "max", "min", "sorted",
                    "enumerate", "zip", "map", "bool", "isinstance", "issubclass", "sum", "abs", "type"}


def _maybe_pregex(model, f, expr, depth=0):
    """Could `expr` evaluate to a Pregex object (so that an arithmetic operator dispatches to a library dunder)?"""
    if depth > 5:
        return False
    if isinstance(expr, (ast.Constant, ast.JoinedStr, ast.Subscript, ast.Attribute, ast.List, ast.Tuple, ast.Set, ast.Dict,
                         ast.ListComp, ast.GeneratorExp, ast.Compare, ast.BoolOp)):
        return False
    if isinstance(expr, ast.BinOp):
        return _maybe_pregex(model, f, expr.left, depth + 1) or _maybe_pregex(model, f, expr.right, depth + 1)
    if isinstance(expr, ast.UnaryOp):
        return _maybe_pregex(model, f, expr.operand, depth + 1)
    if isinstance(expr, ast.IfExp):
        return _maybe_pregex(model, f, expr.body, depth + 1) or _maybe_pregex(model, f, expr.orelse, depth + 1)
    if isinstance(expr, ast.Call):
        fn = expr.func
        if isinstance(fn, ast.Name):
            if fn.id in _NONPREGEX_CALLS:
                return False
            if fn.id == "__class__":
                return True
            ci = model.resolve_class_expr(f.module, fn)
            if ci is not None:
                return model.pregex in ci.mro()
            return False
        if isinstance(fn, ast.Attribute):
            ci = model.resolve_class_expr(f.module, fn)
            if ci is not None:
                return model.pregex in ci.mro()
            cands = _resolve_names(model, f, fn.attr)
            for c in cands:
                r = c.node.returns
                if r is not None and ("Pregex" in ast.unparse(r) or "__Class" in ast.unparse(r)):
                    return True
            return False
        return False
    if isinstance(expr, ast.Name):
        if expr.id == "self":
            return True
        # an unconditional rebinding at the top level of the body that precedes the use decides the type
        last = None
        for st in f.node.body:
            if isinstance(st, ast.Assign) and st.lineno < getattr(expr, "lineno", 0) and \
                    any(isinstance(t, ast.Name) and t.id == expr.id for t in st.targets):
                last = st.value
        if last is not None:
            return _maybe_pregex(model, f, last, depth + 1)
        g = f
        while g is not None:
            for a in g.node.args.posonlyargs + g.node.args.args + g.node.args.kwonlyargs + ([g.node.args.vararg] if g.node.args.vararg else []):
                if a.arg == expr.id:
                    ann = ast.unparse(a.annotation) if a.annotation is not None else ""
                    return "Pregex" in ann or "__Class" in ann
            vals = []
            for n in ast.walk(g.node):
                if isinstance(n, ast.Assign):
                    for t in n.targets:
                        if isinstance(t, ast.Name) and t.id == expr.id:
                            vals.append(n.value)
                elif isinstance(n, ast.AugAssign) and isinstance(n.target, ast.Name) and n.target.id == expr.id:
                    vals.append(n.value)
            if vals:
                return any(_maybe_pregex(model, g, v, depth + 1) for v in vals)
            g = g.outer
        return False
    return False


_BY_NAME = {}


def _resolve_names(model, f, name):
    key = id(model)
    if key not in _BY_NAME:
        d = {}
        for g in model.all_functions():
            d.setdefault(g.node.name, []).append(g)
        _BY_NAME.clear()
        _BY_NAME[key] = d
    return _BY_NAME[key].get(name, [])


def _term(ctx, model):
    funcs = list(model.all_functions())
    edges = {f: set() for f in funcs}
    by_simple = {}
    for g in funcs:
        by_simple.setdefault(g.node.name, []).append(g)
    dunder = {ast.Add: ("__add__", "__radd__"), ast.Mult: ("__mul__", "__rmul__"), ast.BitOr: ("__or__", "__ror__"),
              ast.Sub: ("__sub__", "__rsub__")}
    # a method call on a receiver that is known to be a built-in set (`ranges1.union(ranges2)`) is not a call of a
    # library method that happens to have the same name (a public `union()` on the class base)
    try:
        from .c20 import SetFlow as _SetFlow
        _sf = _SetFlow(model)
        _is_set = lambda f_, e_: _sf.is_set(f_, e_) if f_ in _sf.set_vars else False
    except Exception:          # the set-type inference is an optimisation of precision only
        _is_set = lambda f_, e_: False
    for f in funcs:
        for n in ast.walk(f.node):
            if model._owner_def(n, None) is not f.node and n is not f.node:
                # nested defs are separate nodes; lambdas belong to f
                owner = model._owner_def(n, None)
                if isinstance(owner, ast.FunctionDef) and owner is not f.node:
                    continue
            if isinstance(n, ast.Call):
                fn = n.func
                targets = []
                if isinstance(fn, ast.Attribute):
                    if isinstance(fn.value, ast.Name) and fn.value.id in ("_re", "re"):
                        continue
                    if fn.attr == "__init__" and isinstance(fn.value, ast.Call) and ast.unparse(fn.value.func) == "super":
                        if f.cls is not None:
                            m = f.cls.find_method("__init__", after=f.cls)
                            targets = [m] if m else []
                    else:
                        ci = model.resolve_class_expr(f.module, fn)
                        if ci is not None:
                            m = ci.find_method("__init__")
                            targets = [m] if m else []
                        else:
                            nm = fn.attr
                            cands = by_simple.get(nm, [])
                            if nm in dir(set) and _is_set(f, fn.value):
                                cands = []
                            if f.cls is not None and isinstance(fn.value, ast.Name) and fn.value.id in ("self", "__class__"):
                                m = f.cls.find_method(mangle(nm, f.cls.name))
                                cands = [m] if m else [c for c in cands if c.cls is not None]
                            targets = [c for c in cands if c.cls is not None]
                elif isinstance(fn, ast.Name):
                    if fn.id == "__class__" and f.cls is not None:
                        m = f.cls.find_method("__init__")
                        targets = [m] if m else []
                    else:
                        ci = model.resolve_class_expr(f.module, fn)
                        if ci is not None:
                            m = ci.find_method("__init__")
                            targets = [m] if m else []
                        else:
                            # nested function or module function
                            targets = [c for c in by_simple.get(fn.id, []) if c.module is f.module and (c.outer is f or c.cls is None or c is f or c.outer is f.outer)]
                for t in targets:
                    if t in edges:
                        edges[f].add(t)
            elif isinstance(n, ast.BinOp) and type(n.op) in dunder:
                if _maybe_pregex(model, f, n.left) or _maybe_pregex(model, f, n.right):
                    for nm in dunder[type(n.op)]:
                        for c in by_simple.get(nm, []):
                            edges[f].add(c)
            elif isinstance(n, ast.UnaryOp) and isinstance(n.op, ast.Invert):
                for c in by_simple.get("__invert__", []):
                    edges[f].add(c)
            elif isinstance(n, (ast.JoinedStr,)):
                pass
        # str(x) / f"{x}" may call __str__ (a leaf) - ignored
    # strongly connected components (Tarjan)
    index, low, onstack, stack, sccs = {}, {}, set(), [], []
    counter = [0]
    import sys
    sys.setrecursionlimit(10000)

    def strong(v):
        index[v] = low[v] = counter[0]
        counter[0] += 1
        stack.append(v)
        onstack.add(v)
        for w in edges[v]:
            if w not in index:
                strong(w)
                low[v] = min(low[v], low[w])
            elif w in onstack:
                low[v] = min(low[v], index[w])
        if low[v] == index[v]:
            comp = []
            while True:
                w = stack.pop()
                onstack.discard(w)
                comp.append(w)
                if w is v:
                    break
            sccs.append(comp)
    for v in funcs:
        if v not in index:
            strong(v)
    n_edges = sum(len(e) for e in edges.values())
    ctx.instance("R-TERM", key="graph", sample=f"call graph: {len(funcs)} functions, {n_edges} edges, {len(sccs)} components", n=len(funcs))
    ctx.floor("R-TERM", n_edges, 80, "call edges")
    for comp in sccs:
        if len(comp) > 1:
            import os
            if os.environ.get("SA_DEBUG"):
                for a_ in comp:
                    for b_ in edges[a_]:
                        if b_ in comp:
                            print("  edge", a_.short, "->", b_.short)
            names = sorted(c.short for c in comp)
            f = sorted(comp, key=lambda c: c.short)[0]
            ctx.violation("R-TERM", f.relpath, f.short, "cycle: " + " -> ".join(names[:6]),
                          "mutual recursion between library functions (no bound on the call depth is visible)", f.node.lineno)
        elif comp[0] in edges[comp[0]]:
            f = comp[0]
            ok, why = _progress(model, f)
            ctx.instance("R-TERM", key=("self", f.short), sample=f"self-recursive {f.short}: {why}")
            if not ok:
                ctx.violation("R-TERM", f.relpath, f.short, "recursive call without progress test",
                              f"{f.node.name} calls itself and nothing guarantees that the recursive argument differs from the "
                              f"current one ({why}) - unbounded recursion ends in RecursionError", f.node.lineno)


def _progress(model, f):
    """The recursive call must be control-dependent on a comparison between the value passed for a
    parameter and that parameter itself (`temp != pattern`), directly or as `temp == pattern -> return`."""
    params = [a.arg for a in f.node.args.args]
    calls = [n for n in ast.walk(f.node) if isinstance(n, ast.Call) and isinstance(n.func, ast.Name) and n.func.id == f.node.name]
    if not calls:
        calls = [n for n in ast.walk(f.node) if isinstance(n, ast.Call) and isinstance(n.func, ast.Attribute) and n.func.attr == f.node.name]
    for call in calls:
        arg_names = {(a.id, params[i]) for i, a in enumerate(call.args) if isinstance(a, ast.Name) and i < len(params) and a.id != params[i]}
        if not arg_names:
            return False, "recursive call passes its parameters unchanged"
        found = False
        for n in ast.walk(f.node):
            if isinstance(n, ast.Compare) and len(n.ops) == 1 and isinstance(n.ops[0], (ast.Eq, ast.NotEq, ast.Lt, ast.Gt, ast.Is, ast.IsNot)):
                sides = [n.left, n.comparators[0]]
                ids = []
                for sd in sides:
                    if isinstance(sd, ast.Name):
                        ids.append(sd.id)
                    elif isinstance(sd, ast.Call) and isinstance(sd.func, ast.Name) and sd.func.id == "len" and sd.args and isinstance(sd.args[0], ast.Name):
                        ids.append(sd.args[0].id)
                if len(ids) == 2 and ((ids[0], ids[1]) in arg_names or (ids[1], ids[0]) in arg_names):
                    found = True
            elif isinstance(n, ast.Compare) and len(n.ops) == 1 and isinstance(n.ops[0], (ast.In, ast.NotIn)) \
                    and isinstance(n.left, ast.Name) and isinstance(n.comparators[0], (ast.Tuple, ast.List, ast.Set)):
                # `new in (x, old)` / `new not in (...)`: a comparison with the parameter among the alternatives
                for e in n.comparators[0].elts:
                    if isinstance(e, ast.Name) and ((n.left.id, e.id) in arg_names or (e.id, n.left.id) in arg_names):
                        found = True
        if not found:
            return False, "no comparison between the new argument " + "/".join(sorted(a for a, _ in arg_names)) + " and the parameter it replaces"
    return True, "recursive argument is compared with the parameter it replaces"


def _swallowing_handlers(node):
    out = []
    for h in node.handlers:
        types = [h.type] if h.type is not None and not isinstance(h.type, ast.Tuple) else (list(h.type.elts) if h.type is not None else [None])
        for t in types:
            nm = None if t is None else (t.attr if isinstance(t, ast.Attribute) else t.id if isinstance(t, ast.Name) else "?")
            if nm in (None, "Exception", "BaseException", "?"):
                out.append(h)
                break
    return out


def _returns_library_exception(model, m, fexpr, exc_classes):
    """`fexpr` names a library function (same module, imported, or alias.f) all of whose returns construct library exceptions."""
    g = None
    if isinstance(fexpr, ast.Name):
        g = m.functions.get(fexpr.id)
        if g is None and fexpr.id in m.from_imports:
            mod, nm = m.from_imports[fexpr.id]
            g = model.modules[mod].functions.get(nm) if mod in model.modules else None
    elif isinstance(fexpr, ast.Attribute) and isinstance(fexpr.value, ast.Name) and m.imports.get(fexpr.value.id) in model.modules:
        g = model.modules[m.imports[fexpr.value.id]].functions.get(fexpr.attr)
    if g is None:
        return False
    rets = [n for n in ast.walk(g.node) if isinstance(n, ast.Return)]
    if not rets:
        return False
    for r in rets:
        v = r.value
        f = v.func if isinstance(v, ast.Call) else None
        nm = f.attr if isinstance(f, ast.Attribute) else f.id if isinstance(f, ast.Name) else None
        if nm not in exc_classes:
            return False
    return True


def _local_from_exception_table(model, m, node, lname, exc_classes):
    """`a, b, err = TABLE[key]; raise err(...)` (or `err = TABLE[key]`): true iff TABLE is a dict literal at class or
    module level and, in EVERY one of its values, the element that lands in `err` names a library exception class."""
    fn = model.parents.get(node)
    while fn is not None and not isinstance(fn, ast.FunctionDef):
        fn = model.parents.get(fn)
    if fn is None:
        return False
    binds = []
    for a in ast.walk(fn):
        if isinstance(a, ast.Assign) and len(a.targets) == 1:
            t = a.targets[0]
            if isinstance(t, ast.Name) and t.id == lname:
                binds.append((a.value, None))
            elif isinstance(t, ast.Tuple):
                for i, e in enumerate(t.elts):
                    if isinstance(e, ast.Name) and e.id == lname:
                        binds.append((a.value, i))
    if len(binds) != 1:
        return False
    src, idx = binds[0]
    if not (isinstance(src, ast.Subscript)):
        return False
    tname = src.value.attr if isinstance(src.value, ast.Attribute) else (src.value.id if isinstance(src.value, ast.Name) else None)
    if tname is None:
        return False
    tables = []
    for x in ast.walk(m.tree):
        tgt, val = (x.targets[0], x.value) if isinstance(x, ast.Assign) and len(x.targets) == 1 else \
            ((x.target, x.value) if isinstance(x, ast.AnnAssign) else (None, None))
        if isinstance(tgt, ast.Name) and tgt.id == tname and val is not None and isinstance(model.parents.get(x), (ast.ClassDef, ast.Module)):
            if isinstance(val, ast.Call) and val.args and isinstance(val.args[0], ast.Dict):      # MappingProxyType({...})
                val = val.args[0]
            tables.append(val)
    if len(tables) != 1 or not isinstance(tables[0], ast.Dict) or not tables[0].values:
        return False
    for v in tables[0].values:
        e = v
        if idx is not None:
            if not (isinstance(v, (ast.Tuple, ast.List)) and idx < len(v.elts)):
                return False
            e = v.elts[idx]
        nm = e.attr if isinstance(e, ast.Attribute) else (e.id if isinstance(e, ast.Name) else None)
        if nm not in exc_classes:
            return False
    return True


def _param_is_library_exception(model, node, pname, exc_classes, depth=0):
    """`raise p(...)` where p is a parameter of the enclosing function: true iff every call site of that function in
    the package passes, for p, the name of a library exception class (or, once more, such a parameter)."""
    fn = model.parents.get(node)
    while fn is not None and not isinstance(fn, (ast.FunctionDef, ast.Lambda)):
        fn = model.parents.get(fn)
    if not isinstance(fn, ast.FunctionDef) or depth > 2:
        return False
    a = fn.args
    params = [p.arg for p in a.posonlyargs + a.args]
    if pname not in params and pname not in [p.arg for p in a.kwonlyargs]:
        return False
    static = any(isinstance(d, ast.Name) and d.id == "staticmethod" for d in fn.decorator_list)
    in_class = isinstance(model.parents.get(fn), ast.ClassDef)
    sites = []
    for m in model.modules.values():
        for c in ast.walk(m.tree):
            if isinstance(c, ast.Call) and ((isinstance(c.func, ast.Attribute) and c.func.attr == fn.name) or
                                            (isinstance(c.func, ast.Name) and c.func.id == fn.name)):
                sites.append(c)
    if not sites:
        return False
    for c in sites:
        val = next((k.value for k in c.keywords if k.arg == pname), None)
        if val is None and pname in params:
            idx = params.index(pname)
            via_instance = isinstance(c.func, ast.Attribute) and isinstance(c.func.value, ast.Name) and c.func.value.id == "self"
            if in_class and not static and via_instance:
                idx -= 1
            if 0 <= idx < len(c.args) and not any(isinstance(x, ast.Starred) for x in c.args[:idx + 1]):
                val = c.args[idx]
        if val is None:
            return False
        nm = val.attr if isinstance(val, ast.Attribute) else val.id if isinstance(val, ast.Name) else None
        if nm in exc_classes:
            continue
        if isinstance(val, ast.Name) and _param_is_library_exception(model, c, val.id, exc_classes, depth + 1):
            continue
        return False
    return True


# ---------------------------------------------------------------------------
def _neutral(model, pname, ann):
    other = lambda: make_operand(model, "pq", "Other", True)
    if pname in ("pre", "pre1", "pre2", "match"):
        return other()
    table = {"name": "nm", "n": 2, "m": 3, "is_greedy": True, "on_right": True, "is_case_insensitive": False, "ref": 1,
             "start": "a", "end": "z", "is_global": False, "transform": None}
    if pname in table:
        return table[pname]
    # parameters the table does not know (API additions): a neutral value of the annotated type
    a = ann.replace("'", "").replace('"', "").replace(" ", "")
    if "Pregex" in a:
        return other()
    if a in ("str", "_Union[str]") or a.endswith("[str]") and a.startswith(("_Optional", "Optional")) is False and a == "str":
        return "ab"
    if a == "str":
        return "ab"
    if a == "int":
        return 2
    if a == "bool":
        return False
    if a.startswith(("_Optional[", "Optional[")):
        return None
    return _NO


_NO = object()


def _entries_core(model):
    """(label, FuncInfo, kind) for public constructors and Pregex builder methods."""
    out = []
    for modname in CORE_BUILD_MODULES:
        for ci in model.module(modname).classes.values():
            if ci.name.startswith("_"):
                continue
            init = ci.find_method("__init__")
            if init is not None:
                out.append((f"{ci.name}()", init, "ctor", ci))
    P = model.pregex
    for name, f in P.methods.items():
        n = f.node.name
        if n.startswith("_") and n not in ("__add__", "__radd__", "__mul__", "__rmul__"):
            continue
        if "source" in f.params or n in ("print_pattern", "get_pattern", "get_compiled_pattern", "compile", "purge"):
            continue
        out.append((f"Pregex.{n}", f, "method", None))
    return out


def _sweep_core(ctx, model, exc_classes):
    ents = _entries_core(model)
    ctx.floor("R-TOTAL", len(ents), 80, "public pattern-building entry points")
    def sweep_entry(ctx, ent):
        label, f, kind, ci = ent
        n_cases = 0
        a = f.node.args
        params = [p.arg for p in a.posonlyargs + a.args if p.arg != "self" and not (f.is_classmethod and p.arg == "cls")]
        anns = {p.arg: (ast.unparse(p.annotation) if p.annotation is not None else "") for p in a.posonlyargs + a.args}
        doc = documented(f) | (documented(ci.methods["__init__"]) if ci is not None and "__init__" in ci.methods else set())
        var = a.vararg.arg if a.vararg is not None else None
        targets = list(params) + ([var] if var else [])
        base_cases = [(None, None)] + [(t, v) for t in targets for v in BAD_VALUES + ["<pregex>", "<empty-pregex>", "<nonrep>",
                                                                                  "<q-atleast>", "<q-optional>", "<q-range-lazy>", "<alternation>"]]
        for tgt, val in base_cases:
            if B.NONTERM[0] > 12:
                ctx.note("sweep stopped early: more than 12 inputs exhausted the step budget (non-termination already reported)")
                return n_cases
            def thunk(it, tgt=tgt, val=val):
                args = []
                for p in params:
                    if p == tgt:
                        args.append(_val(model, val))
                    else:
                        nv = _neutral(model, p, anns.get(p, ""))
                        if nv is _NO:
                            d = _default_expr(f, p)
                            if d is _NO:
                                raise AnalysisError(f"R-TOTAL: no neutral value for parameter {p!r} of {label}; extend c03._neutral")
                            break
                        args.append(nv)
                if var:
                    if ci is not None and ci.module.name == "pregex.core.classes":
                        extra = ["a", "b"]
                    else:
                        extra = [make_operand(model, "pq", "Other", True)]
                    if tgt == var:
                        extra = extra + [_val(model, val)]
                    args += extra
                if kind == "ctor":
                    return it.construct(ci, args)
                if f.is_classmethod:
                    from ..interp import ClassRef as _ClassRef
                    return it.call(FuncRef(f, _ClassRef(f.cls), True), args)
                recv = make_operand(model, "st", "Other", True)
                return it.call(FuncRef(f, recv, True), args)
            try:
                outs = B.run_thunk(model, thunk)
            except Incomplete as e:
                if ci is not None and ci.module.name == "pregex.core.classes":
                    continue   # class pipeline after the constructor is not interpreted here (C06/C07)
                raise
            n_cases += 1
            inp = f"{label} {tgt}={val!r}" if tgt else f"{label} (valid arguments)"
            ctx.instance("R-TOTAL", key=inp, sample=f"{inp} -> {sorted({o.describe() for o in outs})[:3]}")
            for o in outs:
                if o.kind == "raise":
                    if not o.exc.is_library:
                        file, func, line, construct = o.where(f)
                        ctx.violation("R-TOTAL", file, func, construct,
                                      f"fails with the unrelated error {o.exc.name} instead of a documented exception", line,
                                      inp=inp, detail=o.describe())
                    elif tgt is not None and doc and o.exc.name not in doc and not _doc_exempt(label, o.exc.name):
                        file, func, line, construct = o.where(f)
                        ctx.violation("R-DOCEXC", f.relpath, f.short, f"undocumented {o.exc.name}",
                                      f"{label} raises {o.exc.name}, which its documentation does not list", f.node.lineno, inp=inp)
                elif o.text is not None and ci is None or (o.text is not None and ci is not None and ci.module.name != "pregex.core.classes"):
                    ctx.instance("R-COMPILE", key=(inp, o.text))
                    okc, why = compiles(_with_groups(o.text))
                    if not okc:
                        ctx.violation("R-COMPILE", f.relpath, f.short, "<returned pattern>",
                                      "returns a pattern that re rejects when it is first used", f.node.lineno, inp=inp,
                                      detail=f"{o.text!r}: {why}")
        return n_cases
    ctx.extra["core_sweep_cases"] = sum(ctx.parallel(ents, sweep_entry))


def _sweep_class_algebra(ctx, model, exc_classes):
    """A | B and A - B over every pair of subsets (every spelling) of two small alphabets, one of them around the
    hyphen; the set-algebra result itself is C07's business, here only the kind of failure is judged."""
    import itertools
    from . import c07
    W, _, _, _ = c07.tables(model)
    CLS = "pregex.core.classes"
    fns = {"|": model.method(CLS, "__Class", "__or"), "-": model.method(CLS, "__Class", "__sub")}
    jobs = []
    # (the last two alphabets are the ends of the code-point space, where `chr(ord(c) +- 1)` does not exist: an operation that
    # computes a neighbour it does not need fails there with ValueError)
    edges = ("\x00\x01\x02", "\U0010fffd\U0010fffe\U0010ffff")
    for alpha in (("+,-.", "ab^]") if ctx.tier == "quick" else ("+,-./", "abc^]", "\\[]-")) + edges:
        lst = c07.forms(alpha, W, False)
        for (ma, ta), (mb, tb) in itertools.product(lst, lst):
            for op in ("|", "-"):
                jobs.append((alpha, False, "".join(sorted(ma)), ta, "".join(sorted(mb)), tb, op, 0))
    res = c07._parallel(ctx, model, sorted(W), jobs)
    n = 0
    for (alpha, neg, ma, ta, mb, tb, op, order), (kind, payload) in zip(jobs, res):
        n += 1
        inp = f"{ta} {op} {tb}"
        if not inp.isprintable():
            inp = inp.encode("unicode_escape").decode("ascii")
        ctx.instance("R-TOTAL", key=("class algebra", inp), sample=f"{inp} -> {kind} {payload[0] if kind == 'raise' else ''}")
        f = fns[op]
        if kind == "incomplete" and "fuel exhausted" in payload:
            ctx.violation("R-TOTAL", f.relpath, f.short, "termination", "class algebra does not terminate within the step budget",
                          f.node.lineno, inp=c07._shape(frozenset(ma), frozenset(mb), alpha, op), detail=inp)
        elif kind == "incomplete":
            raise AnalysisError(f"R-TOTAL class algebra: {inp}: {payload}")
        elif kind == "raise" and payload[0] not in exc_classes:
            ctx.violation("R-TOTAL", f.relpath, f.short, payload[1] or "<raise>",
                          f"class {'union' if op == '|' else 'subtraction'} of valid classes fails with the unrelated error {payload[0]}",
                          f.node.lineno, inp=c07._shape(frozenset(ma), frozenset(mb), alpha, op), detail=inp)
    ctx.floor("R-TOTAL", n, 800, "class-algebra pairs")


def _doc_exempt(label, exc):
    # exceptions of the operand itself, documented on the delegate rather than on every spelling
    return exc in ("CannotBeRepeatedException", "NonFixedWidthPatternException", "EmptyNegativeAssertionException")


def _with_groups(text):
    """Define the groups a back-reference / conditional refers to (the property excepts undefined references)."""
    pre = ""
    for nm in set(re.findall(r"\(\?P=(\w+)\)|\(\?\((\w+)\)", text)):
        for x in nm:
            if x and not x.isdigit():
                pre += f"(?P<{x}>z)"
    nums = [int(x) for x in re.findall(r"\\(\d{1,2})", text)]
    if nums:
        pre += "(z)" * max(nums)
    return pre + text


def _val(model, v):
    if v == "<pregex>":
        return make_operand(model, "vw", "Other", True)
    if v == "<empty-pregex>":
        return make_operand(model, "", "Empty", True)
    if v == "<nonrep>":
        return make_operand(model, "^vw", "Assertion", False)
    if v == "<alternation>":
        return make_operand(model, "v|w", "Alternation", True)
    if v == "<q-atleast>":
        return make_operand(model, "v{2,}", "Quantifier", True)
    if v == "<q-optional>":
        return make_operand(model, "(?:vw)?", "Quantifier", True)
    if v == "<q-range-lazy>":
        return make_operand(model, "[vw]{1,3}?", "Quantifier", True)
    if isinstance(v, list):
        return list(v)
    return v


def _default_expr(f, nm):
    a = f.node.args
    params = a.posonlyargs + a.args
    ds = a.defaults
    for p, d in zip(params[len(params) - len(ds):], ds):
        if p.arg == nm:
            return d
    return _NO


# ---------------------------------------------------------------------------
def _sweep_meta(ctx, model, exc_classes):
    mod = model.module(ESS)
    n = 0
    skipped = []
    for ci in mod.classes.values():
        if ci.name.startswith("_"):
            continue
        init = ci.find_method("__init__")
        if init is None:
            continue
        a = init.node.args
        params = [p.arg for p in a.posonlyargs + a.args if p.arg != "self"]
        doc = documented(init)
        cases = [(None, None)] + [(p, v) for p in params for v in BAD_VALUES + [-5, 3, 17, "dd/mm/yyyy"]]
        for tgt, val in cases:
            kw = {} if tgt is None else {tgt: val}
            if ci.name in ("WordContains", "WordStartsWith", "WordEndsWith") and tgt != params[0]:
                kw[params[0]] = "ab"
            try:
                k, t = FL.build(model, ci.name, [], kw)
            except Incomplete as e:
                skipped.append(f"{ci.name}({kw}): {e}")
                continue
            n += 1
            inp = f"{ci.name}({', '.join(f'{a_}={b!r}' for a_, b in kw.items())})"
            ctx.instance("R-TOTAL", key=inp, sample=f"{inp} -> {k} {getattr(t, 'name', '')}")
            if k == "raise":
                if not t.is_library:
                    where = t.where or init
                    ctx.violation("R-TOTAL", where.relpath, where.short, norm_text(t.node) if t.node is not None else f"<{t.name}>",
                                  f"fails with the unrelated error {t.name} instead of a documented exception",
                                  t.node.lineno if t.node is not None else init.node.lineno, inp=inp)
                elif tgt is not None and doc and t.name not in doc:
                    ctx.violation("R-DOCEXC", init.relpath, init.short, f"undocumented {t.name}",
                                  f"{ci.name} raises {t.name}, which its documentation does not list", init.node.lineno, inp=inp)
    ctx.extra["meta_sweep_cases"] = n
    if skipped:
        ctx.note(f"{len(skipped)} meta constructions could not be interpreted in meta mode (e.g. {skipped[0][:120]})")
    ctx.floor("R-TOTAL", n, 300, "meta constructor cases")


# ---------------------------------------------------------------------------
def _export(ctx, model, RULE="R-EXPORT"):
    """Texts the DSL itself can emit for literals: images of __escape over an adversarial alphabet (every
    backslash doubled, control characters verbatim), alone and next to token / class constants."""
    from .c01 import escape_of
    f_get = model.method(PRE, "Pregex", "get_pattern")
    f_repr = model.method(PRE, "Pregex", "__repr__")
    alphabet = ["\\", "n", "\n", "\t", "'", '"', "a", "é", " ", ".", "\r", "\x0b", "\x7f", "\u2028"]
    maxlen = 4 if ctx.tier == "thorough" else 3
    n_checked = 0
    it = Interp(model, PregexHooks(model), fuel=10 ** 9)
    sep = "\uE000"
    raws = ["".join(t) for L in range(1, maxlen + 1) for t in itertools.product(alphabet, repeat=L)]
    escaped = escape_of(model, sep.join(raws)).split(sep)
    if len(escaped) != len(raws):
        raise AnalysisError("R-EXPORT: __escape lost the separator")
    extra = ["[a\\\\\n]", "\\\\\n", "(?:\n)?", "[^\t\n]+", "\\$\n", "[\"']", "\u2022\n"]
    for raw, text in list(zip(raws, escaped)) + [(None, t) for t in extra]:
        try:
            t0 = parse_regex(text)
        except re.error as e:
            raise AnalysisError(f"R-EXPORT: DSL-escaped text {text!r} does not parse: {e}")
        op = make_operand(model, text, "Other", True)
        try:
            exported = it.call(FuncRef(f_get, op, True), [])
        except PyRaise as e:
            ctx.violation(RULE, f_get.relpath, f_get.short, "<raise>", f"get_pattern raises {e.name}", f_get.node.lineno, inp=repr(text))
            continue
        n_checked += 1
        ctx.instance(RULE, key=text, sample=f"get_pattern of Pregex({raw!r}) [text {text!r}] -> {exported!r}" if raw and len(raw) <= 2 and ("\\" in raw or "\n" in raw) else None)
        ok = isinstance(exported, str) and exported.isprintable()
        why = "" if ok else f"exported text {exported!r} is not printable"
        if ok:
            try:
                t1 = parse_regex(exported)
                ok = t1 == t0
                why = f"exported text {exported!r} parses to a different regex"
            except re.error as e:
                ok, why = False, f"exported text {exported!r} does not compile: {e}"
        if not ok:
            ctx.violation(RULE, f_repr.relpath, f_repr.short, "printable export",
                          "get_pattern() is not a printable text that compiles to a regex equivalent to the pattern itself",
                          f_repr.node.lineno, inp=_export_shape(raw if raw is not None else text), detail=f"pattern {text!r}: {why}")
    for inc in (True,):
        op = make_operand(model, "a\\.b", "Other", True)
        v = it.call(FuncRef(f_get, op, True), [True])
        ctx.instance(RULE, key="include_flags", sample=f"get_pattern(include_flags=True) -> {v!r}")
        if not (isinstance(v, str) and v.startswith("/") and "a\\.b" in v):
            ctx.violation(RULE, f_get.relpath, f_get.short, "include_flags", "get_pattern(include_flags=True) does not wrap the pattern",
                          f_get.node.lineno, detail=repr(v))
    ctx.floor(RULE, n_checked, 2000, "pattern texts")
    ctx.extra["export_texts_checked"] = n_checked


def _export_shape(text):
    """Shape key: the first offending pattern class, e.g. 'backslash followed by newline'."""
    names = {"\\": "backslash", "\n": "newline", "\t": "tab", "n": "'n'", "'": "single quote", '"': "double quote", "é": "non-ASCII", " ": "space", "a": "'a'",
             "\r": "CR", "\x0b": "VT", "\x7f": "DEL", "\u2028": "U+2028", ".": "dot"}
    return " + ".join(names.get(c, c) for c in text)
