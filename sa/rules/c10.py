"""C10 - look-behind assertions are accepted iff their pattern has one fixed width.

R-LB-GUARD    the four look-behind builders refuse (NonFixedWidthPatternException) every variable-width
              shape the library's own quantifier emitters can produce and accept every fixed-width one;
              the two look-ahead-only builders never raise it; the Empty rule precedes the guard
R-LB-SIBLING  the four guard constants are the same regex (syntax-tree equality)
R-LB-WIDTH    on a catalogue of operand shapes (classes containing ? * + {, escaped literals, equal /
              unequal alternations, nested look-arounds) the verdict equals CPython's own width
              computation (re._parser getwidth) - shapes, not all run-time texts
"""
from __future__ import annotations

import ast
import re
import re._parser as sre_parse
import warnings

from ..absdom import FLAGS, compiles, parse_regex, make_operand
from ..consts import fold_str
from ..interp import FuncRef
from ..model import AnalysisError, norm_text
from . import builders as B
from . import quant
from .builders import PRE

NFW = "NonFixedWidthPatternException"
LOOKBEHIND = ["preceded_by", "enclosed_by", "not_preceded_by", "not_enclosed_by"]
LOOKAHEAD = ["followed_by", "not_followed_by"]


def fixed_width(text):
    """CPython's own verdict; None when the text does not parse."""
    try:
        with warnings.catch_warnings():
            warnings.simplefilter("ignore")
            p = sre_parse.parse(text, FLAGS)
        lo, hi = p.getwidth()
        return lo == hi
    except re.error:
        return None


def emitted_quantified(model, tier):
    """Texts the quantifier emitters produce on one-unit / multi-unit operands:
    [(label, type tag, text, fixed?)]"""
    units = [("Token:'p'", "Token", "p", True), ("Class:'[pq]'", "Class", "[pq]", True),
             ("Group:'(?:pq)'", "Group", "(?:pq)", True), ("Other:'pq'", "Other", "pq", True),
             ("Token:'\\\\('", "Token", "\\(", True), ("Token:'\\\\\\\\'", "Token", "\\\\", True)]
    if tier == "thorough":
        units += [("Alternation:'p|q'", "Alternation", "p|q", True), ("Class:'.'", "Class", ".", True)]
    calls = [("optional", {}, False), ("indefinite", {}, False), ("one_or_more", {}, False),
             ("at_least", {"n": 2}, False), ("at_most", {"n": 2}, False), ("at_least_at_most", {"n": 2, "m": 3}, False),
             ("at_least_at_most", {"n": 0, "m": 1}, False), ("at_least_at_most", {"n": 12, "m": None}, False),
             ("exactly", {"n": 2}, True), ("exactly", {"n": 13}, True), ("at_least_at_most", {"n": 3, "m": 3}, True)]
    out = []
    for u in units:
        for meth, kw, fixed in calls:
            for greedy in ((True, False) if meth != "exactly" else (True,)):
                f = model.method(PRE, "Pregex", meth)
                kwargs = dict(kw)
                if "is_greedy" in f.params:
                    kwargs["is_greedy"] = greedy
                outs, _ = B.call_method_ident(model, meth, u, [], [], kwargs)
                for o in outs:
                    if o.text:
                        out.append((f"{meth}({', '.join(f'{k}={v}' for k, v in kwargs.items())}) of {u[0]}", "Quantifier", o.text, fixed))
    return out


def guard_sites(model):
    """For each look-behind builder: (FuncInfo, folded guard constant | None, test node | None)"""
    sites = []
    for meth in LOOKBEHIND:
        f = model.method(PRE, "Pregex", meth)
        found = None
        for n in ast.walk(f.node):
            if isinstance(n, ast.Raise) and NFW in ast.unparse(n):
                p = model.parents.get(n)
                while p is not None and not isinstance(p, ast.If):
                    p = model.parents.get(p)
                if p is not None:
                    found = p.test
        if found is None:
            # guard factored into a helper shared by the builders
            for n in ast.walk(f.node):
                if isinstance(n, ast.Call) and isinstance(n.func, ast.Attribute) and isinstance(n.func.value, ast.Name) \
                        and n.func.value.id in ("self", "__class__"):
                    from ..model import mangle
                    h = f.cls.find_method(mangle(n.func.attr, f.cls.name)) if f.cls else None
                    if h is not None and any(isinstance(x, ast.Raise) and NFW in ast.unparse(x) for x in ast.walk(h.node)):
                        found = ast.Constant(value=f"<helper {h.short}>")
        const = None
        if found is not None and not isinstance(found, ast.Constant):
            for c in ast.walk(found):
                if isinstance(c, ast.Call) and isinstance(c.func, ast.Attribute) and c.func.attr in ("search", "match", "fullmatch", "findall") and c.args:
                    const = fold_str(model, f, c.args[0])
        sites.append((f, const, found))
    return sites


def run(ctx, model):
    from . import signatures as _sig
    _n_sig = _sig.check(ctx, model, "R-SIGNATURE", lambda k: k.startswith('pregex.core.assertions:') or k.split('.')[-1] in ('followed_by', 'preceded_by', 'enclosed_by', 'not_followed_by', 'not_preceded_by', 'not_enclosed_by'))
    ctx.floor("R-SIGNATURE", _n_sig, 1, "public entry points")
    ctx.explanation = (
        "R-LB-GUARD: the quantifier emitters are walked by the abstract interpreter on one-unit and multi-unit "
        "operands (11 bound settings x laziness x 6 units) to obtain every variable-width and fixed-width suffix shape "
        "the library can emit; each is then fed, alone and embedded in a concatenation, as assertion operand to the 4 "
        "look-behind builders (must raise NonFixedWidthPatternException iff variable; accepted text must parse) and to "
        "the 2 look-ahead builders (must never raise it); the Empty operand must be handled before the guard.  "
        "R-LB-SIBLING: the guard constants of the four builders are folded and must parse to the same regex tree.  "
        "R-LB-WIDTH: on a catalogue of operand shapes named by the property the accept/refuse verdict is compared "
        "with CPython's own width computation (re._parser getwidth).")
    ctx.assumptions += [
        "not decided: the width of arbitrary run-time operand text - the guard is a text search; only the shapes listed in the "
        "evidence (emitter outputs and the catalogue) are decided, so `exhaustive` is false for this property",
    ]
    ctx.exhaustive = False
    B.prepare(model)
    recvs = [("Other:'st'", "Other", "st", True), ("Token:'s'", "Token", "s", True), ("Alternation:'s|tu'", "Alternation", "s|tu", True)]
    quantified = emitted_quantified(model, ctx.tier)
    ctx.floor("R-LB-GUARD", len(quantified), 100, "emitter-produced operand shapes")
    # embedded variants: quantified part followed / preceded by a literal
    shapes = list(quantified)
    for label, t, text, fixed in quantified:
        if label.endswith("Token:'p'") or label.endswith("Class:'[pq]'"):
            shapes.append((f"concat({label}, 'r')", "Other", f"{text}r", fixed))
            shapes.append((f"concat('r', {label})", "Other", f"r{text}", fixed))
            shapes.append((f"group({label})", "Group", f"(?:{text})", fixed))
            shapes.append((f"capture({label})", "Group", f"({text})", fixed))

    for meth in LOOKBEHIND + LOOKAHEAD:
        for r in recvs[: (3 if ctx.tier == "thorough" else 1)]:
            for label, t, text, fixed in shapes:
                a = (label, t, text, True)
                outs, f = B.call_method_ident(model, meth, r, [a])
                for o in outs:
                    inp = f"{meth} assertion={label} -> {text!r}"
                    ctx.instance("R-LB-GUARD", key=(meth, r[0], label), sample=f"{inp}: {o.describe()}")
                    raised = o.kind == "raise" and o.exc.name == NFW
                    if meth in LOOKAHEAD:
                        if raised:
                            file, func, line, construct = o.where(f)
                            ctx.violation("R-LB-GUARD", file, func, construct, f"{meth} (look-ahead only) raises {NFW}", line, inp=inp)
                        continue
                    if not fixed and not raised:
                        ctx.violation("R-LB-GUARD", f.relpath, f.short, "<guard>",
                                      f"{meth} accepts a variable-width assertion pattern emitted by the library's own quantifiers",
                                      f.node.lineno, inp=inp, detail=o.describe())
                    if fixed and raised:
                        file, func, line, construct = o.where(f)
                        ctx.violation("R-LB-GUARD", file, func, construct,
                                      f"{meth} refuses a fixed-width assertion pattern (exact repetition)", line, inp=inp)
                    if fixed and o.kind == "return" and o.text is not None:
                        okc, whyc = compiles(o.text)
                        if not okc:
                            ctx.violation("R-LB-GUARD", f.relpath, f.short, "<emitted pattern>",
                                          f"{meth} emits a pattern re rejects", f.node.lineno, inp=inp, detail=f"{o.text!r}: {whyc}")
            # Empty precedes the guard
            for e_arg in (("Empty:''", "Empty", "", True),):
                outs, f = B.call_method_ident(model, meth, r, [e_arg])
                for o in outs:
                    ctx.instance("R-LB-GUARD", key=(meth, r[0], "Empty"), sample=f"{meth} assertion=Empty: {o.describe()}")
                    if o.kind == "raise" and o.exc.name == NFW:
                        ctx.violation("R-LB-GUARD", f.relpath, f.short, "<guard order>", f"{meth}: empty assertion reaches the width guard",
                                      f.node.lineno)

    # ---------------- R-LB-GUARD, the MATCH pattern is the empty pattern: the width of the assertion is checked all the same
    empty_recv = ("Empty:''", "Empty", "", True)
    for meth in LOOKBEHIND:
        for label, t, text, fixed in [x for x in shapes if x[0].endswith("Token:'p'") or x[0].endswith("Class:'[pq]'")][:24]:
            outs, f = B.call_method_ident(model, meth, empty_recv, [(label, t, text, True)])
            for o in outs:
                inp = f"{meth} on the empty match pattern, assertion={label} -> {text!r}"
                ctx.instance("R-LB-GUARD", key=(meth, "empty match", label), sample=f"{inp}: {o.describe()}")
                raised = o.kind == "raise" and o.exc.name == NFW
                if not fixed and not raised:
                    ctx.violation("R-LB-GUARD", f.relpath, f.short, "<guard skipped for an empty match pattern>",
                                  f"{meth} accepts a variable-width assertion pattern when the match pattern is empty",
                                  f.node.lineno, inp=inp, detail=o.describe())
                if fixed and raised:
                    ctx.violation("R-LB-GUARD", f.relpath, f.short, "<guard>", f"{meth} refuses a fixed-width assertion pattern", f.node.lineno, inp=inp)

    # ---------------- R-LB-GUARD, class forms with several assertion patterns: every one of them is checked
    ASR = "pregex.core.assertions"
    var_ops = [("p?", "optional"), ("p{2,3}", "range"), ("p{2,10}", "range with a two-digit bound"), ("p*", "star"), ("[pq]+", "plus on a class")]
    if ctx.tier == "quick":
        var_ops = var_ops[:3]
    for cname in ("PrecededBy", "NotPrecededBy", "EnclosedBy", "NotEnclosedBy"):
        ci = model.cls(ASR, cname)
        init = ci.find_method("__init__")
        for vtext, vlabel in var_ops:
            mkv = lambda vtext=vtext: make_operand(model, vtext, "Quantifier", True)
            mkf = lambda: make_operand(model, "pq", "Other", True)
            recv_ = lambda: make_operand(model, "st", "Other", True)
            arrangements = {
                "variable only": lambda: [recv_(), mkv()],
                "empty match pattern (str), variable": lambda: ["", mkv()],
                "empty match pattern (Pregex), variable, fixed": lambda: [make_operand(model, "", "Empty", True), mkv(), mkf()],
                "fixed, then variable": lambda: [recv_(), mkf(), mkv()],
                "variable, then fixed": lambda: [recv_(), mkv(), mkf()],
                "literal with the same raw text, then variable": lambda vtext=vtext: [recv_(), vtext, mkv()],
                "variable, then literal with the same raw text": lambda vtext=vtext: [recv_(), mkv(), vtext],
                "fixed, fixed, variable": lambda: [recv_(), mkf(), "r", mkv()],
            }
            for alabel, mkargs in arrangements.items():
                outs = B.run_thunk(model, lambda it, ci=ci, mkargs=mkargs: it.construct(ci, mkargs()))
                for o in outs:
                    inp = f"{cname}(match, {alabel}) with {vlabel} {vtext!r}"
                    ctx.instance("R-LB-GUARD", key=inp, sample=f"{inp}: {o.describe()}")
                    if not (o.kind == "raise" and o.exc.name == NFW):
                        ctx.violation("R-LB-GUARD", init.relpath, f"{cname}.__init__", "<guard on every assertion pattern>",
                                      f"{cname} accepts a variable-width assertion pattern among several assertion patterns",
                                      init.node.lineno, inp=f"{cname}: {alabel}", detail=f"{inp}: {o.describe()}")
        # and a literal that merely looks like a quantified pattern stays accepted
        outs = B.run_thunk(model, lambda it, ci=ci: it.construct(ci, [make_operand(model, "st", "Other", True), "p?", "q*"]))
        for o in outs:
            ctx.instance("R-LB-GUARD", key=(cname, "literals"), sample=f"{cname}(match, 'p?', 'q*'): {o.describe()}")
            if o.kind == "raise":
                ctx.violation("R-LB-GUARD", init.relpath, f"{cname}.__init__", "<literals refused>",
                              f"{cname} refuses literal strings that contain quantifier characters", init.node.lineno, detail=o.describe())

    # ---------------- R-LB-SIBLING
    sites = guard_sites(model)
    ctx.floor("R-LB-SIBLING", len(sites), 4, "look-behind builders")
    trees = []
    for f, const, test in sites:
        ctx.instance("R-LB-SIBLING", key=f.short, sample=f"{f.short}: guard constant {const!r}" if const else f"{f.short}: guard {norm_text(test) if test is not None else None}")
        if test is None:
            # no guard is visible in the builder or in a helper of its class (it may live deeper / in another module):
            # nothing to cross-check syntactically; whether THIS builder refuses variable-width operands is decided
            # per builder by R-LB-GUARD / R-LB-WIDTH (a builder without any guard fails there)
            ctx.note(f"R-LB-SIBLING: no guard constant visible in {f.short}; sibling agreement rests on R-LB-GUARD / R-LB-WIDTH")
            trees.append(None)
            continue
        if const is None:
            trees.append(("text", norm_text(test)))
            continue
        try:
            trees.append(("tree", parse_regex(const)[0]))
        except re.error as e:
            ctx.violation("R-LB-SIBLING", f.relpath, f.short, "<guard constant>", f"guard constant does not parse: {e}", f.node.lineno)
            trees.append(None)
    ref = next((t for t in trees if t is not None), None)
    for (f, const, test), t in zip(sites, trees):
        if t is not None and ref is not None and t != ref:
            ctx.violation("R-LB-SIBLING", f.relpath, f.short, "<guard constant>",
                          "the fixed-width guard of this builder differs from its siblings'", f.node.lineno,
                          detail=f"{const!r}")

    # ---------------- R-LB-WIDTH (catalogue)
    catalogue = [
        ("literal 'pq'", "Other", "pq"), ("escaped literal '?'", "Token", "\\?"), ("escaped literal 'a+b'", "Other", "a\\+b"),
        ("escaped literal '{1,2}'", "Other", "\\{1,2\\}"), ("escaped literal '('", "Token", "\\("), ("literal '\\\\\\\\+' (backslash then quantifier)", "Quantifier", "\\\\+"),
        ("escaped backslash then escaped '*'", "Other", "\\\\\\*"), ("escaped backslash then escaped '?' then 'a'", "Other", "\\\\\\?a"),
        ("'a' + escaped backslash + escaped '+' + 'b'", "Other", "a\\\\\\+b"), ("two escaped backslashes then '*'", "Quantifier", "\\\\\\\\*"),
        ("escaped '(' then '?'", "Quantifier", "\\(?"), ("escaped backslash, escaped '(', then '+'", "Quantifier", "\\\\\\(+"),
        ("class [pq]", "Class", "[pq]"), ("class containing '?'", "Class", "[?p]"), ("class containing '+' and '-'", "Class", "[+\\-]"),
        ("class containing '*'", "Class", "[*]"), ("class containing '{'", "Class", "[{}]"),
        ("equal-width alternation", "Alternation", "p|q"), ("equal-width alternation (2)", "Alternation", "pq|rw"),
        ("unequal alternation", "Alternation", "p|qr"), ("unequal alternation in a group", "Group", "(?:p|qr)"),
        ("nested negative look-behind", "Assertion", "(?<!p)q"), ("nested look-ahead", "Assertion", "p(?=q)"),
        ("word boundary", "Assertion", "\\bp"), ("exact repetition", "Quantifier", "p{3}"), ("optional", "Quantifier", "p?"),
        ("lazy star", "Quantifier", "p*?"), ("range", "Quantifier", "[pq]{2,3}"), ("group then '?'", "Quantifier", "(?:pq)?"),
        ("exact repetition, two digits", "Quantifier", "p{12}"), ("range with a two-digit bound", "Quantifier", "p{2,10}"),
        ("open range with a two-digit bound", "Quantifier", "p{10,}"), ("at-most range with a two-digit bound", "Quantifier", "[pq]{,16}"),
        ("range with three-digit bounds", "Quantifier", "p{100,250}"), ("literal then two-digit range", "Quantifier", "id\\d{,10}"),
        ("escaped backslash then non-capturing group", "Other", "\\\\(?:pq|rw)"), ("escaped backslash then named group", "Other", "\\\\(?P<g>pq)"),
        ("escaped backslash then flagged group", "Other", "\\\\(?i:pq)"), ("two escaped backslashes then group", "Other", "\\\\\\\\(?:pq)"),
        ("escaped '(' then non-capturing group", "Other", "\\((?:pq)"),
        ("non-capturing group '(?:pq)'", "Group", "(?:pq)"), ("named group", "Group", "(?P<g>pq)"), ("flagged group", "Group", "(?i:pq)"),
    ]
    # generated part: atom x quantifier x context (the hand-written part above names the property's special cases; this
    # part makes sure no combination of an ordinary atom, a quantifier form and an enclosing construct falls between them)
    atoms = [("p", "Token"), ("\\d", "Class"), ("\\.", "Token"), ("\\\\", "Token"), ("[pq]", "Class"), (".", "Class"),
             ("(?:pq)", "Group"), ("(p)", "Group"), ("(?P<g>p)", "Group"), ("\\(", "Token"), ("\\)", "Token")]
    quants = ["?", "*", "+", "{2,}", "{,3}", "{2,3}", "{3}", "+?", "{2,3}?", "{11,12}", "{12}", ""]
    contexts = [("{}", None), ("r{}", "Other"), ("{}r", "Other"), ("({})", "Group"), ("(?:{})", "Group"), ("(?P<h>{})", "Group"),
                ("\\\\{}", "Other"), ("\\({}", "Other"), ("({})r", "Other"), ("r({})", "Other"), ("\\d{}", "Other"), ("(?:r|{})", "Group")]
    if ctx.tier == "quick":       # every atom, quantifier and context occurs, each pair of (quantifier, context) occurs
        gen = [(a, q, c) for i, a in enumerate(atoms) for j, q in enumerate(quants) for k, c in enumerate(contexts) if (i + j + k) % 3 == 0]
    else:
        gen = [(a, q, c) for a in atoms for q in quants for c in contexts]
    # classes whose text ENDS in an escaped backslash (`[/\\]`), followed by further classes: a guard that searches a
    # "simplified" text in which classes were collapsed by a regex that takes `\]` for an escaped bracket loses the
    # quantifier between the two classes (all tiers: every quantifier form, with a class to the right / on both sides)
    bs_atoms = [("[/\\\\]", "Class"), ("[\\d\\\\]", "Class"), ("[^\\\\]", "Class")]
    bs_contexts = [("{}[rs]", "Other"), ("{}\\d[rs]", "Other"), ("[rs]{}[tu]", "Other"), ("{}", None), ("{}r", "Other"), ("({})[rs]", "Other")]
    gen = gen + [(a, q, c) for a in bs_atoms for q in quants for c in bs_contexts]
    seen_txt = {c[2] for c in catalogue}
    for (atext, atag), q, (tmpl, ctag) in gen:
        text = tmpl.format(atext + q)
        if text in seen_txt or fixed_width(text) is None or fixed_width(tmpl.format(atext)) is not True or \
                (fixed_width(text) is False and fixed_width(atext + q) is True):
            continue          # (unparsable, or variable for another reason than the quantifier: alternation lengths - see known findings)
        seen_txt.add(text)
        tag = ctag or ("Quantifier" if q else atag)
        catalogue.append((f"generated {text!r}", tag, text))
    r = recvs[0]
    for meth in LOOKBEHIND:
        f = model.method(PRE, "Pregex", meth)
        for label, t, text in catalogue:
            fx = fixed_width(text)
            if fx is None:
                raise AnalysisError(f"catalogue text {text!r} does not parse")
            a = (label, t, text, True)
            outs, f = B.call_method_ident(model, meth, r, [a])
            for o in outs:
                raised = o.kind == "raise" and o.exc.name == NFW
                inp = f"{label}: {text!r}"
                ctx.instance("R-LB-WIDTH", key=(meth, label), sample=f"{meth} assertion {inp}: fixed={fx} -> {o.describe()}")
                if fx and raised:
                    ctx.violation("R-LB-WIDTH", f.relpath, f.short, "fixed-width operand refused",
                                  f"{meth} refuses a fixed-width assertion pattern", f.node.lineno, inp=inp)
                elif not fx and not raised and o.kind == "raise":
                    ctx.violation("R-LB-WIDTH", f.relpath, f.short, "variable-width operand: wrong exception",
                                  f"{meth} fails with {o.exc.name} instead of {NFW} on a variable-width assertion pattern",
                                  f.node.lineno, inp=inp, detail=o.describe())
                elif not fx and not raised:
                    ctx.violation("R-LB-WIDTH", f.relpath, f.short, "variable-width operand accepted",
                                  f"{meth} accepts an assertion pattern without a single fixed width", f.node.lineno, inp=inp,
                                  detail=o.describe())
    ctx.extra["catalogue"] = [c[0] for c in catalogue]
