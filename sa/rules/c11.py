"""C11 - matching methods return exactly what `re` finds, compiled or not.

R-DUAL   the compiled and the uncompiled arm are the same `re` entry point on the same text
R-SOURCE every matching method hands `re` exactly the caller's text (witnesses with a BOM, line endings, blanks, NUL and
         the source's own string constants at the edges)
R-FLAGS  one flag constant = MULTILINE|DOTALL, used by both arms, compile() and replace()
R-CACHE  typestate of the compiled cache (who may write; get_compiled_pattern semantics)
R-WRAP   get_* == list(iterate_*) with every parameter forwarded to its namesake
R-YIELD  iterate_matches / _and_pos yield group 0 (and that group's own span) per match, in order
"""
from __future__ import annotations

from ..absdom import pattern_of

import ast
import re

from ..interp import FuncRef, Interp, Native, PyRaise
from ..model import AnalysisError, mangle, norm_text
from . import matching as MM
from .matching import PRE, TEXT, PAT, RE_FLAGS

DUAL = {"has_match": "search", "is_exact_match": "fullmatch", "__iterate_match_objects": "finditer"}
# entry points that decide the same question: a match exists <=> finditer yields one
ALSO_OK = {"has_match": {"finditer"}}
WRAPPERS = ["matches", "matches_and_pos", "matches_with_context", "captures", "captures_and_pos",
            "named_captures", "named_captures_and_pos"]


class Marker(Native):
    def __init__(self, name):
        self.name = name

    def __repr__(self):
        return f"<{self.name}>"

    def sa_eq(self, interp, other):
        return other is self


def _fold_compile(calls):
    """re.compile(P, F).entry(text) is the module-level re.entry(P, text, F) spelled in two steps (CPython's module
    functions are defined exactly so): a compile immediately followed by one call on the object it returned counts
    as one module-arm call with that pattern and those flags."""
    out = []
    i = 0
    while i < len(calls):
        c = calls[i]
        if c["via"] == "module" and c["entry"] == "compile" and i + 1 < len(calls) and calls[i + 1]["via"] == "compiled" \
                and calls[i + 1]["pattern"] == c["pattern"] and calls[i + 1]["flags"] == c["flags"]:
            out.append(dict(calls[i + 1], via="module"))
            i += 2
        else:
            out.append(c)
            i += 1
    return out


def run(ctx, model):
    from . import signatures as _sig
    _n_sig = _sig.check(ctx, model, "R-SIGNATURE", lambda k: k.split('.')[-1] in ('has_match', 'is_exact_match', 'iterate_matches', 'iterate_matches_and_pos', 'get_matches', 'get_matches_and_pos', 'compile', 'get_compiled_pattern', 'get_pattern', 'print_pattern', 'purge'))
    ctx.floor("R-SIGNATURE", _n_sig, 1, "public entry points")
    ctx.explanation = (
        "The methods of Pregex that call `re` are walked by the abstract interpreter with `re` replaced by a "
        "recorder and the compiled cache being None or an abstract compiled pattern.  R-DUAL: for has_match / "
        "is_exact_match / __iterate_match_objects the uncompiled arm must be exactly one call re.F(pattern field, "
        "text, flags=class flags) and the compiled arm exactly one call cache.F(text) with the same F (search / "
        "fullmatch / finditer respectively) and the same text; results are passed through unchanged (bool of the "
        "match, the iterator itself).  R-FLAGS: the class flag constant evaluates to MULTILINE|DOTALL and is what "
        "compile() and both arms use.  R-CACHE: who-may-write rule on the cache field over the whole package plus "
        "interpretation of get_compiled_pattern(True|False) from both cache states - every interleaving of "
        "compile / get_compiled_pattern / purge / matching is therefore a walk in a two-state machine whose states "
        "answer through the same entry point.  R-WRAP: each get_* binds every parameter to the same-named "
        "parameter of the same-named iterate_* and returns its items in order.  R-YIELD: iterate_matches(_and_pos) "
        "yield group 0 and its own span for each abstract match, in order.")
    ctx.assumptions += [
        "the text compile() compiles (get_pattern(), the printable export) is an equivalent regex to the text the uncompiled path "
        "uses: decided by R-EXPORT-EQ for every DSL-escaped text over an adversarial alphabet up to length 3/4, not for all patterns",
        "what re itself returns (leftmost, non-overlapping, MULTILINE/DOTALL semantics) is re's documented behaviour",
    ]
    P = model.pregex

    # ---------------- R-FLAGS
    fl_name = "_Pregex__flags"
    if fl_name not in P.attrs:
        raise AnalysisError("anchor vanished: Pregex.__flags")
    it = Interp(model)
    flags = it.getattr(it.new_obj(P), "_Pregex__flags", None)
    ctx.instance("R-FLAGS", key="const", sample=f"Pregex.__flags = {flags!r}")
    if flags != RE_FLAGS:
        ctx.violation("R-FLAGS", P.module.relpath, "Pregex", norm_text(P.attr_nodes[fl_name]),
                      f"class flag constant is {flags!r}, the property requires MULTILINE|DOTALL",
                      P.attr_nodes[fl_name].lineno)
    n_w = 0
    for fn in model.all_functions():
        clsname = fn.cls.name if fn.cls else None
        for node in ast.walk(fn.node):
            if isinstance(node, ast.Attribute) and isinstance(node.ctx, (ast.Store, ast.Del)) \
                    and mangle(node.attr, clsname) == fl_name:
                n_w += 1
                ctx.violation("R-FLAGS", fn.relpath, fn.short, norm_text(model.parents.get(node)),
                              "the flag constant is reassigned at run time", node.lineno)
    ctx.instance("R-FLAGS", key="writers", sample=f"{n_w} run-time stores to the flag constant (expected 0)")

    # ---------------- R-DUAL
    for meth, entry in DUAL.items():
        if meth == "__iterate_match_objects":
            try:
                f = model.method(PRE, "Pregex", meth)
                ps = [p_ for p_ in f.params if p_ not in ("self", "cls")]
                if not (len(ps) == 2 and "path" in ps[1]):
                    raise AnalysisError("the private iterator does not have the signature (source, is_path)")
            except AnalysisError:
                # no dedicated private iterator (e.g. one dispatcher for all three): the finditer site is observed
                # through the public generator that yields matches with their positions
                meth = "iterate_matches_and_pos"
                f = model.method(PRE, "Pregex", meth)
        else:
            f = model.method(PRE, "Pregex", meth)
        for has in (True, False):
            mf = (lambda subj: MM.std_matches(subj)) if has else (lambda subj: [])
            res = {}
            for compiled in (False, True):
                args = [TEXT] if meth != "__iterate_match_objects" else [TEXT, False]
                kind, v, hooks, o = MM.run_method(model, meth, args, compiled=compiled, matches_for=mf)
                if meth == "iterate_matches_and_pos" and kind == "return":
                    try:
                        v = [MM.AbsMatch(TEXT, s_, e_) for _, s_, e_ in list(v)]
                    except PyRaise as e:
                        kind, v = "raise", e
                calls = _fold_compile([c for c in hooks.calls])
                inp = f"{meth} compiled={compiled} text-has-match={has}"
                ctx.instance("R-DUAL", key=inp, sample=f"{inp}: calls={[(c['via'], c['entry'], c.get('subject')) for c in calls]} -> {v!r}")
                if kind == "raise":
                    ctx.violation("R-DUAL", f.relpath, f.short, "<raise>", f"{meth} raises {v.name}", f.node.lineno, inp=inp)
                    continue
                res[compiled] = v
                want_via = "compiled" if compiled else "module"
                if len(calls) != 1:
                    ctx.violation("R-DUAL", f.relpath, f.short, "<re calls>",
                                  f"{meth}: expected exactly one re call on this arm, saw {len(calls)}", f.node.lineno, inp=inp,
                                  detail=str([(c['via'], c['entry']) for c in calls]))
                    continue
                c = calls[0]
                if c["via"] != want_via:
                    ctx.violation("R-DUAL", f.relpath, f.short, "<arm selection>",
                                  f"{meth}: the {'compiled' if compiled else 'uncompiled'} state answers through the "
                                  f"{'module' if compiled else 'cached'} path", f.node.lineno, inp=inp)
                if c["entry"] != entry and c["entry"] not in ALSO_OK.get(meth, ()):
                    ctx.violation("R-DUAL", f.relpath, f.short, f"{c['via']}.{c['entry']}",
                                  f"{meth} must use re's `{entry}`, the {want_via} arm calls `{c['entry']}`",
                                  f.node.lineno, inp=inp)
                if c["subject"] != TEXT:
                    ctx.violation("R-DUAL", f.relpath, f.short, f"{c['via']}.{c['entry']} subject",
                                  f"{meth}: the {want_via} arm does not search the given text", f.node.lineno, inp=inp,
                                  detail=f"subject={c['subject']!r}")
                if c.get("pos") not in (None, 0) or (c.get("endpos") is not None and c.get("endpos") < 2 ** 31):
                    ctx.violation("R-DUAL", f.relpath, f.short, f"{c['via']}.{c['entry']} pos/endpos",
                                  f"{meth}: search window restricted", f.node.lineno, inp=inp)
                if not compiled:
                    if c["pattern"] != PAT:
                        ctx.violation("R-DUAL", f.relpath, f.short, "module arm pattern",
                                      f"{meth}: the uncompiled arm does not use the instance's pattern text",
                                      f.node.lineno, inp=inp, detail=f"pattern={c['pattern']!r}")
                    if c["flags"] != RE_FLAGS:
                        ctx.violation("R-DUAL", f.relpath, f.short, "module arm flags",
                                      f"{meth}: the uncompiled arm runs under flags {c['flags']!r} instead of MULTILINE|DOTALL",
                                      f.node.lineno, inp=inp)
                # result passthrough
                if meth in ("__iterate_match_objects", "iterate_matches_and_pos"):
                    want = MM.std_matches(TEXT) if has else []
                    try:
                        got = list(v)
                    except TypeError:
                        got = None
                    if got is None or [(m.s, m.e) for m in got] != [(m.s, m.e) for m in want]:
                        ctx.violation("R-DUAL", f.relpath, f.short, "<result>", f"{meth} does not return re's iterator unchanged",
                                      f.node.lineno, inp=inp)
                elif v is not has:
                    ctx.violation("R-DUAL", f.relpath, f.short, "<result>",
                                  f"{meth} returns {v!r} when re's {entry} {'finds a match' if has else 'finds nothing'}",
                                  f.node.lineno, inp=inp)
    ctx.floor("R-DUAL", ctx.rule_counts.get("R-DUAL", 0), 12, "dual-path evaluations")
    # both arms must be applied to exactly the caller's text (edge-sensitive witnesses: BOM, line endings, blanks ...)
    MM.subject_rule(ctx, model, "R-SOURCE", sorted(MM.matching_methods(model)))

    # ---------------- R-DUAL, repeated use of ONE instance: the n-th call does what the first call does (a usage counter, a
    # "hot path" after k scans, a lazily promoted cache must not change which re entry point, pattern, flags or text is used).
    # n ranges over the neighbours of every integer constant in the matching code, so a threshold is crossed.
    from ..consts import interesting_ints, around
    from ..interp import Interp as _Interp
    meths_all = MM.matching_methods(model)
    reach, todo = [], list(meths_all.values()) + [model.method(PRE, "Pregex", "compile")]
    while todo:
        g = todo.pop()
        if g not in reach and len(reach) < 60:
            reach.append(g)
            todo += model._private_callees(g)
    limit = max([3] + [c for c in around(interesting_ints(reach, lo=2, hi=400))]) + 2
    ctx.extra["R-DUAL repeated calls on one instance"] = limit
    for name in sorted(meths_all):
        f = meths_all[name]
        kw = {p: (TEXT if p == "source" else False if p == "is_path" else 1 if p in ("n_left", "n_right") else "<repl>" if p == "repl"
                  else 0 if p == "count" else True) for p in f.params if p != "self"}
        for compiled in (False, True):
            hooks = MM.MatchHooks(model, MM.std_matches)
            it = _Interp(model, hooks, fuel=4_000_000)
            o = MM.pregex_obj(model, hooks, compiled)
            first, bad = None, None
            try:
                for k in range(1, limit + 1):
                    n0 = len(hooks.calls)
                    v = it.call(FuncRef(f, o, True), [], dict(kw))
                    if hasattr(v, "__next__"):
                        list(v)
                    sig = [(c.get("via"), c.get("entry"), c.get("pattern"), int(c.get("flags") or 0), c.get("subject")) for c in _fold_compile(hooks.calls[n0:])]
                    if first is None:
                        first = sig
                    elif sig != first and bad is None:
                        bad = (k, sig)
            except PyRaise as e:
                bad = bad or (k, f"raises {e.name}")
            inp = f"{name} called {limit} times on one {'compiled' if compiled else 'uncompiled'} instance"
            ctx.instance("R-DUAL", key=inp, sample=f"{inp}: every call makes the re calls of the first one: {bad is None}")
            if bad is not None:
                ctx.violation("R-DUAL", f.relpath, f.short, "<re calls change with use>",
                              "the same call on the same instance uses re differently after repeated use (entry point, pattern, flags or text)",
                              f.node.lineno, inp=inp, detail=f"call 1: {first}; call {bad[0]}: {bad[1]}")

    # ---------------- R-CACHE
    from ..absdom import cache_field, pattern_of
    cache = cache_field(model)
    allowed = {"__init__": "none", "compile": "compile", "get_compiled_pattern": "none"}
    writers = []
    for fn in model.all_functions():
        clsname = fn.cls.name if fn.cls else None
        for node in ast.walk(fn.node):
            if isinstance(node, ast.Attribute) and isinstance(node.ctx, (ast.Store, ast.Del)) \
                    and mangle(node.attr, clsname) == cache:
                writers.append((fn, node))
            if isinstance(node, ast.Call) and isinstance(node.func, ast.Name) and node.func.id in ("setattr", "delattr"):
                writers.append((fn, node))
    for fn, node in writers:
        st = node
        while st is not None and not isinstance(st, ast.stmt):
            st = model.parents.get(st)
        ok = fn.cls is P and fn.node.name in allowed and isinstance(node, ast.Attribute)
        if ok:
            val = st.value if isinstance(st, (ast.Assign, ast.AnnAssign)) else None
            if isinstance(st, ast.Assign) and len(st.targets) == 1 and isinstance(st.targets[0], ast.Tuple) and isinstance(val, ast.Tuple) \
                    and len(val.elts) == len(st.targets[0].elts) and node in st.targets[0].elts:
                val = val.elts[st.targets[0].elts.index(node)]       # `old, self.cache = self.cache, None`
            if allowed[fn.node.name] == "none":
                ok = isinstance(val, ast.Constant) and val.value is None
            else:
                # any call is accepted here: that it IS one re.compile of the exported text under the class flags is
                # decided semantically just below (compile() interpreted over the abstract `re` layer)
                ok = isinstance(val, ast.Call)
        ctx.instance("R-CACHE", key=("writer", fn.short, norm_text(st)), sample=f"writer {fn.short}: {norm_text(st)}")
        if not ok:
            ctx.violation("R-CACHE", fn.relpath, fn.short, norm_text(st),
                          "the compiled cache is written outside __init__ (None) / compile (re.compile) / "
                          "get_compiled_pattern (None)", node.lineno)
    ctx.floor("R-CACHE", len(writers), 2, "writers of the compiled cache")
    # compile(): one re.compile with the class flags
    kind, v, hooks, o = MM.run_method(model, "compile", [])
    cf = model.method(PRE, "Pregex", "compile")
    comp_calls = [c for c in hooks.calls if c["entry"] == "compile"]
    ctx.instance("R-CACHE", key="compile()", sample=f"compile(): {[(c['entry'], c['pattern'], c['flags']) for c in hooks.calls]}")
    if kind == "raise" or len(comp_calls) != 1 or not isinstance(o.fields.get(cache), MM.AbsCompiled):
        ctx.violation("R-CACHE", cf.relpath, cf.short, "<compile>", "compile() does not store one re.compile result in the cache",
                      cf.node.lineno)
    elif comp_calls[0]["flags"] != RE_FLAGS:
        ctx.violation("R-FLAGS", cf.relpath, cf.short, "re.compile flags",
                      f"compile() compiles under flags {comp_calls[0]['flags']!r}, matching uses MULTILINE|DOTALL",
                      cf.node.lineno)
    # get_compiled_pattern from both states, both discard settings
    gf = model.method(PRE, "Pregex", "get_compiled_pattern")
    for pre_compiled in (False, True):
        for discard in (True, False, None):
            args = [] if discard is None else [discard]
            kind, v, hooks, o = MM.run_method(model, "get_compiled_pattern", args, compiled=pre_compiled)
            eff_discard = True if discard is None else discard
            inp = f"cache={'set' if pre_compiled else 'None'} discard_after={discard}"
            after = o.fields.get(cache)
            ctx.instance("R-CACHE", key=inp, sample=f"get_compiled_pattern {inp} -> {v!r}; cache after = {after!r}")
            if kind == "raise" or not isinstance(v, MM.AbsCompiled):
                ctx.violation("R-CACHE", gf.relpath, gf.short, "<result>", "get_compiled_pattern does not return a compiled pattern",
                              gf.node.lineno, inp=inp)
                continue
            if v.flags != RE_FLAGS:
                ctx.violation("R-CACHE", gf.relpath, gf.short, "<result flags>", "returned pattern compiled under other flags",
                              gf.node.lineno, inp=inp)
            if eff_discard and after is not None:
                ctx.violation("R-CACHE", gf.relpath, gf.short, "<cache after>", "discard_after=True leaves the cache set",
                              gf.node.lineno, inp=inp)
            if not eff_discard and after is not v:
                ctx.violation("R-CACHE", gf.relpath, gf.short, "<cache after>",
                              "discard_after=False does not retain the returned pattern in the cache", gf.node.lineno, inp=inp)
    # purge touches only re's module cache
    kind, v, hooks, o = MM.run_method(model, "purge", [], compiled=True)
    pf = model.method(PRE, "Pregex", "purge")
    ctx.instance("R-CACHE", key="purge", sample=f"purge(): calls={[c['entry'] for c in hooks.calls]}")
    if kind == "raise" or not isinstance(o.fields.get(cache), MM.AbsCompiled) or pattern_of(o) != PAT:
        ctx.violation("R-CACHE", pf.relpath, pf.short, "<purge>", "purge() disturbs the instance", pf.node.lineno)

    # ---------------- R-WRAP
    import itertools
    for w in WRAPPERS:
        gname, iname = f"get_{w}", f"iterate_{w}"
        gf_ = model.method(PRE, "Pregex", gname)
        if_ = model.method(PRE, "Pregex", iname)
        gparams = [p for p in gf_.params if p != "self"]
        iparams = [p for p in if_.params if p != "self"]
        if gparams != iparams:
            ctx.violation("R-WRAP", gf_.relpath, gf_.short, "<signature>",
                          f"{gname}{tuple(gparams)} and {iname}{tuple(iparams)} take different parameters", gf_.node.lineno)
            continue
        if _defaults(gf_) != _defaults(if_):
            ctx.violation("R-WRAP", gf_.relpath, gf_.short, "<defaults>",
                          f"default values differ: {gname} {_defaults(gf_)} vs {iname} {_defaults(if_)}", gf_.node.lineno)
        domains = []
        for p in gparams:
            if p == "source":
                domains.append([None])
            elif p in ("n_left", "n_right"):
                domains.append([0, 2] if p == "n_left" else [1, 30])
            else:
                domains.append([False, True])
        for combo in itertools.product(*domains):
            kw = dict(zip(gparams, combo))
            kw["source"] = MM.PATH if kw.get("is_path") else TEXT
            for compiled in (False, True):
                rg = MM.run_method(model, gname, [], kw, compiled=compiled, matches_for=MM.std_matches)
                ri = MM.run_method(model, iname, [], kw, compiled=compiled, matches_for=MM.std_matches)
                inp = f"{gname}({', '.join(f'{k}={v!r}' for k, v in kw.items() if k != 'source')}) compiled={compiled}"
                ctx.instance("R-WRAP", key=inp, sample=f"{inp}: get -> {str(rg[1])[:80]}")
                same = rg[0] == ri[0] and ((rg[0] == "raise" and rg[1].name == ri[1].name) or
                                          (rg[0] == "return" and isinstance(rg[1], list) and rg[1] == list(ri[1])))
                if not same:
                    ctx.violation("R-WRAP", gf_.relpath, gf_.short, "<result>",
                                  f"{gname} does not return list({iname}(same arguments))", gf_.node.lineno, inp=inp,
                                  detail=f"get: {str(rg[1])[:120]}  iterate: {str(ri[1])[:120]}")
    ctx.floor("R-WRAP", ctx.rule_counts.get("R-WRAP", 0), 7 * 4, "get_*/iterate_* comparisons")

    # ---------------- R-EXPORT-EQ
    cf2 = model.method(PRE, "Pregex", "compile")
    kind, v, hooks, o = MM.run_method(model, "compile", [])
    comp_calls = [c for c in hooks.calls if c["entry"] == "compile"]
    if comp_calls and comp_calls[0]["pattern"] != PAT:
        export_equivalence(ctx, model)     # compile() uses an exported form of the text: it must be an equivalent regex
    else:
        ctx.instance("R-EXPORT-EQ", key="identity", sample="compile() compiles the internal text itself")

    # ---------------- R-YIELD
    for compiled in (False, True):
        for meth in ("iterate_matches", "iterate_matches_and_pos"):
            f = model.method(PRE, "Pregex", meth)
            kind, v, hooks, o = MM.run_method(model, meth, [TEXT], compiled=compiled, matches_for=MM.std_matches)
            ms = MM.std_matches(TEXT)
            want = [m.value_of(0) for m in ms] if meth == "iterate_matches" else [(m.value_of(0), m.s, m.e) for m in ms]
            inp = f"{meth} compiled={compiled}"
            ctx.instance("R-YIELD", key=inp, sample=f"{inp} -> {v!r}")
            if kind == "raise" or list(v) != want:
                ctx.violation("R-YIELD", f.relpath, f.short, "<yielded items>",
                              f"{meth} does not yield group 0{' with its own span' if 'pos' in meth else ''} for each match in order",
                              f.node.lineno, inp=inp, detail=f"got {v!r}, want {want!r}")


def export_equivalence(ctx, model):
    """R-EXPORT-EQ: compile() compiles get_pattern() (the printable export) while the uncompiled arm uses the internal
    text; the two must be the same regex.  Decided for every DSL-escaped text over an adversarial alphabet (shared
    with C03 R-EXPORT)."""
    from .c03 import _export
    _export(ctx, model, RULE="R-EXPORT-EQ")


def _defaults(f):
    a = f.node.args
    params = a.posonlyargs + a.args
    ds = a.defaults
    out = {}
    for p, d in zip(params[len(params) - len(ds):], ds):
        out[p.arg] = ast.unparse(d)
    return out
