"""Outcome computation for the non-quantifier builders (operators, groups, anchors,
look-arounds) in method, class and operator spelling.  Shared by C02, C05, C08, C09, C10."""
from __future__ import annotations

import ast
import re

from ..absdom import PregexHooks, make_operand, parse_regex, witnesses, check_type_enum, infer_empty_rule, pattern_of
from ..interp import FuncRef, Incomplete, Interp, Obj, PyRaise, explore
from ..model import AnalysisError, Model, norm_text

PRE = "pregex.core.pre"
NONTERM = [0]   # number of inputs on which the step budget was exhausted (process-wide)
FUEL = 25000    # steps per path: the builders are straight-line code (a path takes < 3000 steps)


class NonTermination(Exception):
    """Pseudo-exception: the interpreted code exceeded the step budget (unbounded recursion / loop)."""

UNARY_REF = {
    "match_at_start": lambda R: f"\\A(?:{R})",
    "match_at_end": lambda R: f"(?:{R})\\Z",
    "match_at_line_start": lambda R: f"^(?:{R})",
    "match_at_line_end": lambda R: f"(?:{R})$",
}
BINARY_REF = {
    "concat": lambda R, A: f"(?:{R})(?:{A})",
    "either": lambda R, A: f"(?:{R})|(?:{A})",
    "enclose": lambda R, A: f"(?:{A})(?:{R})(?:{A})",
    "followed_by": lambda R, A: f"(?:{R})(?={A})",
    "preceded_by": lambda R, A: f"(?<={A})(?:{R})",
    "enclosed_by": lambda R, A: f"(?<={A})(?:{R})(?={A})",
    "not_followed_by": lambda R, A: f"(?:{R})(?!{A})",
    "not_preceded_by": lambda R, A: f"(?<!{A})(?:{R})",
    "not_enclosed_by": lambda R, A: f"(?<!{A})(?:{R})(?!{A})",
}
LOOKBEHIND = {"preceded_by", "enclosed_by", "not_preceded_by", "not_enclosed_by"}
POSITIVE = {"followed_by", "preceded_by", "enclosed_by"}
NEGATIVE = {"not_followed_by", "not_preceded_by", "not_enclosed_by"}
ANCHORS = list(UNARY_REF)

CLASS_FORMS = {
    # class -> (module, method, kind)
    "Concat": ("pregex.core.operators", "concat", "fold"),
    "Either": ("pregex.core.operators", "either", "fold"),
    "Enclose": ("pregex.core.operators", "enclose", "fold"),
    "Capture": ("pregex.core.groups", "capture", "unary+name"),
    "Group": ("pregex.core.groups", "group", "unary+flag"),
    "MatchAtStart": ("pregex.core.assertions", "match_at_start", "unary"),
    "MatchAtEnd": ("pregex.core.assertions", "match_at_end", "unary"),
    "MatchAtLineStart": ("pregex.core.assertions", "match_at_line_start", "unary"),
    "MatchAtLineEnd": ("pregex.core.assertions", "match_at_line_end", "unary"),
    "FollowedBy": ("pregex.core.assertions", "followed_by", "fold2"),
    "PrecededBy": ("pregex.core.assertions", "preceded_by", "fold2"),
    "EnclosedBy": ("pregex.core.assertions", "enclosed_by", "fold2"),
    "NotFollowedBy": ("pregex.core.assertions", "not_followed_by", "fold2"),
    "NotPrecededBy": ("pregex.core.assertions", "not_preceded_by", "fold2"),
    "NotEnclosedBy": ("pregex.core.assertions", "not_enclosed_by", "fold2"),
}


def prepare(model: Model):
    check_type_enum(model)
    ok, why = infer_empty_rule(model)
    if not ok:
        raise AnalysisError(f"oracle '' -> Empty not justified by __infer_type: {why}")


def operand_list(role, tier, extra_alt=True):
    """[(label, type, text, repeatable)]"""
    w = witnesses(role)
    out = []
    for tname, lst in w.items():
        if tier == "thorough":
            take = list(lst)
        elif tname == "Assertion":
            take = [lst[0], lst[1], lst[2], lst[3], lst[6], lst[7]]
        else:
            take = lst[:2]
        if tname == "Alternation" and extra_alt:
            a, b = ("s", "t") if role == "recv" else ("p", "q")
            take = take + [(f"{a}|{b}", True)]
        for text, rep in take:
            out.append((f"{tname}{'' if rep else '/nonrep'}:{text!r}", tname, text, rep))
    return out


def mk(model, spec, cls=None):
    label, tname, text, rep = spec
    return make_operand(model, text, tname, rep, cls=cls, tag=label)


class Out:
    """One path outcome."""

    def __init__(self, res, recv=None, args=()):
        self.res = res
        self.kind = res.outcome
        self.exc = res.value if res.outcome == "raise" else None
        self.value = res.value if res.outcome == "return" else None
        self.text = None
        self.is_self = False
        self.is_arg = None
        if isinstance(self.value, Obj):
            self.text = pattern_of(self.value)
            self.is_self = recv is not None and self.value is recv
            for i, a in enumerate(args):
                if self.value is a:
                    self.is_arg = i
        self.choices = tuple(res.choices())

    def describe(self):
        if self.kind == "raise":
            return f"RAISE({self.exc.name})"
        if self.text is None:
            return f"VALUE({self.value!r})"
        tag = "SELF" if self.is_self else (f"ARG{self.is_arg}" if self.is_arg is not None else "NEW")
        return f"{tag}({self.text!r})"

    def where(self, default_func):
        if self.kind == "raise" and self.exc.node is not None and self.exc.where is not None:
            f = self.exc.where
            return f.relpath, f.short, self.exc.node.lineno, norm_text(self.exc.node)
        return default_func.relpath, default_func.short, default_func.node.lineno, "<emitted pattern>"


def call_method(model: Model, meth: str, recv_spec, arg_specs=(), extra_args=(), kwargs=None):
    f = model.method(PRE, "Pregex", meth)
    holder = {}

    def run(it: Interp):
        recv = mk(model, recv_spec)
        args = [mk(model, a) if isinstance(a, tuple) else a for a in arg_specs]
        holder["recv"], holder["args"] = recv, args
        return it.call(FuncRef(f, recv, True), list(args) + list(extra_args), kwargs or {})

    outs = []
    for r in explore(model, run, lambda: PregexHooks(model)):
        outs.append(Out(r))
    # identity info needs the objects of that very run: recompute cheaply
    return outs, f


def call_method_ident(model: Model, meth: str, recv_spec, arg_specs=(), extra_args=(), kwargs=None):
    """Like call_method but also records SELF/ARG identity per path."""
    f = model.method(PRE, "Pregex", meth)
    outs = []
    stack = [[]]
    from ..interp import Interp as _I
    while stack:
        decisions = stack.pop()
        it = _I(model, PregexHooks(model), decisions, fuel=FUEL)
        recv = mk(model, recv_spec)
        args = [mk(model, a) if isinstance(a, tuple) else a for a in arg_specs]
        try:
            v = it.call(FuncRef(f, recv, True), list(args) + list(extra_args), dict(kwargs or {}))
            res = _Res("return", v, it)
        except PyRaise as e:
            res = _Res("raise", e, it)
            if e.cls is RecursionError:
                outs.append(Out(res, recv, args))
                NONTERM[0] += 1
                return outs, f
        except Incomplete as e:
            if "fuel exhausted" not in str(e):
                raise
            res = _Res("raise", PyRaise(NonTermination, (str(e),)), it)
            outs.append(Out(res, recv, args))
            NONTERM[0] += 1
            return outs, f
        outs.append(Out(res, recv, args))
        if len(outs) > 800:
            raise AnalysisError("path explosion: more than 800 paths for one abstract input (unbounded forking over unknown type tags)")
        for i in range(len(decisions), len(it.trace)):
            pick, n, tag = it.trace[i]
            for alt in range(1, n):
                stack.append([p for p, _, _ in it.trace[:i]] + [alt])
    return outs, f


class _Res:
    def __init__(self, outcome, value, interp):
        self.outcome = outcome
        self.value = value
        self.interp = interp
        self.trace = list(interp.trace)

    def choices(self):
        return [f"{tag}={pick}" for pick, n, tag in self.trace]


def run_thunk(model: Model, thunk, real_classifier=False, fuel_factor=40):
    """thunk(interp) -> value; explores all paths; returns [Out].  With real_classifier the type of constructed
    objects comes from interpreting Pregex.__infer_type itself instead of forking over all tags."""
    from ..interp import Hooks as _PlainHooks
    from ..absdom import layout as _layout
    _layout(model)               # results are read through the probed instance layout (pattern_of)
    outs = []
    stack = [[]]
    while stack:
        decisions = stack.pop()
        it = Interp(model, _PlainHooks() if real_classifier else PregexHooks(model), decisions, fuel=FUEL * (fuel_factor if real_classifier else 1))
        try:
            v = thunk(it)
            res = _Res("return", v, it)
        except PyRaise as e:
            res = _Res("raise", e, it)
            if e.cls is RecursionError:
                outs.append(Out(res))
                NONTERM[0] += 1
                return outs      # call depth exhausted: unbounded recursion; one such path is enough
        except Incomplete as e:
            if "fuel exhausted" not in str(e):
                raise
            res = _Res("raise", PyRaise(NonTermination, (str(e),)), it)
            outs.append(Out(res))
            NONTERM[0] += 1
            return outs          # one non-terminating path is enough for this input
        outs.append(Out(res))
        if len(outs) > 800:
            raise AnalysisError("path explosion: more than 800 paths for one abstract input (unbounded forking over unknown type tags)")
        for i in range(len(decisions), len(it.trace)):
            pick, n, tag = it.trace[i]
            for alt in range(1, n):
                stack.append([p for p, _, _ in it.trace[:i]] + [alt])
    return outs


# ---------------------------------------------------------------- tree compare
def _lit_set(item):
    """(IN, ((LITERAL, c), ...)) with only literals -> list of literal alternatives, else None."""
    if isinstance(item, tuple) and len(item) == 2 and item[0] == "IN" and isinstance(item[1], tuple) \
            and item[1] and all(isinstance(x, tuple) and len(x) == 2 and x[0] == "LITERAL" for x in item[1]):
        return [(x,) for x in item[1]]
    return None


def _flatten_branch(tree):
    """Alternation is associative: BRANCH alternatives that consist of one BRANCH are spliced;
    CPython rewrites an alternation of single literals into a set, which is undone here."""
    if not isinstance(tree, tuple):
        return tree
    tree = tuple(_flatten_branch(x) for x in tree)
    if len(tree) == 2 and tree[0] == "BRANCH" and isinstance(tree[1], tuple) and len(tree[1]) == 2:
        alts = []
        for alt in tree[1][1]:
            if isinstance(alt, tuple) and len(alt) == 1 and isinstance(alt[0], tuple) and len(alt[0]) == 2 \
                    and alt[0][0] == "BRANCH":
                alts.extend(alt[0][1][1])
            elif isinstance(alt, tuple) and len(alt) == 1 and _lit_set(alt[0]) is not None:
                alts.extend(_lit_set(alt[0]))
            else:
                alts.append(alt)
        return ("BRANCH", (tree[1][0], tuple(alts)))
    ls = _lit_set(tree)
    if ls is not None and len(ls) > 1:
        return ("BRANCH", (None, tuple(ls)))
    return tree


def same_structure(got: str, ref: str):
    """(verdict, reason): verdict True/False, or None when the *reference* does not parse
    (then the case is outside this rule: e.g. variable-width look-behind, C10)."""
    try:
        tb = parse_regex(ref)
    except re.error:
        return None, "reference does not parse"
    try:
        ta = parse_regex(got)
    except re.error as e:
        return False, f"emitted text {got!r} is rejected by re: {e}"
    a = (_flatten_branch(ta[0]), ta[1], ta[2])
    b = (_flatten_branch(tb[0]), tb[1], tb[2])
    if a == b:
        return True, ""
    return False, f"emitted {got!r} does not have the structure of the fully parenthesised composition {ref!r}"


def same_object_twice(ctx, model: Model, rule: str, operand_specs):
    """A pattern object passed at two argument positions of one variadic class form stands for two occurrences of
    its pattern - exactly like two separately built equal operands (operands are never de-duplicated by identity or
    by equality: each occurrence contributes its own text and its own capturing groups).  Returns the case count."""
    n = 0
    forms = [(c, m, k) for c, (m, _, k) in CLASS_FORMS.items() if k in ("fold", "fold2")]
    for cname, modname, kind in forms:
        ci = model.cls(modname, cname)
        init = ci.find_method("__init__")
        for spec in operand_specs:
            for shape in ("x, 'q', x", "x, x", "'q', x, 'r', x"):
                def shared(it, spec=spec, shape=shape):
                    x = mk(model, spec)
                    return it.construct(ci, {"x, 'q', x": [x, "q", x], "x, x": [x, x], "'q', x, 'r', x": ["q", x, "r", x]}[shape])

                def separate(it, spec=spec, shape=shape):
                    x, y = mk(model, spec), mk(model, spec)
                    return it.construct(ci, {"x, 'q', x": [x, "q", y], "x, x": [x, y], "'q', x, 'r', x": ["q", x, "r", y]}[shape])
                a = sorted((o.text if o.kind == "return" else "!" + o.exc.name) for o in run_thunk(model, shared, real_classifier=True, fuel_factor=200))
                b = sorted((o.text if o.kind == "return" else "!" + o.exc.name) for o in run_thunk(model, separate, real_classifier=True, fuel_factor=200))
                inp = f"{cname}({shape}) with x = {spec[0]}"
                ctx.instance(rule, key=("same object twice", inp), sample=f"{inp}: {a[:1]}")
                n += 1
                if a != b:
                    ctx.violation(rule, init.relpath, f"{cname}.__init__", "the same operand object at two positions",
                                  "passing one pattern object twice does not give what two equal operands give (an occurrence was "
                                  "dropped or merged: fewer capturing groups, later groups renumbered)", init.node.lineno, inp=inp,
                                  detail=f"same object: {a[:2]}; two equal objects: {b[:2]}")
    return n
