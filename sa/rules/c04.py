"""C04 - quantifier bounds, greediness and spellings are exact (R-QUANT)."""
from . import quant


def run(ctx, model):
    from . import signatures as _sig
    _n_sig = _sig.check(ctx, model, "R-SIGNATURE", lambda k: k.startswith('pregex.core.quantifiers:') or k.split('.')[-1] in ('optional', 'indefinite', 'one_or_more', 'exactly', 'at_least', 'at_most', 'at_least_at_most', '__mul__', '__rmul__'))
    ctx.floor("R-SIGNATURE", _n_sig, 1, "public entry points")
    ctx.explanation = (
        "R-QUANT: each of the 16 quantifier entry points (7 Pregex methods, 7 classes of quantifiers.py, "
        "__mul__, __rmul__) is walked by an abstract interpreter over the syntax trees of /repo (delegation and "
        "the `transform` lambdas inlined) for every abstract input: bounds drawn from the order-type domain "
        "{bool, non-int, None, -1, 0, 1, 2, 3}^2 (complete because a syntactic def-use scan proves the bounds "
        "are only compared with 0/1/None/each other, formatted or forwarded), both laziness settings, and "
        "receivers of every type tag (Empty, repeatable, non-repeatable).  Each outcome (raise X / SELF / "
        "EMPTY / NEW text) is compared with a specification function written from the property statement; "
        "emitted texts are compared by *meaning*: CPython's own regex parser must give the same tree as "
        "(?:operand){lo,hi}[?].")
    ctx.assumptions += [
        "k repetitions of the operand text match k back-to-back matches (re's semantics + C02 grouping)",
        "type tags of operands are abstract inputs; Pregex.__infer_type itself is not interpreted",
        "trusted base: CPython ast and re._parser; /verif/sa interpreter",
    ]
    exhaustive, n, n_entries = quant.evaluate_all(ctx, model, "R-QUANT")
    ctx.exhaustive = exhaustive
    ctx.extra["entries"] = n_entries
    ctx.extra["abstract_inputs"] = n
