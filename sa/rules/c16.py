"""C16 - Decimal patterns constrain integer part and fraction length exactly (composition).

Relative to C15 (integer part; not decided) and C17 (Numeral), the content of this property is
composition.  The five constructors are walked in meta mode with the Integer family and Numeral
kept as opaque atoms that record class and argument binding.

R-DEC-SKELETON  (INT | NOINT)? '.' Numeral(n_min <- min_decimal, n_max <- max_decimal, is_extensible <- same)
R-DEC-VARIANT   each variant uses its own Integer class with same-named arguments; NOINT iff start == 0
R-DEC-SIGN      sign alphabet of NOINT per variant; NOINT never directly follows a digit
R-ARGS          invalid fraction bounds raise the documented exceptions
"""
from __future__ import annotations

import itertools

from .. import finlang as FL
from ..finlang import Alt, Atom, Bnd, Cls, Lit, Look
from ..model import AnalysisError

ESS = "pregex.meta.essentials"
VARIANTS = {"Decimal": "Integer", "PositiveDecimal": "PositiveInteger", "NegativeDecimal": "NegativeInteger",
            "UnsignedDecimal": "UnsignedInteger"}
INT_PARAMS = {"Integer": ["start", "end", "include_sign", "is_extensible"],
              "PositiveInteger": ["start", "end", "is_extensible"], "NegativeInteger": ["start", "end", "is_extensible"],
              "UnsignedInteger": ["start", "end", "is_extensible"]}
T_EXC = "InvalidArgumentTypeException"
V_EXC = "InvalidArgumentValueException"
DIGITS = set("0123456789")


def opaque(name, args, kwargs):
    return Atom(name, (tuple(args), tuple(sorted(kwargs.items()))))


def bound_args(atom: Atom, names):
    args, kw = atom.info
    b = dict(zip(names, args))
    b.update(dict(kw))
    return b


def run(ctx, model):
    from . import signatures as _sig
    _n_sig = _sig.check(ctx, model, "R-SIGNATURE", lambda k: any(x in k for x in ('Decimal.', 'Integer.')))
    ctx.floor("R-SIGNATURE", _n_sig, 1, "public entry points")
    ctx.explanation = (
        "Decimal, PositiveDecimal, NegativeDecimal, UnsignedDecimal and __Decimal are walked by the abstract interpreter "
        "in meta mode (E6) with Integer/PositiveInteger/NegativeInteger/UnsignedInteger and Numeral kept as opaque atoms "
        "that record the class and the bound arguments.  For start in {0, 1, 7}, both include_sign and is_extensible "
        "settings and several fraction bounds the resulting term must be (INT | NOINT) '.' NUMERAL with the right class, "
        "same-named argument binding, NOINT present iff start == 0, the documented sign alphabet of NOINT (enumerated) "
        "and a not-after-a-digit condition on NOINT.")
    ctx.assumptions += ["the integer part's own semantics (C15) is not decided by static analysis",
                        "Numeral's meaning is C17's; '.' is an escaped literal because + escapes str operands (C01)"]
    ctx.exhaustive = True
    for cname, icls in VARIANTS.items():
        ci = model.cls(ESS, cname)
        f = ci.methods["__init__"]
        has_sign = "include_sign" in f.params
        # fraction bounds: small ones, multi-digit ones, the regex engine's repeat limits, and the neighbours of every
        # integer constant the constructor chain compares or computes with
        from ..consts import call_closure, interesting_ints, around
        chain = [c.methods["__init__"] for c in [ci] + list(ci.mro()) if "__init__" in c.methods]
        special = [c for c in around(interesting_ints(chain, lo=2, hi=2 ** 40), lo=2) if c > 4]
        bounds = [(1, None), (2, 4), (3, 3), (1, 10), (12, 100), (99, None)] + \
                 [(1, c) for c in sorted(set(special + [65534, 65535, 65536, 10 ** 6, 2 ** 32 - 1]))]
        combos = list(itertools.product((0, 1, 7), bounds[:3], (False, True) if has_sign else (None,), (False, True)))
        combos += list(itertools.product((0, 7), bounds[3:], (False, True) if has_sign else (None,), (False, True)))
        for start, (mind, maxd), sign, ext in combos:
            kw = {"start": start, "end": 99, "min_decimal": mind, "max_decimal": maxd, "is_extensible": ext}
            if has_sign:
                kw["include_sign"] = sign
            k, t = FL.build(model, cname, [], kw, opaque_meta=set(INT_PARAMS) | {"Numeral"}, opaque_fn=opaque)
            inp = f"{cname}({', '.join(f'{a}={b}' for a, b in kw.items())})"
            ctx.instance("R-DEC-SKELETON", key=inp, sample=f"{inp}: {FL.show(t)[:110] if k == 'term' else t.name}")
            if k != "term":
                ctx.violation("R-DEC-SKELETON", f.relpath, f.short, "<constructor>", f"{inp} raises {t.name}", f.node.lineno, inp=inp)
                continue
            seq = FL.flatten(t)
            if not (len(seq) == 3 and seq[1] == Lit(".") and isinstance(seq[2], Atom) and seq[2].sym == "Numeral"):
                ctx.violation("R-DEC-SKELETON", f.relpath, f.short, "skeleton",
                              "a decimal is not <integer part> '.' Numeral(...)", f.node.lineno, inp=inp, detail=FL.show(t)[:160])
                continue
            nb = bound_args(seq[2], ["base", "n_min", "n_max", "is_extensible"])
            if (nb.get("base", 10), nb.get("n_min", 1), nb.get("n_max"), nb.get("is_extensible", False)) != (10, mind, maxd, ext):
                ctx.violation("R-DEC-SKELETON", f.relpath, f.short, "fraction",
                              "the fraction is not Numeral(base 10, n_min=min_decimal, n_max=max_decimal, is_extensible=same)",
                              f.node.lineno, inp=inp, detail=str(nb))
            head = seq[0]
            alts = list(head.items) if isinstance(head, Alt) else [head]
            ints = [a for a in alts if isinstance(a, Atom) and a.sym in INT_PARAMS]
            noint = [a for a in alts if not (isinstance(a, Atom) and a.sym in INT_PARAMS)]
            ctx.instance("R-DEC-VARIANT", key=inp, sample=f"{inp}: integer part {ints}, no-integer alternative {[FL.show(x) for x in noint]}")
            if len(ints) != 1 or ints[0].sym != icls:
                ctx.violation("R-DEC-VARIANT", f.relpath, f.short, "integer class",
                              f"{cname} must build its integer part with {icls}", f.node.lineno, inp=inp,
                              detail=str([a.sym for a in ints]))
            else:
                ib = bound_args(ints[0], INT_PARAMS[icls])
                want = {"start": start, "end": 99, "is_extensible": ext}
                if has_sign:
                    want["include_sign"] = sign
                got = {kk: ib.get(kk, {"start": 0, "end": 2147483647, "include_sign": False, "is_extensible": False}[kk]) for kk in want}
                if got != want:
                    ctx.violation("R-DEC-VARIANT", f.relpath, f.short, "integer arguments",
                                  f"{icls} does not receive the same-named arguments", f.node.lineno, inp=inp,
                                  detail=f"got {got}, expected {want}")
            if (start == 0) != (len(noint) == 1):
                ctx.violation("R-DEC-VARIANT", f.relpath, f.short, "no-integer-part alternative",
                              "the alternative without an integer part must exist exactly when start == 0", f.node.lineno,
                              inp=inp, detail=f"{len(noint)} alternative(s) for start={start}")
                continue
            if start != 0:
                continue
            # ---- R-DEC-SIGN
            ni = noint[0]
            try:
                signs = FL.gen(ni)
            except FL.Unbounded:
                signs = None
            if cname == "Decimal":
                want_signs = {"", "+", "-"} if sign else {""}
            elif cname == "PositiveDecimal":
                want_signs = {"", "+"}
            elif cname == "NegativeDecimal":
                want_signs = {"-"}
            else:
                want_signs = {""}
            ctx.instance("R-DEC-SIGN", key=inp, sample=f"{inp}: NOINT = {FL.show(ni)} signs={sorted(signs) if signs is not None else None}")
            if signs != want_signs:
                ctx.violation("R-DEC-SIGN", f.relpath, f.short, "sign of the no-integer alternative",
                              f"{cname}: the sign alphabet of a fraction without integer part must be {sorted(want_signs)}",
                              f.node.lineno, inp=inp, detail=f"got {sorted(signs) if signs is not None else 'unbounded'}")
            items = FL.flatten(ni)
            conds = [x for x in items if isinstance(x, (Look, Bnd))]
            no_digit = any(isinstance(x, Bnd) and x.kind == "B" for x in conds) or any(
                isinstance(x, Look) and x.behind and x.neg and DIGITS <= _chars(x.t) for x in conds)
            first_is_cond = bool(items) and isinstance(items[0], (Look, Bnd))
            if not (no_digit and first_is_cond):
                ctx.violation("R-DEC-SIGN", f.relpath, f.short, "digit guard of the no-integer alternative",
                              "a fraction without integer part must not directly follow a digit ('1.5' would also match as '.5')",
                              f.node.lineno, inp=inp, detail=FL.show(ni))
            if cname == "UnsignedDecimal":
                no_sign = any(isinstance(x, Look) and x.behind and x.neg and {"+", "-"} <= _chars(x.t) for x in conds)
                if not no_sign:
                    ctx.violation("R-DEC-SIGN", f.relpath, f.short, "sign guard of the no-integer alternative",
                                  "an unsigned fraction must not directly follow a sign", f.node.lineno, inp=inp, detail=FL.show(ni))
        # ---- R-ARGS
        for kw, exc in [({"min_decimal": "x"}, T_EXC), ({"min_decimal": True}, T_EXC), ({"min_decimal": None}, T_EXC),
                        ({"min_decimal": 0}, V_EXC), ({"min_decimal": -1}, V_EXC), ({"max_decimal": "x"}, T_EXC),
                        ({"max_decimal": True}, T_EXC), ({"min_decimal": 3, "max_decimal": 2}, V_EXC)]:
            k, t = FL.build(model, cname, [], kw, opaque_meta=set(INT_PARAMS) | {"Numeral"}, opaque_fn=opaque)
            inp = f"{cname}({', '.join(f'{a}={b!r}' for a, b in kw.items())})"
            ctx.instance("R-ARGS", key=inp, sample=f"{inp}: {k} {getattr(t, 'name', '')}")
            if not (k == "raise" and t.name == exc):
                ctx.violation("R-ARGS", f.relpath, f.short, f"validation of {', '.join(kw)}",
                              f"invalid fraction bounds must raise {exc}", f.node.lineno, inp=inp,
                              detail=f"{k} {getattr(t, 'name', '')}")
    ctx.floor("R-DEC-SKELETON", ctx.rule_counts.get("R-DEC-SKELETON", 0), 80, "decimal configurations")

    # ---------------- R-DEC-CONTEXT: in matching mode a numeral WITHOUT integer part is accepted in a context exactly
    # when the same numeral with integer part 0 is (the statement's "an integer part ... or no integer part at all"):
    # evaluated on the full composed term (Integer family interpreted too) with the framework's own matcher.
    from . import e2e as _e2e
    for cname, signs, skip_pre in (("NegativeDecimal", ["-"], ()), ("UnsignedDecimal", [""], ()), ("PositiveDecimal", ["", "+"], ("-", "+"))):
        ci = model.cls(ESS, cname)
        f = ci.methods["__init__"]
        for mind, maxd in ((1, 1), (2, 3)):
            kw = {"start": 0, "end": 9, "min_decimal": mind, "max_decimal": maxd, "is_extensible": False}
            k, t = FL.build(model, cname, [], kw)
            inp = f"{cname}({', '.join(f'{a}={b}' for a, b in kw.items())})"
            if k != "term":
                continue
            bad = []
            frac = "5" * mind
            for sg in signs:
                for pre in ["", "x", "_", "Z", " ", ".", "-", "+", ":", "\n", "\u00e9"]:
                    if pre in skip_pre and sg == "":
                        continue
                    for post in ["", "x", " ", "."]:
                        a = _e2e.accepts(t, pre, sg + "." + frac, post)
                        b = _e2e.accepts(t, pre, sg + "0." + frac, post)
                        ctx.instance("R-DEC-CONTEXT", key=(inp, sg, pre, post))
                        if a != b:
                            bad.append(f"{pre!r}+{(sg + '.' + frac)!r}+{post!r}: {'accepted' if a else 'rejected'}, but with integer part 0: {'accepted' if b else 'rejected'}")
            if bad:
                ctx.violation("R-DEC-CONTEXT", f.relpath, f.short, "context of the no-integer alternative",
                              "a numeral without integer part is not accepted in exactly the contexts in which the same numeral "
                              "with integer part 0 is accepted", f.node.lineno, inp=inp, detail="; ".join(bad[:3]))
    # ... and for Decimal the sign is OPTIONAL: an unsigned numeral (not directly after a sign) is accepted with
    # include_sign=True in exactly the contexts in which it is accepted with include_sign=False
    ci = model.cls(ESS, "Decimal")
    f = ci.methods["__init__"]
    for mind, maxd in ((1, 2), (2, 3)):
        kw = {"start": 0, "end": 9, "min_decimal": mind, "max_decimal": maxd, "is_extensible": False}
        terms = {}
        for inc in (False, True):
            k, t = FL.build(model, "Decimal", [], dict(kw, include_sign=inc))
            terms[inc] = t if k == "term" else None
        if None in terms.values():
            continue
        inp = f"Decimal({', '.join(f'{a}={b}' for a, b in kw.items())}, include_sign=False/True)"
        bad = []
        for pre in ["", "x", "_", "Z", " ", ".", ":", "\n", "\u00e9", "1"]:
            for w in ["." + "5" * mind, "0." + "5" * mind, "7." + "2" * maxd]:
                for post in ["", "x", " ", "."]:
                    a, b = _e2e.accepts(terms[False], pre, w, post), _e2e.accepts(terms[True], pre, w, post)
                    ctx.instance("R-DEC-CONTEXT", key=(inp, pre, w, post))
                    if a != b:
                        bad.append(f"{pre!r}+{w!r}+{post!r}: include_sign=False {'accepts' if a else 'rejects'}, include_sign=True {'accepts' if b else 'rejects'}")
        if bad:
            ctx.violation("R-DEC-CONTEXT", f.relpath, f.short, "context of an unsigned numeral",
                          "allowing an optional sign changes which UNSIGNED numerals are accepted", f.node.lineno, inp=inp,
                          detail="; ".join(bad[:3]))
    ctx.floor("R-DEC-CONTEXT", ctx.rule_counts.get("R-DEC-CONTEXT", 0), 200, "context comparisons")

    # ---------------- R-E2E: the text emitted by the real core builders denotes the composed term
    from . import e2e
    cfgs = [("Decimal", [0, 9, 1, 3]), ("Decimal", [], {"start": 0, "end": 50, "min_decimal": 2, "max_decimal": 2, "include_sign": True}),
            ("Decimal", [7, 120], {"is_extensible": True}), ("PositiveDecimal", [0, 99, 2, 4]), ("PositiveDecimal", [1, 9], {"include_sign": True, "is_extensible": True}),
            ("NegativeDecimal", [0, 30, 1, None]), ("NegativeDecimal", [5, 9, 3, 3, True]),
            ("UnsignedDecimal", [0, 9, 1, 3]), ("UnsignedDecimal", [0, 12, 1, 2, True]), ("UnsignedDecimal", [3, 40, 12, 14])]
    if ctx.tier == "thorough":
        cfgs += [("Decimal", []), ("PositiveDecimal", []), ("NegativeDecimal", []), ("UnsignedDecimal", []), ("Decimal", [0, 2147483647, 1, 70000])]
    ctx.parallel(cfgs, lambda c, cfg: e2e.compare(c, model, "R-E2E", *cfg), min_items=2)
    ctx.floor("R-E2E", ctx.rule_counts.get("R-E2E", 0), len(cfgs), "end-to-end comparisons")

    # ---------------- R-PROCESS: the same configurations in one long-lived process, backwards and forwards
    pcfgs = cfgs + [("Decimal", [0, 9, 1, 3]), ("Integer", [0, 25]), ("NegativeDecimal", [0, 30, 1, None]), ("PositiveInteger", [3, 7]), ("Integer", [0.0, 25]), ("Decimal", [0, 9, 1.0, 3]), ("Decimal", [False, 9, True, 3]), ("Integer", [25, 0])]
    e2e.process_order(ctx, model, "R-PROCESS", pcfgs)
    ctx.floor("R-PROCESS", ctx.rule_counts.get("R-PROCESS", 0), len(pcfgs), "configurations replayed in one process")



def _chars(t):
    try:
        return {s for s in FL.language(t) if len(s) == 1}
    except FL.Unbounded:
        return set()
