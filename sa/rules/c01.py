"""C01 - plain strings are matched literally wherever they are accepted.

R-ESC     Pregex.__escape, interpreted: for every character c the escaped text parses (CPython's regex parser,
          library flags) to exactly the literal c; pairs of syntax characters stay two literals; the result
          does not depend on the iteration order of the set of rewrite steps (hash seed)
R-SANIT   the sanitiser itself: _to_pregex(str) == Pregex(str, escape=True); Pregex(s) stores __escape(s);
          escape defaults to True; non-str / non-Pregex arguments raise InvalidArgumentTypeException
R-CTX     every public parameter that accepts `str | Pregex` (discovered from the annotations): passing the
          string s must emit exactly what passing a Pregex whose text is __escape(s) emits - so no str operand
          ever reaches pattern text unescaped (differential abstract interpretation, all operand type tags)
R-AFFIX   WordContains / WordStartsWith / WordEndsWith interpreted with the real core builders: the text emitted for an
          adversarial affix has the structure of the neutral text with (?:escape(affix)) in place of the neutral affix
"""
from __future__ import annotations

import ast
import re
import sys

from ..absdom import FLAGS, PregexHooks, TYPE_NAMES, make_operand, parse_regex
from ..interp import FuncRef, Interp, Obj, PyRaise
from .. import interp as interp_mod
from ..model import AnalysisError, norm_text
from . import builders as B
from .builders import PRE

T_EXC = "InvalidArgumentTypeException"
WITNESSES = [".^$*+?{}[]()|\\/", "a.b", "\\d+", "(?:x)|y", "[a-z]{2,}", "\n\t #", "é一\U0001f600", "a", "$", "\\", "US$", "^",
             "the quick (brown) fox [jumps] over {the} lazy dog. $5.00? yes|no * 2 + 1 ^ 3 \\ / end", "\\" * 7 + "|" * 5, "x" * 40]
MODULES = ["pregex.core.pre", "pregex.core.operators", "pregex.core.quantifiers", "pregex.core.groups", "pregex.core.assertions"]


def escape_site(model):
    """The function that escapes (located by role), or Pregex.__init__ when escaping is written inline."""
    try:
        return model.method(PRE, "Pregex", "__escape")
    except AnalysisError:
        return model.method(PRE, "Pregex", "__init__")


def escape_of(model, s, order=0):
    """What the library turns the plain string s into: the pattern text of Pregex(s) (wherever the escaping is written)."""
    from ..absdom import F
    interp_mod.SET_ORDER = order
    try:
        it = Interp(model, PregexHooks(model))
        o = it.construct(model.pregex, [s])
        return o.fields.get(F(model).pattern)
    finally:
        interp_mod.SET_ORDER = 0


def literal_seq(s):
    return tuple(("LITERAL", ord(c)) for c in s)


def touched_chars(model):
    """Characters mentioned by constants of __escape, and whether its body is of the recognised
    replace-only shape (then every other character is provably left alone)."""
    f = escape_site(model)
    chars = set()
    simple = f.node.name != "__init__"
    for node in ast.walk(f.node):
        if isinstance(node, ast.Constant) and isinstance(node.value, str) and node is not ast.get_docstring(f.node):
            if len(node.value) <= 2:
                chars.update(node.value)
        if isinstance(node, ast.Call):
            fn = node.func
            if not (isinstance(fn, ast.Attribute) and fn.attr == "replace"):
                simple = False
        if isinstance(node, (ast.While, ast.If, ast.Lambda, ast.ListComp, ast.GeneratorExp, ast.DictComp)):
            simple = False
    return chars, simple


def str_pregex_params(model):
    """(FuncInfo, param name, is_vararg) for every parameter annotated as str-or-Pregex in the core builder modules."""
    out = []
    for modname in MODULES:
        m = model.module(modname)
        for ci in m.classes.values():
            for f in ci.methods.values():
                a = f.node.args
                params = [(p, False) for p in a.posonlyargs + a.args + a.kwonlyargs]
                if a.vararg is not None:
                    params.append((a.vararg, True))
                for p, var in params:
                    if p.annotation is None:
                        continue
                    txt = ast.unparse(p.annotation)
                    if "str" in txt and "Pregex" in txt:
                        out.append((f, p.arg, var))
    return out


def run(ctx, model):
    from . import signatures as _sig
    _n_sig = _sig.check(ctx, model, "R-SIGNATURE", lambda k: k.startswith(('pregex.core.operators:', 'pregex.core.pre:Pregex.__init__')))
    ctx.floor("R-SIGNATURE", _n_sig, 1, "public entry points")
    ctx.explanation = __doc__.strip().replace("\n", " ")
    ctx.assumptions += [
        "not decided: that the type tag __infer_type assigns to an escaped literal is right for every character sequence, hence that a "
        "literal survives composition for every string (R-CTX compares under every type tag, so grouping of the literal is as for a "
        "Pregex operand of that tag)",
        "group-name parameters are validated, not escaped (C08 R-NAME); in-class escaping is C06",
    ]
    B.prepare(model)
    esc_f = escape_site(model)

    # ---------------- R-ESC
    touched, simple = touched_chars(model)
    if ctx.tier == "thorough" or not simple:
        universe = [chr(c) for c in range(0x110000) if not (0xD800 <= c <= 0xDFFF)] if ctx.tier == "thorough" else \
            [chr(c) for c in range(0x3000)] + ["一", "\U0001f600", "\U0010ffff"]
        exhaustive_how = "every code point interpreted" if ctx.tier == "thorough" else "U+0000-U+2FFF interpreted (body not of replace-only shape)"
    else:
        universe = sorted(set(chr(c) for c in range(256)) | touched | set("é一\U0001f600\U0010ffff  ­"))
        exhaustive_how = ("U+0000-U+00FF and every character mentioned by a constant of __escape interpreted; all other characters are "
                          "provably untouched because the body consists of str.replace steps on constants only")
    ctx.extra["R-ESC universe"] = exhaustive_how
    # one interpretation of the whole universe, separated by a character that is never touched
    sep = "\uE000"
    if sep in touched:
        raise AnalysisError("separator character is mentioned by __escape")
    universe = [c for c in universe if c != sep]
    if escape_of(model, sep) != sep:
        ctx.violation("R-ESC", esc_f.relpath, esc_f.short, "escape table", "a private-use character is rewritten by __escape",
                      esc_f.node.lineno, inp="U+E000")
    blob_in = sep.join(universe)
    n_bad = 0
    changed = set()
    for order in (0, 1, 2, 3):
        blob = escape_of(model, blob_in, order)
        parts = blob.split(sep) if isinstance(blob, str) else None
        if parts is None or len(parts) != len(universe):
            ctx.violation("R-ESC", esc_f.relpath, esc_f.short, "<escape result>", "__escape does not return a string that keeps its input separable",
                          esc_f.node.lineno, inp=f"set order {order}")
            continue
        for c, e in zip(universe, parts):
            if e != c:
                changed.add(c)       # whatever the escape rewrites (wherever its table lives) joins the pair stage below
            if order == 0:
                ctx.instance("R-ESC", key=("char", c), sample=f"__escape({c!r}) = {e!r}" if c in touched or c in ".a" else None)
            try:
                tree = parse_regex(e)[0]
            except re.error as ex:
                tree = f"re.error: {ex}"
            if tree != literal_seq(c):
                n_bad += 1
                ctx.violation("R-ESC", esc_f.relpath, esc_f.short, "escape table",
                              "an escaped character is not matched literally (missing / wrong escape, or escape applied twice)",
                              esc_f.node.lineno, inp=f"U+{ord(c):04X} {c!r}", detail=f"__escape({c!r}) = {e!r} parses to {tree} [set order {order}]")
    specials = sorted(touched | set(list(sorted(changed))[:40]) | set("\\.^$*+?{}[]()|/-#&~ \nnbdswAZ01237"))
    pairs = [a + b for a in specials for b in specials]
    ref = None
    for order in (0, 1, 2, 3):
        blob = escape_of(model, sep.join(pairs), order)
        parts = blob.split(sep)
        if len(parts) != len(pairs):
            ctx.violation("R-ESC", esc_f.relpath, esc_f.short, "<escape result>", "__escape loses the separator", esc_f.node.lineno)
            break
        if order == 0:
            ref = parts
            for s2, e in zip(pairs, parts):
                ctx.instance("R-ESC", key=("pair", s2))
                try:
                    tree = parse_regex(e)[0]
                except re.error as ex:
                    tree = f"re.error: {ex}"
                if tree != literal_seq(s2):
                    ctx.violation("R-ESC", esc_f.relpath, esc_f.short, "escape order",
                                  "a two-character string is not matched literally (steps interfere: e.g. the backslash step runs after another step)",
                                  esc_f.node.lineno, inp=repr(s2), detail=f"__escape({s2!r}) = {e!r} parses to {tree}")
        else:
            for s2, e, r in zip(pairs, parts, ref):
                if e != r:
                    ctx.violation("R-ESC", esc_f.relpath, esc_f.short, "escape order",
                                  "the escaped text depends on the iteration order of the set of rewrite steps (hash seed)",
                                  esc_f.node.lineno, inp=repr(s2), detail=f"order 0: {r!r}, order {order}: {e!r}")
    for s in WITNESSES:
        e = escape_of(model, s)
        ctx.instance("R-ESC", key=("string", s), sample=f"__escape({s!r}) = {e!r}")
        try:
            tree = parse_regex(e)[0]
        except re.error as ex:
            tree = f"re.error: {ex}"
        if tree != literal_seq(s):
            ctx.violation("R-ESC", esc_f.relpath, esc_f.short, "escape table", "a string is not matched literally after escaping",
                          esc_f.node.lineno, inp=repr(s), detail=f"{e!r} parses to {tree}")
    # The blobs above presuppose that escaping works character by character.  A body with a fast path chosen by the
    # length or by the overall content of the literal (a memo for short texts, "nothing to escape -> return as is")
    # breaks that presupposition, so every rewritten character is also escaped ALONE in otherwise plain text, at every
    # length at which the escaping code (and what it calls) compares or computes with an integer constant.
    from ..consts import interesting_ints, around
    reach, todo = [], [esc_f, model.method(PRE, "Pregex", "__init__")]
    while todo:
        g = todo.pop()
        if g not in reach and len(reach) < 12:
            reach.append(g)
            todo += model._private_callees(g)
    lens = sorted({1, 2, 3, 9} | {n for n in around(interesting_ints(reach, lo=1, hi=5000)) if n >= 1})
    lens += [2 * lens[-1] + 7]
    lone = sorted(changed | touched | {"\\"}) if (changed or touched) else ["\\", ".", "("]
    ctx.extra["R-ESC lengths"] = lens

    def lone_item(c2, job):
        c, L = job
        for s in {c + "a" * (L - 1), "a" * (L - 1) + c, "a" * ((L - 1) // 2) + c + "a" * (L - 1 - (L - 1) // 2)}:
            e = escape_of(model, s)
            c2.instance("R-ESC", key=("lone", c, L, s.index(c)), sample=f"__escape of {c!r} alone in plain text of length {L}" if L == lens[-1] else None)
            try:
                tree = parse_regex(e)[0]
            except re.error as ex:
                tree = f"re.error: {ex}"
            if tree != literal_seq(s):
                c2.violation("R-ESC", esc_f.relpath, esc_f.short, "escape fast path",
                             "a special character that is alone in a literal of this length is not escaped (a length- or content-"
                             "dependent shortcut bypasses the escape table)", esc_f.node.lineno,
                             inp=f"{c!r} at offset {s.index(c)} of a literal of length {L}", detail=f"escaped text {e[:60]!r}")
                return
    ctx.parallel([(c, L) for c in lone for L in lens], lone_item)
    ctx.floor("R-ESC", ctx.rule_counts.get("R-ESC", 0), 300, "escape evaluations")

    # ---------------- R-SANIT
    P = model.pregex
    init = model.method(PRE, "Pregex", "__init__")
    to_p = model.method(PRE, "Pregex", "_to_pregex")
    s = WITNESSES[0]
    E = escape_of(model, s)
    for label, thunk in (("Pregex(s)", lambda it: it.construct(P, [s])), ("Pregex(s, True)", lambda it: it.construct(P, [s, True])),
                         ("Pregex(pattern=s, escape=True)", lambda it: it.construct(P, [], {"pattern": s, "escape": True})),
                         ("_to_pregex(s)", lambda it: it.call(FuncRef(to_p), [s]))):
        outs = B.run_thunk(model, thunk)
        f = to_p if "to_pregex" in label else init
        for o in outs[:1]:
            ctx.instance("R-SANIT", key=label, sample=f"{label} -> {o.describe()}")
            if o.text != E:
                ctx.violation("R-SANIT", f.relpath, f.short, "sanitiser", f"{label} does not store the escaped text", f.node.lineno,
                              detail=f"got {o.describe()}, required {E!r}")
    outs = B.run_thunk(model, lambda it: it.construct(P, [s, False]))
    ctx.instance("R-SANIT", key="escape=False", sample=f"Pregex(s, escape=False) -> {outs[0].describe()}")
    if outs[0].text != s:
        ctx.violation("R-SANIT", init.relpath, init.short, "raw construction", "Pregex(s, escape=False) must keep s verbatim", init.node.lineno)
    for bad in (5, None, 1.5, ["a"], b"a"):
        for label, thunk, f in ((f"Pregex({bad!r})", lambda it, bad=bad: it.construct(P, [bad]), init),
                                (f"_to_pregex({bad!r})", lambda it, bad=bad: it.call(FuncRef(to_p), [bad]), to_p)):
            outs = B.run_thunk(model, thunk)
            ctx.instance("R-SANIT", key=label, sample=f"{label} -> {outs[0].describe()}")
            if not (outs[0].kind == "raise" and outs[0].exc.name == T_EXC):
                ctx.violation("R-SANIT", f.relpath, f.short, "argument check", f"{label} must raise {T_EXC}", f.node.lineno,
                              detail=outs[0].describe())
    op = make_operand(model, "pq", "Other", True)
    outs = B.run_thunk(model, lambda it: it.call(FuncRef(to_p), [make_operand(model, "pq", "Other", True)]))
    if outs[0].text != "pq":
        ctx.violation("R-SANIT", to_p.relpath, to_p.short, "pass-through", "_to_pregex must return a Pregex operand unchanged", to_p.node.lineno)

    # ---------------- R-CTX
    params = str_pregex_params(model)
    ctx.extra["str_or_pregex_parameters"] = len(params)
    public = [(f, p, var) for f, p, var in params if _is_public(f)]
    ctx.floor("R-CTX", len(public), 40, "public str|Pregex parameters")
    def ctx_item(ctx, item):
        f, pname, var, s, position = item
        E = escape_of(model, s)
        call_str = _caller(model, f, pname, var, position, s)
        if call_str is None:
            raise AnalysisError(f"R-CTX: no argument recipe for {f.short}({pname}); extend the table in c01.py")
        res_s = _outcomes(model, call_str)
        res_p = set()
        for t in TYPE_NAMES:
            if t == "Empty":
                continue
            for rep in ((True, False) if t == "Assertion" else (True,)):
                call_p = _caller(model, f, pname, var, position, ("operand", E, t, rep))
                res_p |= _outcomes(model, call_p)
        inp = f"{f.short}({pname}{'[' + str(position) + ']' if var else ''}={s!r})"
        ctx.instance("R-CTX", key=inp, sample=f"{inp}: {sorted(res_s)[:2]} ...")
        refused = sorted(x for x in res_s if x in ("!NonFixedWidthPatternException", "!InvalidArgumentTypeException",
                                                   "!InvalidArgumentValueException", "!EmptyNegativeAssertionException"))
        if refused:
            ctx.violation("R-CTX", f.relpath, f.short, f"parameter {pname}: literal refused",
                          "a plain (non-empty) string operand is refused although a literal is always a valid, fixed-width pattern",
                          f.node.lineno, inp=inp, detail=f"{refused}")
        if s in ("a.b", "\\*") and position in (0, 2):
            # the same characters handed over as an instance of a user subclass of str (plain subclass; a str-valued
            # enum member whose str() / format() show a label): it IS a plain string and must contribute the same text
            from ..witness import SubStr, LabelStr
            for kind_, val in (("str subclass", SubStr(s)), ("str subclass with its own __str__/__format__", LabelStr(s)),
                               ("str subclass with its own __str__/__format__, nothing to escape", LabelStr("kb"))):
                ref = res_s if val == s else _outcomes(model, _caller(model, f, pname, var, position, "kb"))
                got = _outcomes(model, _caller(model, f, pname, var, position, val))
                ctx.instance("R-CTX", key=(inp, kind_))
                if got != ref:
                    ctx.violation("R-CTX", f.relpath, f.short, f"parameter {pname}: instance of a str subclass",
                                  "a string handed over as an instance of a subclass of str does not contribute what the plain string "
                                  "with the same characters contributes", f.node.lineno, inp=f"{inp} as {kind_}",
                                  detail=f"plain str: {sorted(ref)[:2]}; subclass instance: {sorted(got)[:2]}")
        bad = res_s - res_p
        if bad:
            raw = [x for x in bad if s in x and E not in x]
            ctx.violation("R-CTX", f.relpath, f.short, f"parameter {pname}",
                          "a plain string operand does not contribute exactly its escaped text"
                          + (" (the raw string reaches the pattern)" if raw else ""), f.node.lineno, inp=inp,
                          detail=f"with the str: {sorted(bad)[:2]}; with Pregex(escaped): {sorted(res_p)[:2]}")
        return 1

    items = []
    for f, pname, var in public:
        lookaround = any(k in (f.short + (f.cls.name if f.cls else "")).lower() for k in ("preceded", "enclosed", "followed"))
        for s in ((WITNESSES[0], "a.b", "\\*", "a\\+b\\?", WITNESSES[12]) if lookaround else (WITNESSES[0], "a.b", WITNESSES[12])):
            for position in ((0, 1, 2) if var else (0,)):
                items.append((f, pname, var, s, position))
    n_ctx = sum(ctx.parallel(items, ctx_item))
    # ---------------- R-CTX (many string operands at once, classifier interpreted)
    # Cls(s1, ..., sk) with k = 4..6 plain strings must emit what Cls(Pregex(s1), ..., Pregex(sk)) emits
    variadic = [(f, p) for f, p, var in public if var and f.node.name == "__init__"]
    groups = [["a", "-", "z", "q"], ["+", "-", "*", "/"], ["]", "^", "a", "\\", "-"], ["ab", "c.d", "e|f", "(g)", "h$", "^i"],
              ["0", "-", "9", ".", "e"], ["x", "y", "z", "w"], [WITNESSES[12], "a", "b", "c"]]
    def many_item(ctx, item):
        f, pname, grp = item
        ci = f.cls
        a = f.node.args
        lead = [p.arg for p in a.posonlyargs + a.args if p.arg != "self"]

        def with_str(it):
            args = [make_operand(model, "st", "Other", True) for _ in lead] + list(grp)
            return it.construct(ci, args)

        def with_pregex(it):
            args = [make_operand(model, "st", "Other", True) for _ in lead] + [it.construct(P, [x]) for x in grp]
            return it.construct(ci, args)
        rs = {o.text if o.kind == "return" else f"!{o.exc.name}" for o in B.run_thunk(model, with_str, real_classifier=True)}
        rp = {o.text if o.kind == "return" else f"!{o.exc.name}" for o in B.run_thunk(model, with_pregex, real_classifier=True)}
        inp = f"{ci.name}({', '.join(['<match>'] * len(lead) + [repr(x)[:12] for x in grp])})"
        ctx.instance("R-CTX", key=inp, sample=f"{inp} -> {sorted(rs)[:1]}")
        if rs != rp and not all(x.startswith("!") for x in rs | rp):
            ctx.violation("R-CTX", f.relpath, f.short, f"parameter {pname}: several literals",
                          "several plain string operands do not contribute exactly their escaped texts", f.node.lineno,
                          inp=inp, detail=f"with strings: {sorted(rs)[:2]}; with Pregex(s): {sorted(rp)[:2]}")
        for t in rs:
            if not t.startswith("!"):
                from ..absdom import compiles
                okc, why = compiles(t)
                if not okc:
                    ctx.violation("R-CTX", f.relpath, f.short, f"parameter {pname}: several literals",
                                  "literal operands yield a pattern that re rejects", f.node.lineno, inp=inp, detail=f"{t!r}: {why}")
    ctx.parallel([(f, pname, grp) for f, pname in variadic for grp in groups], many_item)

    # ---------------- R-CTX (a literal under a quantifier / in a group, classifier interpreted): the WHOLE literal is the operand
    QU, GRM = "pregex.core.quantifiers", "pregex.core.groups"
    lit_witnesses = list(WITNESSES) + ["\\\\", "\\\\\\", "ab\\", "\\\\ab", "a|b", "(a", "a)", "[a", "a]", "a{2}", "a?", "ab"]

    def quantified_item(ctx, item):
        s, (mod, cname, extra, suffix) = item
        ci = model.cls(mod, cname)
        f = ci.find_method("__init__")
        outs = B.run_thunk(model, lambda it: it.construct(ci, [s] + list(extra)), real_classifier=True)
        inp = f"{cname}({s!r}{''.join(', ' + repr(x) for x in extra)})"
        o = outs[0]
        ctx.instance("R-CTX", key=inp, sample=f"{inp} -> {o.describe()[:70]}")
        if o.kind != "return" or o.text is None:
            ctx.violation("R-CTX", f.relpath, f.short, "literal operand refused", "a plain string operand is refused", f.node.lineno, inp=inp,
                          detail=o.describe())
            return
        ref = suffix("(?:" + escape_of(model, s) + ")")
        ok, why = B.same_structure(o.text, ref)
        if ok is False:
            ctx.violation("R-CTX", f.relpath, f.short, "literal operand under an operator",
                          "the operator does not apply to the whole literal (the string is not treated as one operand)",
                          f.node.lineno, inp=inp, detail=why)
    forms = [(QU, "Optional", (), lambda g: g + "?"), (QU, "Exactly", (2,), lambda g: g + "{2}"), (QU, "AtLeast", (1, False), lambda g: g + "{1,}?"),
             (GRM, "Capture", (), lambda g: "(" + g + ")")]
    ctx.parallel([(s, fm) for s in lit_witnesses if s for fm in forms], quantified_item)

    # ---------------- R-AFFIX (semantic): the Word* classes take plain strings only; the constructor is interpreted with
    # the real core builders for a neutral affix 'q' and for adversarial affixes s; the text emitted for s must have
    # the structure of the neutral text with (?:<escape(s)>) in place of q.  How the affix travels through the
    # constructor (helpers, loops, Either(*affix)) does not matter.
    ESS = "pregex.meta.essentials"
    from ..absdom import compiles

    def affix_item(ctx, item):
        cname, s, as_list, glob, ext = item
        ci = model.cls(ESS, cname)
        f = ci.methods["__init__"]

        def emit(aff):
            outs = B.run_thunk(model, lambda it: it.construct(ci, [[aff] if as_list else aff, glob, ext]), real_classifier=True, fuel_factor=400)
            return outs[0]
        neutral, got = emit("q"), emit(s)
        inp = f"{cname}({[s] if as_list else s!r}, is_global={glob}, is_extensible={ext})"
        ctx.instance("R-AFFIX", key=inp, sample=f"{inp} -> {got.describe()[:80]}")
        if neutral.kind != "return" or neutral.text is None or neutral.text.count("q") != 1:
            raise AnalysisError(f"R-AFFIX: neutral affix 'q' does not appear exactly once in {neutral.describe()}")
        if got.kind != "return" or got.text is None:
            ctx.violation("R-AFFIX", f.relpath, f.short, "affix literal", "a plain affix string is refused", f.node.lineno, inp=inp,
                          detail=got.describe())
            return
        ref = neutral.text.replace("q", "(?:" + escape_of(model, s) + ")")
        ok, why = B.same_structure(got.text, ref)
        okc, whyc = compiles(got.text)
        if ok is False or not okc:
            ctx.violation("R-AFFIX", f.relpath, f.short, "affix literal",
                          "an affix string is not taken literally (it does not contribute exactly its escaped text)", f.node.lineno,
                          inp=inp, detail=why if ok is False else f"{got.text!r}: {whyc}")
    affixes = [WITNESSES[0], "a.b", "x|y", "(z", "c]", "w+", "\\b", "^$", WITNESSES[12]]
    items = [(cn, s, as_list, g, e) for cn in ("WordContains", "WordStartsWith", "WordEndsWith") for s in affixes
             for as_list, g, e in ((False, True, False), (True, False, True))]
    ctx.parallel(items, affix_item)
    ctx.floor("R-AFFIX", ctx.rule_counts.get("R-AFFIX", 0), 40, "affix evaluations")
    ctx.exhaustive = ctx.tier == "thorough" or simple


def _next_stmt(model, st):
    par = model.parents.get(st)
    for fld in ("body", "orelse"):
        body = getattr(par, fld, None)
        if isinstance(body, list) and st in body:
            i = body.index(st)
            return body[i + 1] if i + 1 < len(body) else None
    return None


def _is_public(f):
    if f.cls is None:
        return False
    if f.cls.name.startswith("__"):
        return False
    n = f.node.name
    return not n.startswith("_") or n in ("__init__", "__add__", "__radd__", "_to_pregex")


def _mkval(model, v):
    if isinstance(v, tuple) and v and v[0] == "operand":
        return make_operand(model, v[1], v[2], v[3])
    return v


def _caller(model, f, pname, var, position, value):
    """Build a thunk calling `f` with `value` in parameter `pname` and neutral valid arguments elsewhere."""
    other = lambda: make_operand(model, "pq", "Other", True)
    recv = lambda: make_operand(model, "st", "Other", True)
    defaults = {"name": "nm", "n": 2, "m": 3, "is_greedy": True, "on_right": True, "is_case_insensitive": False, "ref": "nm"}
    a = f.node.args
    names = [p.arg for p in a.posonlyargs + a.args]

    def thunk(it):
        args, kwargs = [], {}
        for nm in names[1:] if names and names[0] == "self" else names:
            if nm == pname and not var:
                args.append(_mkval(model, value))
            elif nm in defaults:
                args.append(defaults[nm])
            elif nm in ("pre", "pre1", "pre2", "match"):
                args.append(other())
            else:
                d = _default_of(f, nm)
                if d is _NO:
                    return None
                break
        if a.vararg is not None:
            if var:
                if position == 2:      # the string is the only variadic operand
                    args += [_mkval(model, value)]
                else:
                    args += [_mkval(model, value), other()] if position == 0 else [other(), _mkval(model, value)]
            else:
                args += [other()]
        if f.node.name == "__init__":
            return it.construct(f.cls, args, kwargs)
        if f.is_static:
            return it.call(FuncRef(f), args, kwargs)
        return it.call(FuncRef(f, recv(), True), args, kwargs)
    # sanity: every non-default parameter must have a recipe
    for nm in names[1:] if names and names[0] == "self" else names:
        if nm != pname and nm not in defaults and nm not in ("pre", "pre1", "pre2", "match") and _default_of(f, nm) is _NO:
            return None
    return thunk


_NO = object()


def _default_of(f, nm):
    a = f.node.args
    params = a.posonlyargs + a.args
    ds = a.defaults
    for p, d in zip(params[len(params) - len(ds):], ds):
        if p.arg == nm:
            return d
    return _NO


def _outcomes(model, thunk):
    out = set()
    for o in B.run_thunk(model, thunk):
        out.add(o.text if o.kind == "return" and o.text is not None else (f"!{o.exc.name}" if o.kind == "raise" else f"?{o.value!r}"))
    return out
