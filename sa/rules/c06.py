"""C06 - class constructors denote exactly the requested character sets.

R-CLASSCONST  the 27 constant classes: twin agreement (AnyX / AnyButX same set, right polarity) and the
              documented denotation table (interval sets over all of Unicode)
R-TOKENS      the 20 token constants denote exactly their documented code point
R-CLSESC      writer table (_to_escape) vs reader tables (range_pattern): W >= class syntax, R_esc >= W, R_bare <= W
R-ROUNDTRIP   the text each computed constructor (AnyFrom/AnyButFrom/AnyBetween/AnyButBetween) hands to the
              class pipeline denotes exactly the requested set for re, AND is read back by the pipeline's own
              reader (__extract_classes, interpreted) as exactly that character / range - for every ASCII
              character, representatives beyond ASCII, and every token instance
R-PIPELINE    the constructors are also interpreted all the way through the class pipeline (__process, __chars_to_ranges,
              shorthand substitution, one-character collapse) under several iteration orders of the interpreted sets: the
              emitted pattern and the stored verbose text must denote the requested set (constant classes, every ASCII
              character, syntax-character groups, ranges, tokens)
R-TWIN        AnyBut* constructors hand over '[^' + body of their Any* twin + ']' with the negated flag
R-ARGS        invalid arguments raise the documented exceptions (never a builtin error)
"""
from __future__ import annotations

import ast
import re

from ..absdom import PregexHooks, make_operand, parse_regex, pattern_of
from ..classsets import named_classes, token_classes, merge, of_chars, MAXU
from ..consts import fold_str
from ..interp import FuncRef, Interp, PyRaise, Incomplete, _OrderedSet
from ..model import AnalysisError, norm_text

CLS = "pregex.core.classes"
COMPUTED = ["AnyFrom", "AnyButFrom", "AnyBetween", "AnyButBetween"]
T_EXC = "InvalidArgumentTypeException"


class ClassHooks(PregexHooks):
    """Stops at __Class.__init__ and records what the constructor hands to the pipeline."""

    def __init__(self, model):
        super().__init__(model)
        self.base_init = model.method(CLS, "__Class", "__init__")
        self.handed = []

    def intercept(self, interp, target, args, kwargs, node):
        if target is self.base_init:
            names = ["self", "pattern", "is_negated", "simplify_word"]
            b = dict(zip(names, args))
            b.update(kwargs)
            self.handed.append((b.get("pattern"), b.get("is_negated"), b.get("simplify_word", False)))
            return None
        return super().intercept(interp, target, args, kwargs, node)


def construct(model, cname, args):
    hooks = ClassHooks(model)
    it = Interp(model, hooks)
    ci = model.cls(CLS, cname)
    try:
        it.construct(ci, list(args))
    except PyRaise as e:
        return "raise", e, hooks
    return "ok", hooks.handed[-1] if hooks.handed else None, hooks


_READER_CACHE = {}
_READER_SHAPE = {}


def reader_function(model):
    """The pipeline's reader - the function that turns a class text into (ranges, characters) - located by ROLE:
    a class union is interpreted and the first library function that is called with the class text of an operand
    and returns a pair of collections is the reader (its name and module do not matter)."""
    if model.root in _READER_CACHE:
        return _READER_CACHE[model.root]
    import ast as _ast
    found = []
    stage = {}

    class Rec(PregexHooks):
        active = set()

        def intercept(self, interp, target, args, kwargs, node):
            if hasattr(target, "params") and target not in self.active and \
                    any(isinstance(x, str) and x.startswith("[") and x.endswith("]") for x in list(args) + list(kwargs.values())):
                self.active.add(target)
                try:
                    r = interp._call_func(target, list(args), dict(kwargs), node)
                finally:
                    self.active.discard(target)
                if isinstance(r, tuple) and len(r) == 2 and all(isinstance(x, (set, frozenset, list, _OrderedSet)) for x in r):
                    found.append(target)
                    # the shape of the library's own call: the reader is later called the same way, with only the
                    # class text replaced (no parameter list is assumed)
                    if stage.get("union") and target is found[0]:
                        _READER_SHAPE.setdefault(model.root, (list(args), dict(kwargs)))
                return r
            return super().intercept(interp, target, args, kwargs, node)
    it = Interp(model, Rec(model), fuel=400000)
    try:
        a = it.construct(model.cls(CLS, "AnyFrom"), ["a", "c", "x"])
        b = it.construct(model.cls(CLS, "AnyBetween"), ["b", "f"])
        stage["union"] = True
        it.binop(_ast.BitOr(), a, b, None)
    except PyRaise as e:
        raise AnalysisError(f"anchor vanished: a plain class union fails with {e.name}")
    if not found:
        try:
            f = model.method(CLS, "__Class", "__extract_classes")
            _READER_CACHE[model.root] = f
            return f
        except AnalysisError:
            pass
        raise AnalysisError("anchor vanished: no function of the class pipeline reads a class text into (ranges, characters)")
    _READER_CACHE[model.root] = found[0]
    return found[0]


def read_back(model, text):
    """Interpret the pipeline's reader on `text`: -> (ranges, chars) unescaped, or ('raise', exc)."""
    f = reader_function(model)
    it = Interp(model, PregexHooks(model))
    is_cls_text = lambda x: isinstance(x, str) and x.startswith("[") and x.endswith("]")
    try:
        if model.root in _READER_SHAPE:
            a0, k0 = _READER_SHAPE[model.root]
            args = [text if is_cls_text(x) else x for x in a0]
            kw = {k: (text if is_cls_text(v) else v) for k, v in k0.items()}
            r = it.call(FuncRef(f), args, kw)
        else:
            kw = {"unescape": True} if "unescape" in f.params else {}
            r = it.call(FuncRef(f), [text] + ([True] if not kw and len([p for p in f.params if p != "self"]) >= 2 else []), kw)
    except PyRaise as e:
        return "raise", e
    return set(r[0]), set(r[1])


def set_of_text(text):
    """What `re` makes of the class text: (intervals, negated) or None."""
    try:
        tree = parse_regex(text, 0)[0]
    except re.error:
        return None
    if len(tree) != 1:
        return None
    node = tree[0]
    items = node[1] if node[0] == "IN" else ((node,) if node[0] == "LITERAL" else None)
    if node[0] == "NOT_LITERAL":
        return [(node[1], node[1])], True
    if items is None:
        return None
    neg, iv = False, []
    for it in items:
        if it[0] == "NEGATE":
            neg = True
        elif it[0] == "LITERAL":
            iv.append((it[1], it[1]))
        elif it[0] == "RANGE":
            iv.append(tuple(it[1]))
        else:
            return None
    return merge(iv), neg


_RANGE_RE_CACHE = {}


def reader_range_regex(model):
    """The regex with which the class pipeline recognises a range `x-y` in a class body, located by ROLE: a class
    union is interpreted and every pattern handed to `re` (module functions and compiled objects alike) is recorded;
    the reader's range regex is the recorded (sub)pattern of the shape <endpoint> '-' <endpoint> with alternation
    endpoints.  (Where the constant lives and what it is called does not matter.)"""
    if model.root in _RANGE_RE_CACHE:
        return _RANGE_RE_CACHE[model.root]
    import re as _re
    seen = []

    class Rec(PregexHooks):
        def intercept_py(self, interp, f, args, kwargs, node):
            pat = None
            owner = getattr(f, "__self__", None)
            if isinstance(owner, _re.Pattern):
                pat = owner.pattern
            elif getattr(f, "__module__", None) == "re" and args and isinstance(args[0], str):
                pat = args[0]
            elif f is _re.compile and args and isinstance(args[0], str):
                pat = args[0]
            if isinstance(pat, str) and pat not in seen:
                seen.append(pat)
            return NotImplemented
    it = Interp(model, Rec(model), fuel=400000)
    import ast as _ast
    try:
        a = it.construct(model.cls(CLS, "AnyFrom"), ["a", "c", "x"])
        b = it.construct(model.cls(CLS, "AnyBetween"), ["b", "f"])
        it.binop(_ast.BitOr(), a, b, None)
        it.binop(_ast.Sub(), b, a, None)
    except PyRaise as e:
        raise AnalysisError(f"anchor vanished: a plain class union fails with {e.name}")

    def shape_ok(nodes):
        return len(nodes) == 3 and nodes[1] == ("LITERAL", 45) and nodes[0][0] == "BRANCH" and nodes[2][0] == "BRANCH"

    def find(nodes):
        if shape_ok(nodes):
            return nodes
        for n in nodes:
            if n[0] == "SUBPATTERN":
                r = find(tuple(n[1][3]))
                if r is not None:
                    return r
            elif n[0] == "BRANCH":
                for alt in n[1][1]:
                    r = find(tuple(alt))
                    if r is not None:
                        return r
        return None
    for pat in seen:
        try:
            tree = parse_regex(pat, 0)[0]
        except _re.error:
            continue
        hit = find(tuple(tree))
        if hit is not None:
            # re-serialise the located sub-tree from the source text: take the text between the group's parentheses
            text = _subpattern_text(pat, hit)
            if text is not None:
                _RANGE_RE_CACHE[model.root] = text
                return text
    raise AnalysisError("anchor vanished: no regex of the shape <endpoint>-<endpoint> is applied by the class pipeline")


def _subpattern_text(pat, hit):
    """Text of the sub-pattern of `pat` whose parse equals `hit` (tried: the whole pattern, every parenthesised part)."""
    cands = [pat]
    depth, starts = 0, []
    i = 0
    while i < len(pat):
        c = pat[i]
        if c == "\\":
            i += 2
            continue
        if c == "[":
            j = i + 1
            if j < len(pat) and pat[j] == "^":
                j += 1
            if j < len(pat) and pat[j] == "]":
                j += 1
            while j < len(pat) and pat[j] != "]":
                j += 2 if pat[j] == "\\" else 1
            i = j + 1
            continue
        if c == "(":
            starts.append(i)
        elif c == ")" and starts:
            st = starts.pop()
            inner = pat[st + 1:i]
            if inner.startswith("?:"):
                inner = inner[2:]
            cands.append(inner)
        i += 1
    for t in cands:
        try:
            if tuple(parse_regex(t, 0)[0]) == tuple(hit):
                return t
        except Exception:
            continue
    return None


def writer_table(model):
    """The set of characters the class writer escapes, observed: AnyFrom(c) is interpreted for every ASCII character
    and the text handed to the class pipeline is inspected (escaped iff it is '[' + backslash + c + ']')."""
    base_init = model.method(CLS, "__Class", "__init__")

    class Stop(Exception):
        pass

    class Rec(PregexHooks):
        def intercept(self, interp, target, args, kwargs, node):
            if target is base_init:
                names = ["self", "pattern", "is_negated", "simplify_word"]
                b = dict(zip(names, args))
                b.update(kwargs)
                self.handed = b.get("pattern")
                raise Stop()
            return super().intercept(interp, target, args, kwargs, node)
    W = set()
    ci = model.cls(CLS, "AnyFrom")
    for cp in range(32, 127):
        c = chr(cp)
        h = Rec(model)
        try:
            Interp(model, h, fuel=100000).construct(ci, [c])
        except Stop:
            if h.handed == "[\\" + c + "]":
                W.add(c)
        except PyRaise:
            pass
    if not W:
        raise AnalysisError("anchor vanished: the class writer escapes no ASCII character at all")
    return W


def tables(model):
    """W, R_esc, R_bare from the source constants."""
    base = model.cls(CLS, "__Class")
    W = None
    if "_to_escape" in base.attrs:
        try:
            W = set(ast.literal_eval(base.attrs["_to_escape"]))
        except (ValueError, SyntaxError):
            W = None                 # the attribute is an alias of a constant defined elsewhere (`_to_escape = _cs.TO_ESCAPE`)
    if W is None:
        W = writer_table(model)      # the table lives elsewhere / under another name: observe what the writer escapes
    rp = reader_range_regex(model)
    tree = parse_regex(rp, 0)[0]
    # shape: endpoint '-' endpoint ; endpoint = BRANCH[ '\\' + alternatives , NOT-set ]
    def endpoint(node):
        if node[0] != "BRANCH":
            raise AnalysisError("range_pattern endpoint is not an alternation")
        esc, bare = set(), None
        for alt in node[1][1]:
            if len(alt) == 2 and alt[0] == ("LITERAL", 92):
                x = alt[1]
                if x[0] == "IN":
                    for it in x[1]:
                        if it[0] == "LITERAL":
                            esc.add(chr(it[1]))
                        elif it[0] == "RANGE":
                            esc.update(chr(c) for c in range(it[1][0], it[1][1] + 1))
                elif x[0] == "LITERAL":
                    esc.add(chr(x[1]))
                elif x[0] == "BRANCH":
                    for a2 in x[1][1]:
                        for it in a2:
                            if it[0] == "LITERAL":
                                esc.add(chr(it[1]))
                            elif it[0] == "IN":
                                for jt in it[1]:
                                    if jt[0] == "LITERAL":
                                        esc.add(chr(jt[1]))
                                    elif jt[0] == "RANGE":
                                        esc.update(chr(c) for c in range(jt[1][0], jt[1][1] + 1))
            elif len(alt) == 1 and alt[0][0] == "IN" and alt[0][1][0][0] == "NEGATE":
                bare = {chr(it[1]) for it in alt[0][1][1:] if it[0] == "LITERAL"}
            elif len(alt) == 1 and alt[0][0] == "NOT_LITERAL":
                bare = {chr(alt[0][1])}
        if bare is None:
            raise AnalysisError("range_pattern endpoint has no negated set")
        return esc, bare
    lits = [i for i, n in enumerate(tree) if n == ("LITERAL", 45)]
    if len(tree) != 3 or lits != [1]:
        raise AnalysisError("range_pattern is not <endpoint>-<endpoint>")
    e1, b1 = endpoint(tree[0])
    e2, b2 = endpoint(tree[2])
    return W, (e1, b1), (e2, b2), rp


def run(ctx, model):
    from . import signatures as _sig
    _n_sig = _sig.check(ctx, model, "R-SIGNATURE", lambda k: k.startswith(('pregex.core.classes:', 'pregex.core.tokens:')))
    ctx.floor("R-SIGNATURE", _n_sig, 1, "public entry points")
    from spec.class_sets import CLASSES, TOKENS
    ctx.explanation = __doc__.strip().replace("\n", " ")
    ctx.assumptions += [
        "not decided: the run-time pipeline __process -> __chars_to_ranges -> __verbose_to_shorthand -> one-character collapse "
        "that turns the constructor's text into the emitted text (data-dependent loops over run-time sets); the rules decide "
        "what goes INTO that pipeline, that its reader reads it back unchanged, and that writer and reader tables agree",
        "code points that only \\d \\s \\w add beyond ASCII are unspecified by the property",
    ]
    # ---------------- R-CLASSCONST
    named = named_classes(model)
    ctx.floor("R-CLASSCONST", len(named), 27, "constant classes")
    seen_pairs = set()
    for name, info in sorted(named.items()):
        ci = info["ci"]
        init = info["init"]
        if name == "Any":
            ctx.instance("R-CLASSCONST", key=name, sample="Any: '.' (with DOTALL, C11 R-FLAGS)")
            if not info["is_any"] or info["is_negated_flag"]:
                ctx.violation("R-CLASSCONST", init.relpath, f"{name}.__init__", "class constant", "Any must be '.' and not negated", init.node.lineno)
            continue
        is_but = name.startswith("AnyBut")
        pair = name[len("AnyBut"):] if is_but else name[len("Any"):]
        seen_pairs.add(pair)
        ctx.instance("R-CLASSCONST", key=name, sample=f"{name}: {info['text']!r} -> {info['intervals'][:4]}{'...' if len(info['intervals']) > 4 else ''} negated={info['negated_text']}")
        if info["negated_text"] != is_but or info["is_negated_flag"] != is_but:
            ctx.violation("R-CLASSCONST", init.relpath, f"{name}.__init__", "polarity",
                          f"{name}: '^' in the text is {info['negated_text']}, is_negated flag is {info['is_negated_flag']}; "
                          f"an {'AnyBut*' if is_but else 'Any*'} class must have both {is_but}", init.node.lineno)
        want = CLASSES.get(pair)
        if want is None:
            raise AnalysisError(f"class {name} has no row in spec/class_sets.py (new class: add its documented set)")
        if info["intervals"] != merge(want):
            ctx.violation("R-CLASSCONST", init.relpath, f"{name}.__init__", "class constant",
                          f"{name} does not denote its documented character set", init.node.lineno,
                          detail=f"source denotes {_fmt(info['intervals'])}, documented {_fmt(merge(want))}")
        twin = ("Any" + pair) if is_but else ("AnyBut" + pair)
        if twin not in named:
            ctx.violation("R-CLASSCONST", init.relpath, f"{name}.__init__", "twin", f"{name} has no {twin} counterpart", init.node.lineno)
        elif named[twin]["intervals"] != info["intervals"]:
            ctx.violation("R-CLASSCONST", init.relpath, f"{name}.__init__", "twin agreement",
                          f"{name} and {twin} do not exclude/include the same characters", init.node.lineno,
                          detail=f"{_fmt(info['intervals'])} vs {_fmt(named[twin]['intervals'])}")
    for pair in CLASSES:
        if pair not in seen_pairs:
            ctx.violation("R-CLASSCONST", "src/pregex/core/classes.py", "<module>", f"Any{pair}", f"documented class Any{pair} is missing or no longer constant")

    # ---------------- R-TOKENS
    toks = token_classes(model)
    ctx.floor("R-TOKENS", len(toks), 20, "token classes")
    for name, info in sorted(toks.items()):
        init = info["init"]
        ctx.instance("R-TOKENS", key=name, sample=f"{name}: {info['text']!r} -> U+{info['codepoint']:04X}" if info["codepoint"] is not None else f"{name}: {info['text']!r}")
        want = TOKENS.get(name)
        if want is None:
            raise AnalysisError(f"token {name} has no row in spec/class_sets.py")
        if info["codepoint"] != want:
            ctx.violation("R-TOKENS", init.relpath, f"{name}.__init__", "token constant",
                          f"{name} must match exactly U+{want:04X}", init.node.lineno,
                          detail=f"constant {info['text']!r} denotes {info['codepoint']!r}")
    for name in TOKENS:
        if name not in toks:
            ctx.violation("R-TOKENS", "src/pregex/core/tokens.py", "<module>", name, f"documented token {name} is missing")

    # ---------------- R-CLSESC
    W, (e1, b1), (e2, b2), rp = tables(model)
    base = model.cls(CLS, "__Class")
    sep = reader_function(model)
    ctx.instance("R-CLSESC", key="tables", sample=f"W={sorted(W)} R_esc={sorted(c for c in e1 if not c.isalpha())}+[a-z] R_bare={sorted(b1)}")
    if (e1, b1) != (e2, b2):
        ctx.violation("R-CLSESC", sep.relpath, sep.short, "range_pattern", "start and end endpoint of range_pattern differ", sep.node.lineno)
    need = {"\\", "]", "^", "-"}
    for i, (cond, msg) in enumerate([
        (need <= W, f"_to_escape must contain the class syntax characters {sorted(need)}; missing {sorted(need - W)}"),
        (W <= e1, f"every character the writer escapes must be readable after a backslash; unreadable: {sorted(W - e1)}"),
        (b1 <= W, f"every character the reader refuses as a bare range endpoint must be escaped by the writer; unescaped: {sorted(b1 - W)}"),
    ]):
        ctx.instance("R-CLSESC", key=("relation", i), sample=msg.split(";")[0])
        if not cond:
            where = base.attr_nodes["_to_escape"]
            ctx.violation("R-CLSESC", base.module.relpath, "__Class", ["W >= syntax", "R_esc >= W", "R_bare <= W"][i],
                          "writer and reader tables of in-class escaping disagree: " + msg, where.lineno)

    # ---------------- R-ROUNDTRIP / R-TWIN / R-ARGS
    ascii_chars = [chr(i) for i in range(128)]
    beyond = ["é", "ß", "·", "一", "", "\U0010ffff"]
    specials = sorted(W | b1 | set(".*+?{}()|$^[]-/\\ \n\t"))

    def check_handed(cname, args, label, want_iv, want_neg, want_units):
        kind, h, hooks = construct(model, cname, args)
        f = model.cls(CLS, cname).methods["__init__"]
        inp = f"{cname}({label})"
        ctx.instance("R-ROUNDTRIP", key=inp, sample=f"{inp}: hands over {h[0]!r}" if kind == "ok" and h else f"{inp}: {kind} {getattr(h, 'name', '')}")
        if kind == "raise":
            builtin = not h.is_library
            ctx.violation("R-ARGS" if builtin else "R-ROUNDTRIP", f.relpath, f.short,
                          norm_text(h.node) if h.node is not None else "<raise>",
                          f"{cname} fails with {'the unrelated error ' if builtin else ''}{h.name} on valid arguments",
                          h.node.lineno if h.node is not None else f.node.lineno, inp=inp)
            return None
        if h is None:
            ctx.violation("R-ROUNDTRIP", f.relpath, f.short, "<no text>", f"{cname} never reaches the class pipeline", f.node.lineno, inp=inp)
            return None
        text, neg, _ = h
        got = set_of_text(text)
        if got is None or got[0] != want_iv or got[1] != want_neg or neg != want_neg:
            ctx.violation("R-ROUNDTRIP", f.relpath, f.short, "class text",
                          f"the text handed to the class pipeline does not denote the requested set", f.node.lineno, inp=inp,
                          detail=f"text {text!r} denotes {got}, flag {neg}; requested {_fmt(want_iv)} negated={want_neg}")
            return text
        rb = read_back(model, text)
        if rb[0] == "raise":
            ctx.violation("R-ROUNDTRIP", f.relpath, f.short, "reader", f"the pipeline's reader fails on the constructor's own text ({rb[1].name})",
                          f.node.lineno, inp=inp, detail=repr(text))
            return text
        ranges, chars = rb
        got_units = {("r", r) for r in ranges} | {("c", c) for c in chars}
        if got_units != want_units:
            ctx.violation("R-ROUNDTRIP", f.relpath, f.short, "writer/reader agreement",
                          "the class pipeline's reader does not read the constructor's text back as the requested members",
                          f.node.lineno, inp=inp,
                          detail=f"text {text!r} is read as ranges={sorted(ranges)} chars={sorted(chars)}; requested {sorted(want_units)}")
        return text

    # single characters
    for c in ascii_chars + beyond:
        t1 = check_handed("AnyFrom", [c], repr(c), of_chars(c), False, {("c", c)})
        t2 = check_handed("AnyButFrom", [c], repr(c), of_chars(c), True, {("c", c)})
        _twin(ctx, model, "AnyButFrom", "AnyFrom", t2, t1, repr(c))
    # several characters (specials together)
    for grp in (specials[:6], specials[6:12], specials[12:], ["a", "-", "c"], ["z", "a", "]", "^"]):
        if not grp:
            continue
        t1 = check_handed("AnyFrom", grp, ", ".join(map(repr, grp)), of_chars(grp), False, {("c", c) for c in grp})
        t2 = check_handed("AnyButFrom", grp, ", ".join(map(repr, grp)), of_chars(grp), True, {("c", c) for c in grp})
        _twin(ctx, model, "AnyButFrom", "AnyFrom", t2, t1, ", ".join(map(repr, grp)))
    # ranges: every ASCII character as start and as end, plus all pairs of specials
    pairs = [(a, "\x7f") for a in ascii_chars[:-1]] + [("\x00", b) for b in ascii_chars[1:]]
    pairs += [(a, b) for a in specials for b in specials if ord(a) < ord(b)]
    pairs += [("a", "é"), ("é", "一"), ("一", "\U0010ffff"), ("!", "")]
    for a, b in sorted(set(pairs)):
        want = [(ord(a), ord(b))]
        t1 = check_handed("AnyBetween", [a, b], f"{a!r}, {b!r}", want, False, {("r", f"{a}-{b}")})
        t2 = check_handed("AnyButBetween", [a, b], f"{a!r}, {b!r}", want, True, {("r", f"{a}-{b}")})
        _twin(ctx, model, "AnyButBetween", "AnyBetween", t2, t1, f"{a!r}, {b!r}")
    # token instances as arguments
    for name, info in sorted(toks.items()):
        if info["codepoint"] is None:
            continue
        ch = chr(info["codepoint"])
        tok = lambda: make_operand(model, info["text"], "Token", True, cls=info["ci"], tag=name)
        check_handed("AnyFrom", [tok()], f"{name}()", of_chars(ch), False, {("c", ch)})
        check_handed("AnyButFrom", [tok()], f"{name}()", of_chars(ch), True, {("c", ch)})
        hi = "\U0010ffff"
        if ord(ch) < ord(hi):
            check_handed("AnyBetween", [tok(), hi], f"{name}(), U+10FFFF", [(ord(ch), ord(hi))], False, {("r", f"{ch}-{hi}")})
        if ord(ch) > 0:
            check_handed("AnyButBetween", ["\x00", tok()], f"U+0000, {name}()", [(0, ord(ch))], True, {("r", f"\x00-{ch}")})
        # partners NEAR the token's character and around the backslash: a token's text may be its character behind a backslash
        # (`\$`), and a range check that orders the TEXT instead of the character only goes wrong for partners that lie between
        # the character and U+005C
        for p in sorted({chr(ord(ch) + 1), chr(max(ord(ch) - 1, 0)), "A", "[", "\\", "]", "a"} - {ch}):
            lo, hi2 = (ch, p) if ord(ch) < ord(p) else (p, ch)
            first_tok = ord(ch) < ord(p)
            for cname, negd in (("AnyBetween", False), ("AnyButBetween", True)):
                good = [tok(), p] if first_tok else [p, tok()]
                lab = f"{name}(), {p!r}" if first_tok else f"{p!r}, {name}()"
                check_handed(cname, good, lab, [(ord(lo), ord(hi2))], negd, {("r", f"{lo}-{hi2}")})
                bad = [p, tok()] if first_tok else [tok(), p]
                kind, h, hooks = construct(model, cname, bad)
                f_ = model.cls(CLS, cname).methods["__init__"]
                inp = f"{cname}({p!r}, {name}())" if first_tok else f"{cname}({name}(), {p!r})"
                ctx.instance("R-ARGS", key=inp, sample=f"{inp}: {kind} {getattr(h, 'name', '')}")
                if not (kind == "raise" and h.name == "InvalidRangeException"):
                    ctx.violation("R-ARGS", f_.relpath, f_.short, "validation", f"{inp} must raise InvalidRangeException (the range is inverted)",
                                  f_.node.lineno, inp=inp, detail=f"{kind} {getattr(h, 'name', h)!r}")
    ctx.floor("R-ROUNDTRIP", ctx.rule_counts.get("R-ROUNDTRIP", 0), 800, "constructor evaluations")

    # ---------------- R-PIPELINE
    from ..classsets import denotes
    from .. import interp as interp_mod
    # iteration orders of the interpreted sets (stand for hash seeds): source order, reversed, and pseudo-random permutations
    orders = (0, 1, 10) if ctx.tier == "quick" else (0, 1, 2, 3) + tuple(range(10, 22))
    ctx.extra["set_iteration_orders"] = list(orders)

    def full(cname, args, order):
        interp_mod.SET_ORDER = order
        try:
            it = Interp(model, PregexHooks(model), fuel=300000)
            o = it.construct(model.cls(CLS, cname), [a() if callable(a) else a for a in args])
            from ..absdom import class_fields
            f_neg, f_verb = class_fields(model)
            return "ok", (pattern_of(o), o.fields.get(f_verb), o.fields.get(f_neg))
        except PyRaise as e:
            return "raise", e
        finally:
            interp_mod.SET_ORDER = 0

    # argument FORMS: the same characters handed over as instances of str subclasses must give the same class
    from ..witness import SubStr, LabelStr
    form_cases = [("AnyFrom", ["a", "-", "z"]), ("AnyFrom", ["\\", "n"]), ("AnyFrom", ["^", "a"]), ("AnyFrom", ["]", "[", "b"]),
                  ("AnyButFrom", ["a", "-", "z"]), ("AnyButFrom", ["^", "\\"]), ("AnyBetween", ["$", "a"]), ("AnyBetween", ["+", "-"]),
                  ("AnyBetween", ["-", "a"]), ("AnyButBetween", ["$", "a"]), ("AnyButBetween", ["\\", "a"])]
    for cname, plain_args in form_cases:
        f = model.cls(CLS, cname).find_method("__init__")
        ref = full(cname, plain_args, 0)
        # (only the plain subclass: the pinned constructors stringify their arguments with str(), so an instance whose
        #  __str__ shows something else than its characters is not "a character" for them - outside the property)
        for wrap in (SubStr,):
            for pos in range(len(plain_args) + 1):
                args = [wrap(a_) if (pos == len(plain_args) or i == pos) else a_ for i, a_ in enumerate(plain_args)]
                got = full(cname, args, 0)
                inp = f"{cname}({', '.join(repr(str.__str__(a_)) for a_ in plain_args)}) with {wrap.__name__} at {'every position' if pos == len(plain_args) else pos}"
                ctx.instance("R-PIPELINE", key=("form", inp))
                same = (ref[0] == got[0]) and (ref[1] == got[1] if ref[0] == "ok" else ref[1].name == got[1].name)
                if not same:
                    ctx.violation("R-PIPELINE", f.relpath, f"{cname}.__init__", "argument form: instance of a str subclass",
                                  "a character handed over as an instance of a subclass of str does not give the class that the plain "
                                  "one-character string gives", f.node.lineno, inp=inp,
                                  detail=f"plain: {ref[1] if ref[0] == 'ok' else ref[1].name}; subclass instance: {got[1] if got[0] == 'ok' else got[1].name}")

    pipeline_tasks = []

    def pipeline(*a):      # deferred: evaluated in parallel below
        pipeline_tasks.append(a)

    def pipeline_now(ctx, item):
        cname, args, label, want_iv, want_neg = item
        f = model.cls(CLS, cname).find_method("__init__")
        for order in orders:
            kind, r = full(cname, args, order)
            inp = f"{cname}({label})"
            ctx.instance("R-PIPELINE", key=(inp, order), sample=f"{inp} [set order {order}] -> {r[0]!r} (verbose {r[1]!r})" if kind == "ok" else f"{inp} -> {r.name}")
            if kind == "raise":
                ctx.violation("R-PIPELINE", f.relpath, f"{cname}.__init__", norm_text(r.node) if r.node is not None else "<raise>",
                              f"{cname} fails with {r.name} on valid arguments", f.node.lineno, inp=inp)
                return
            pattern, verbose, neg = r
            for what, text in (("emitted pattern", pattern), ("verbose text", verbose)):
                if text == "." and cname == "Any":
                    continue
                okd, why = denotes(text, want_iv, want_neg, 0) if isinstance(text, str) else (False, f"{what} is {text!r}")
                if not okd:
                    ctx.violation("R-PIPELINE", f.relpath, f"{cname}.__init__", f"class pipeline: {what}",
                                  f"the {what} produced by the class pipeline does not denote the requested character set",
                                  f.node.lineno, inp=inp, detail=f"[set order {order}] {why}")
            if neg != want_neg and cname != "Any":
                ctx.violation("R-PIPELINE", f.relpath, f"{cname}.__init__", "polarity flag", "the stored polarity flag is wrong",
                              f.node.lineno, inp=inp)

    for name, info in sorted(named.items()):
        if name == "Any":
            pipeline(name, [], "", [(0, MAXU)], False)
            continue
        if name in ("AnyWordChar", "AnyButWordChar"):
            for g in (False, True):
                pipeline(name, [g], f"is_global={g}", info["intervals"], info["is_negated_flag"])
            continue
        pipeline(name, [], "", info["intervals"], info["is_negated_flag"])
    for c in ascii_chars + beyond:
        pipeline("AnyFrom", [c], repr(c), of_chars(c), False)
        pipeline("AnyButFrom", [c], repr(c), of_chars(c), True)
    import itertools
    # the order in which the members are GIVEN matters as much as the set orders: all arrangements of 2 and 3
    base = sorted(W | ({"a"} if ctx.tier == "quick" else {"a", ".", "b"}))
    combos = [list(g) for k in (2, 3) for g in itertools.permutations(base, k)]
    combos += [specials[:6], specials[6:12], specials[12:], list("0123456789"), list("abcxyz_"), ["a", "c", "b"], [".", "."], sorted(W)]
    for grp in combos:
        if grp:
            pipeline("AnyFrom", grp, ", ".join(map(repr, grp)), of_chars(grp), False)
            if len(grp) != 3 or ctx.tier == "thorough" or grp == sorted(grp):
                pipeline("AnyButFrom", grp, ", ".join(map(repr, grp)), of_chars(grp), True)
    # runs of consecutive characters that end / start at a character the writer escapes, together with one more
    # member elsewhere (four or more members: the run is folded into a range whose endpoint is spelled escaped)
    probes = ["5", "A", "Z", "a", "~", "!"]
    for w in sorted(W):
        for run in ([chr(ord(w) - 2), chr(ord(w) - 1), w], [w, chr(ord(w) + 1), chr(ord(w) + 2)]):
            extras = [x for x in probes + sorted(W) if x not in run]
            if ctx.tier == "quick":
                extras = [x for i, x in enumerate(extras) if (i + ord(w)) % 2 == 0 or x in ("5", "Z")]
            for x in extras:
                for grp in ([*run, x], [x, *reversed(run)]):
                    pipeline("AnyFrom", grp, ", ".join(map(repr, grp)), of_chars(grp), False)
                if x in ("5", "Z") or ctx.tier == "thorough":
                    pipeline("AnyButFrom", [*run, x], ", ".join(map(repr, [*run, x])), of_chars([*run, x]), True)
    some_pairs = [(a, b) for a in specials for b in specials if ord(a) < ord(b)][::3] + [("a", "b"), ("a", "c"), ("0", "9"), ("A", "z"), ("\x00", "\x7f"), ("a", "é"), ("一", "\U0010ffff")]
    for a, b in some_pairs:
        pipeline("AnyBetween", [a, b], f"{a!r}, {b!r}", [(ord(a), ord(b))], False)
        pipeline("AnyButBetween", [a, b], f"{a!r}, {b!r}", [(ord(a), ord(b))], True)
    for name, info in sorted(toks.items()):
        if info["codepoint"] is None:
            continue
        ch = chr(info["codepoint"])
        tok = lambda info=info, name=name: make_operand(model, info["text"], "Token", True, cls=info["ci"], tag=name)
        pipeline("AnyFrom", [tok], f"{name}()", of_chars(ch), False)
        pipeline("AnyFrom", ["a", tok, "b"], f"'a', {name}(), 'b'", of_chars("ab" + ch), False)
        pipeline("AnyButFrom", [tok], f"{name}()", of_chars(ch), True)
    ctx.parallel(pipeline_tasks, pipeline_now)
    ctx.floor("R-PIPELINE", ctx.rule_counts.get("R-PIPELINE", 0), 800, "full pipeline evaluations")

    # ---------------- R-ARGS
    other = lambda: make_operand(model, "pq", "Other", True)
    rows = [("AnyFrom", [], "NotEnoughArgumentsException"), ("AnyButFrom", [], "NotEnoughArgumentsException"),
            ("AnyFrom", ["ab"], T_EXC), ("AnyFrom", [5], T_EXC), ("AnyFrom", [None], T_EXC), ("AnyFrom", ["a", "bc"], T_EXC),
            ("AnyFrom", [""], T_EXC), ("AnyBetween", ["", "a"], T_EXC), ("AnyButBetween", ["a", ""], T_EXC), ("AnyButFrom", ["ab"], T_EXC), ("AnyButFrom", [5.0], T_EXC),
            ("AnyBetween", ["ab", "c"], T_EXC), ("AnyBetween", ["a", "cd"], T_EXC), ("AnyBetween", [1, 2], T_EXC), ("AnyBetween", ["a", None], T_EXC),
            ("AnyBetween", ["b", "a"], "InvalidRangeException"), ("AnyBetween", ["a", "a"], "InvalidRangeException"),
            ("AnyButBetween", ["ab", "c"], T_EXC), ("AnyButBetween", [1, 2], T_EXC),
            ("AnyButBetween", ["b", "a"], "InvalidRangeException"), ("AnyButBetween", ["a", "a"], "InvalidRangeException"),
            # two-character strings that start with (or contain) a backslash are still multi-character strings
            ("AnyFrom", ["\\a"], T_EXC), ("AnyButFrom", ["\\a"], T_EXC), ("AnyFrom", ["a\\"], T_EXC), ("AnyFrom", ["\\$"], T_EXC),
            ("AnyBetween", ["\\a", "z"], T_EXC), ("AnyBetween", ["a", "\\z"], T_EXC), ("AnyButBetween", ["\\a", "z"], T_EXC),
            ("AnyButBetween", ["a", "z\\"], T_EXC)]
    for cname, args, exc in rows:
        kind, h, hooks = construct(model, cname, args)
        f = model.cls(CLS, cname).methods["__init__"]
        inp = f"{cname}({', '.join(map(repr, args))})"
        ctx.instance("R-ARGS", key=inp, sample=f"{inp}: {kind} {getattr(h, 'name', '')}")
        if exc is None:
            if kind == "raise" and not h.is_library:
                ctx.violation("R-ARGS", f.relpath, f.short, "validation", f"{inp} fails with the unrelated error {h.name}", f.node.lineno, inp=inp)
            continue
        if not (kind == "raise" and h.name == exc):
            ctx.violation("R-ARGS", f.relpath, f.short, "validation", f"{inp} must raise {exc}", f.node.lineno, inp=inp,
                          detail=f"{kind} {getattr(h, 'name', h)!r}")
    for cname in ("AnyFrom", "AnyButFrom"):
        kind, h, hooks = construct(model, cname, [other()])
        f = model.cls(CLS, cname).methods["__init__"]
        ctx.instance("R-ARGS", key=(cname, "non-token pregex"), sample=f"{cname}(Pregex('pq')): {kind} {getattr(h, 'name', '')}")
        if not (kind == "raise" and h.name == T_EXC):
            ctx.violation("R-ARGS", f.relpath, f.short, "validation", f"{cname}(<multi-character pattern>) must raise {T_EXC}", f.node.lineno)


def _twin(ctx, model, but, reg, t_but, t_reg, label):
    if t_but is None or t_reg is None:
        return
    f = model.cls(CLS, but).methods["__init__"]
    ctx.instance("R-TWIN", key=(but, label), sample=f"{but}({label}) -> {t_but!r}; {reg}({label}) -> {t_reg!r}")
    if t_but != "[^" + t_reg[1:]:
        ctx.violation("R-TWIN", f.relpath, f.short, "twin agreement",
                      f"{but} does not hand over the negation of what {reg} hands over for the same arguments", f.node.lineno,
                      inp=label, detail=f"{t_but!r} vs {t_reg!r}")


def _fmt(iv):
    return "{" + ", ".join(f"U+{a:04X}" if a == b else f"U+{a:04X}-U+{b:04X}" for a, b in iv[:8]) + (", ..." if len(iv) > 8 else "") + "}"
