"""R-E2E - the text the real builders emit for a meta pattern denotes what the meta-mode term denotes.

The meta checks (C16-C19) decide their properties on terms: the constructors of pregex.meta.essentials are
interpreted with the core DSL replaced by its term algebra.  That leaves one gap: a core builder that mis-emits
exactly the shapes a meta class feeds it.  This rule closes it.  The same constructor call is interpreted a
second time with NOTHING replaced (Pregex.__init__, __infer_type, the grouping table, the class pipeline - all
interpreted), the emitted text is parsed back into a term (CPython's parser gives the syntax tree, precedence
decides the structure) and the two terms are compared as matchers: on sample words drawn from BOTH terms
(class representatives, repetition counts lo / lo+1 / hi, every alternative) and their one-character mutations
(deletion, duplication, replacement), each embedded in several contexts (start/end of text, after/before a
letter, digit, dot, sign, colon, space), both terms must accept exactly the same embedded spans.  The matcher
is this framework's own evaluator of terms (finlang.ends); no code of the library and no regex engine is run.
"""
from __future__ import annotations

import itertools
import zlib

from .. import finlang as FL
from ..finlang import Alt, Atom, Bnd, Cat, Cls, Grp, Lit, Look, Rep
from ..interp import Incomplete, PyRaise
from ..model import AnalysisError
from . import builders as B

ESS = "pregex.meta.essentials"
PROBE = "a0_Z9 .-+:/é"


def _take(xs, cap, salt=""):
    xs = sorted(xs)
    if len(xs) <= cap:
        return xs
    keyed = sorted(xs, key=lambda w: zlib.crc32((salt + w).encode("utf-8", "surrogatepass")))
    return sorted(set(keyed[:cap - 2] + [xs[0], xs[-1]]))


def words(t, cap=40):
    """A small, deterministic set of words of (the look-around-free reading of) t covering its structure."""
    if isinstance(t, Lit):
        return [t.s]
    if isinstance(t, Cls):
        if t.negated:
            pool = [c for c in PROBE + "bcxyz12" if c not in t.chars]
            return pool[:3] or ["一"]
        cs = sorted(t.chars)
        if not cs:
            return []
        picks = {cs[0], cs[-1], cs[len(cs) // 2]}
        for c in "afAF09_z":
            if c in t.chars:
                picks.add(c)
        return sorted(picks)[:6]
    if isinstance(t, Cat):
        acc = [""]
        for it in t.items:
            g = words(it, cap)
            if not g:
                return []
            acc = _take({a + b for a in acc for b in g}, cap, "cat")
        return acc
    if isinstance(t, Alt):
        acc = set()
        for it in t.items:
            acc.update(words(it, max(4, cap // max(1, len(t.items)))))
        return _take(acc, cap, "alt")
    if isinstance(t, Rep):
        g = words(t.t, 6)
        counts = {t.lo, t.lo + 1}
        if t.hi is not None:
            counts.add(t.hi)
            counts = {k for k in counts if k <= t.hi}
        else:
            counts.add(t.lo + 3)
        acc = set()
        for k in sorted(counts):
            if k > 70:
                continue
            if k == 0:
                acc.add("")
                continue
            if not g:
                continue
            acc.add(g[0] * k)
            acc.add(g[-1] * k)
            acc.add("".join(g[i % len(g)] for i in range(k)))
        return _take(acc, cap, "rep")
    if isinstance(t, (Look, Bnd)):
        return [""]
    if isinstance(t, Grp):
        return words(t.t, cap)
    if isinstance(t, Atom):
        raise Incomplete(f"opaque atom {t.sym} in an end-to-end comparison")
    raise Incomplete(f"words: {type(t).__name__}")


def mutations(ws, alphabet, cap):
    out = set(ws)
    for w in ws:
        for i in range(len(w)):
            out.add(w[:i] + w[i + 1:])
            out.add(w[:i] + w[i] + w[i:])
            for c in alphabet:
                out.add(w[:i] + c + w[i + 1:])
        for c in alphabet:
            out.add(w + c)
            out.add(c + w)
    return _take(out, cap, "mut")


CONTEXTS = [("", ""), ("a", ""), ("", "a"), ("1", ""), ("", "1"), (" ", " "), (".", ""), ("", "."), ("-", ""), ("+", ""),
            (":", ""), ("", ":"), ("1.", ""), ("_", "_")]


def accepts(t, pre, w, post):
    s = pre + w + post
    try:
        return len(pre) + len(w) in FL.ends(t, s, len(pre))
    except RecursionError:
        raise Incomplete("matcher recursion depth")


def emitted_text(model, cname, args, kwargs, module=ESS):
    """Interpret the constructor with the real core DSL -> ('text', str) | ('raise', name)."""
    ci = model.cls(module, cname)
    outs = B.run_thunk(model, lambda it: it.construct(ci, list(args), dict(kwargs or {})), real_classifier=True, fuel_factor=2000)
    if len(outs) != 1:
        raise AnalysisError(f"R-E2E: {cname}: {len(outs)} paths in a concrete interpretation")
    o = outs[0]
    if o.kind == "raise":
        return "raise", o.exc.name
    if o.text is None:
        raise AnalysisError(f"R-E2E: {cname} did not produce a pattern")
    return "text", o.text


def compare(ctx, model, rule, cname, args=(), kwargs=None, n_words=None, module=ESS):
    """One end-to-end comparison; reports a violation on the constructor of `cname`."""
    kwargs = dict(kwargs or {})
    ci = model.cls(module, cname)
    f = ci.find_method("__init__")
    inp = f"{cname}({', '.join([repr(a) for a in args] + [f'{k}={v!r}' for k, v in kwargs.items()])})"
    k1, meta = FL.build(model, cname, list(args), kwargs, module=module)
    k2, text = emitted_text(model, cname, args, kwargs, module)
    if k1 == "raise" or k2 == "raise":
        n1 = meta.name if k1 == "raise" else None
        n2 = text if k2 == "raise" else None
        ctx.instance(rule, key=inp, sample=f"{inp}: raises {n1} / {n2}")
        if n1 != n2:
            ctx.violation(rule, f.relpath, f.short, "<emitted text vs term>",
                          "with the real core builders the constructor fails differently than on terms", f.node.lineno, inp=inp,
                          detail=f"term mode: {n1 or 'pattern'}; real builders: {n2 or 'pattern'}")
        return
    from ..absdom import compiles
    okc, why = compiles(text)
    if not okc:
        ctx.instance(rule, key=inp)
        ctx.violation(rule, f.relpath, f.short, "<emitted text>", "the emitted pattern is rejected by re", f.node.lineno, inp=inp,
                      detail=f"{text[:120]!r}: {why}")
        return
    real = FL.from_text(text)
    cap = n_words or (24 if ctx.tier == "quick" else 80)
    ws = set(words(meta, cap)) | set(words(real, cap))
    alphabet = sorted({c for w in ws for c in w} & set(PROBE + "bcdefABCDEF23456789")) [:10] + list(" .a0")
    cands = mutations(sorted(ws), sorted(set(alphabet)), cap * (12 if ctx.tier == "quick" else 30))
    n = 0
    bad = []
    for w in cands:
        for pre, post in CONTEXTS:
            n += 1
            a, b = accepts(meta, pre, w, post), accepts(real, pre, w, post)
            if a != b:
                bad.append((pre, w, post, a, b))
        if len(bad) > 5:
            break
    ctx.instance(rule, key=inp, sample=f"{inp}: {len(cands)} words x {len(CONTEXTS)} contexts, emitted {text[:60]!r}", n=1)
    if bad:
        pre, w, post, a, b = bad[0]
        ctx.violation(rule, f.relpath, f.short, "<emitted text vs term>",
                      "the pattern emitted by the real core builders does not denote what the constructor composes "
                      "(a core builder mis-handles exactly this shape of operand)", f.node.lineno, inp=inp,
                      detail=f"word {w!r} between {pre!r} and {post!r}: composed term {'accepts' if a else 'rejects'}, "
                             f"emitted text {text[:100]!r} {'accepts' if b else 'rejects'}")
    return n


def process_order(ctx, model, rule, cfgs, module=ESS):
    """R-PROCESS - what a constructor composes does not depend on what the process built before.
    Every configuration is built in a fresh interpreter (= fresh process), then all of them in ONE interpreter
    backwards and then forwards (module- and class-level tables, memos and caches live on and are filled in an
    unusual order); the composed terms must be the same each time."""
    def one(it, cfg):
        cname, args, kwargs = (list(cfg) + [{}])[:3]
        k, t = FL.build(model, cname, list(args), dict(kwargs or {}), module=module, interp=it)
        return ("raise " + t.name) if k == "raise" else FL.to_text(t)
    label = lambda cfg: f"{cfg[0]}({', '.join([repr(a) for a in cfg[1]] + [f'{k}={v!r}' for k, v in (cfg[2] if len(cfg) > 2 else {}).items()])})"
    fresh = [one(None, cfg) for cfg in cfgs]
    shared = FL.meta_interp(model, fuel=200_000_000)
    back = [one(shared, cfg) for cfg in reversed(cfgs)][::-1]
    again = [one(shared, cfg) for cfg in cfgs]
    for i, cfg in enumerate(cfgs):
        ctx.instance(rule, key=label(cfg), sample=f"{label(cfg)}: same term fresh, after {len(cfgs) - 1 - i} later configurations, and again")
        if not (fresh[i] == back[i] == again[i]):
            f = model.cls(module, cfg[0]).find_method("__init__")
            other = back[i] if back[i] != fresh[i] else again[i]
            prev = label(cfgs[i + 1]) if back[i] != fresh[i] and i + 1 < len(cfgs) else "the whole list"
            ctx.violation(rule, f.relpath, f.short, "<result depends on earlier constructions>",
                          "the constructor composes a different pattern when other patterns were built earlier in the same process "
                          "(a shared table, memo or cache leaks from one construction into the next)", f.node.lineno, inp=label(cfg),
                          detail=f"fresh process: {fresh[i][:90]!r}; after {prev}: {other[:90]!r}")
