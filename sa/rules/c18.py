"""C18 - IPv4 and IPv6 patterns accept exactly the standard textual addresses.

R-IPV4  skeleton O.O.O.O with L(O) = {"0".."255"} (enumerated), guard of the non-extensible form
R-IPV6  the constructor's language over {H, :} (H = one group of 1-4 hex digits) is enumerated
        completely and compared with the RFC 4291 shapes; guard of the non-extensible form
"""
from __future__ import annotations

from .. import finlang as FL
from ..finlang import Atom, Cls, Lit, Look, Alt
from ..model import AnalysisError

ESS = "pregex.meta.essentials"
DIGITS = set("0123456789")


def rfc4291_shapes():
    full = ":".join(["H"] * 8)
    out = {full}
    for l in range(0, 8):
        for r in range(0, 8 - l):
            if l + r <= 7:
                out.add(":".join(["H"] * l) + "::" + ":".join(["H"] * r))
    return out


def _guard(ctx, rule, f, term_ext, term_non, sep, what):
    lead, core, trail = FL.strip_looks(term_non)
    ok = (len(lead) == 1 and len(trail) == 1 and isinstance(lead[0], Look) and isinstance(trail[0], Look)
          and lead[0].behind and lead[0].neg and not trail[0].behind and trail[0].neg)
    ctx.instance(rule, key=("guard", what), sample=f"{what} non-extensible: lead={[FL.show(x) for x in lead]} trail={[FL.show(x) for x in trail]}")
    if not ok:
        ctx.violation(rule, f.relpath, f.short, "non-extensible guard",
                      f"{what}(is_extensible=False) is not wrapped in a negative look-behind and look-ahead", f.node.lineno)
        return
    for lk in (lead[0], trail[0]):
        try:
            lang = FL.language(lk.t)
        except FL.Unbounded:
            lang = None
        if lang != DIGITS | {sep}:
            ctx.violation(rule, f.relpath, f.short, "non-extensible guard",
                          f"{what}: the glue guard must exclude exactly digits and {sep!r}", f.node.lineno,
                          detail=f"guard language {sorted(lang) if lang is not None else 'unbounded'}")
    if core != FL.flatten(term_ext):
        ctx.violation(rule, f.relpath, f.short, "non-extensible core",
                      f"{what}: the guarded pattern differs from the extensible one", f.node.lineno)
    l2, _, t2 = FL.strip_looks(term_ext)
    if l2 or t2:
        ctx.violation(rule, f.relpath, f.short, "extensible form",
                      f"{what}(is_extensible=True) still carries a guard", f.node.lineno)


def run(ctx, model):
    from . import signatures as _sig
    _n_sig = _sig.check(ctx, model, "R-SIGNATURE", lambda k: any(x in k for x in (':IPv4.', ':IPv6.')))
    ctx.floor("R-SIGNATURE", _n_sig, 1, "public entry points")
    ctx.explanation = (
        "The constructors IPv4.__init__ and IPv6.__init__ are walked by the abstract interpreter in meta mode (E6): "
        "loops and conditional expressions over constants are unrolled, every pregex.core call is replaced by its "
        "documented denotation in a regular-expression algebra.  IPv4: the term flattens to O '.' O '.' O '.' O and the "
        "finite language of each O is enumerated and must equal {'0'..'255'}.  IPv6: Numeral(base=16, n_min=1, n_max=4) "
        "is abstracted to one symbol H (its arguments are checked), the whole constructor then denotes a finite "
        "language over {H, ':'} which is enumerated completely and compared, in both directions, with the RFC 4291 "
        "shapes (8 groups, or L::R with |L|+|R| <= 7).  Non-extensible forms must be the same pattern inside a "
        "negative look-behind/look-ahead on digits and the separator.")
    ctx.assumptions += [
        "denotations of the core DSL operators are their documented meaning (their implementation is decided by C01-C10)",
        "H abstracts Numeral(base=16, 1..4 digits), decided under C17; per-group word boundaries in embedded text not decided",
    ]
    ctx.exhaustive = True
    # ---------------- IPv4
    ci = model.cls(ESS, "IPv4")
    f = ci.methods["__init__"]
    k, t_ext = FL.build(model, "IPv4", [True])
    k2, t_non = FL.build(model, "IPv4", [False])
    k3, t_def = FL.build(model, "IPv4", [])
    if k != "term" or k2 != "term" or k3 != "term":
        ctx.violation("R-IPV4", f.relpath, f.short, "<constructor>", "IPv4() raises", f.node.lineno)
    else:
        seq = FL.flatten(t_ext)
        ctx.instance("R-IPV4", key="skeleton", sample=f"IPv4 skeleton: {[type(x).__name__ if not isinstance(x, Lit) else x.s for x in seq]}")
        shape_ok = len(seq) == 7 and all(isinstance(seq[i], Lit) and seq[i].s == "." for i in (1, 3, 5))
        if not shape_ok:
            ctx.violation("R-IPV4", f.relpath, f.short, "skeleton",
                          "IPv4 is not four octets joined by three literal dots", f.node.lineno,
                          detail=FL.show(t_ext)[:200])
        else:
            want = {str(v) for v in range(256)}
            for pos in (0, 2, 4, 6):
                try:
                    lang = FL.language(seq[pos])
                except FL.Unbounded as e:
                    ctx.violation("R-IPV4", f.relpath, f.short, "octet", f"octet {pos // 2 + 1} has an unbounded language: {e}", f.node.lineno)
                    continue
                ctx.instance("R-IPV4", key=("octet", pos), sample=f"octet {pos // 2 + 1}: |L| = {len(lang)}", n=len(lang) or 1)
                if lang != want:
                    extra = sorted(lang - want, key=lambda s: (len(s), s))[:8]
                    missing = sorted(want - lang, key=lambda s: (len(s), s))[:8]
                    ctx.violation("R-IPV4", f.relpath, f.short, "octet language",
                                  "an IPv4 octet does not denote exactly the decimal numerals 0-255 without leading zeros",
                                  f.node.lineno, inp=f"octet {pos // 2 + 1}", detail=f"wrongly accepted {extra}; wrongly rejected {missing}")
        _guard(ctx, "R-IPV4", f, t_ext, t_non, ".", "IPv4")
        if t_def != t_non:
            ctx.violation("R-IPV4", f.relpath, f.short, "default", "IPv4() must default to the non-extensible form", f.node.lineno)

    # ---------------- IPv6
    ci = model.cls(ESS, "IPv6")
    f = ci.methods["__init__"]
    seen = []

    def opaque(name, args, kwargs, ext=None):
        seen.append((args, kwargs))
        return Atom("H")
    res = {}
    for ext in (True, False):
        seen.clear()
        k, t = FL.build(model, "IPv6", [ext], opaque_meta={"Numeral"}, opaque_fn=opaque)
        if k != "term":
            ctx.violation("R-IPV6", f.relpath, f.short, "<constructor>", f"IPv6({ext}) raises {t.name}", f.node.lineno)
            continue
        res[ext] = t
        for args, kwargs in seen:
            b = dict(zip(["base", "n_min", "n_max", "is_extensible"], args))
            b.update(kwargs)
            ctx.instance("R-IPV6", key=("group", ext, tuple(sorted(b.items()))), sample=f"hex group = Numeral({b})")
            if (b.get("base"), b.get("n_min", 1), b.get("n_max"), b.get("is_extensible", False)) != (16, 1, 4, ext):
                ctx.violation("R-IPV6", f.relpath, f.short, "hex group",
                              "an IPv6 group must be Numeral(base=16, n_min=1, n_max=4, is_extensible=<same>)", f.node.lineno,
                              detail=str(b))
    # the hex group itself: Numeral(base=16, 1..4 digits) must denote every string of 1-4 hex digits in either case
    kh, th = FL.build(model, "Numeral", [], {"base": 16, "n_min": 1, "n_max": 4, "is_extensible": True})
    fn = model.cls(ESS, "Numeral").methods["__init__"]
    if kh != "term":
        ctx.violation("R-IPV6", fn.relpath, fn.short, "hex group", f"Numeral(base=16, n_min=1, n_max=4) raises {th.name}", fn.node.lineno)
    else:
        inner = th.t if isinstance(th, FL.Rep) else th
        rng = (th.lo, th.hi) if isinstance(th, FL.Rep) else (1, 1)
        try:
            digits = FL.language(inner)
        except FL.Unbounded:
            digits = None
        want_d = set("0123456789abcdefABCDEF")
        ctx.instance("R-IPV6", key="hex digits", sample=f"hex group = {FL.show(th)}; digit language {sorted(digits) if digits else None}")
        if digits != want_d or rng != (1, 4):
            ctx.violation("R-IPV6", fn.relpath, fn.short, "hex group",
                          "an IPv6 group must be 1-4 hexadecimal digits in either case", fn.node.lineno,
                          detail=f"digits missing {sorted(want_d - (digits or set()))} extra {sorted((digits or set()) - want_d)}; length range {rng}")
    if True in res:
        t_ext = res[True]
        try:
            lang = FL.language(t_ext)
        except FL.Unbounded as e:
            raise AnalysisError(f"IPv6 language is not finite over {{H, :}}: {e}")
        want = rfc4291_shapes()
        ctx.instance("R-IPV6", key="language", sample=f"|L(IPv6)| = {len(lang)} over {{H, :}}; |RFC 4291| = {len(want)}", n=len(lang | want))
        extra = sorted(lang - want, key=lambda s: (len(s), s))
        missing = sorted(want - lang, key=lambda s: (len(s), s))
        if extra:
            ctx.violation("R-IPV6", f.relpath, f.short, "language too large",
                          "IPv6 accepts texts that are not RFC 4291 addresses (H = one hex group)", f.node.lineno,
                          inp="; ".join(extra[:12]), detail=f"{len(extra)} extra shapes, e.g. {extra[:6]}")
        if missing:
            ctx.violation("R-IPV6", f.relpath, f.short, "language too small",
                          "IPv6 rejects valid RFC 4291 addresses (H = one hex group)", f.node.lineno,
                          inp="; ".join(missing[:12]), detail=f"{len(missing)} missing shapes, e.g. {missing[:6]}")
        if False in res:
            _guard(ctx, "R-IPV6", f, t_ext, res[False], ":", "IPv6")
    ctx.floor("R-IPV6", ctx.rule_counts.get("R-IPV6", 0), 40, "IPv6 shapes")

    # ---------------- R-E2E: the text emitted by the real core builders denotes the composed term
    from . import e2e
    cfgs = [("IPv4", []), ("IPv4", [True]), ("IPv6", []), ("IPv6", [True])]
    if ctx.tier == "thorough":
        cfgs += []
    ctx.parallel(cfgs, lambda c, cfg: e2e.compare(c, model, "R-E2E", *cfg), min_items=2)
    ctx.floor("R-E2E", ctx.rule_counts.get("R-E2E", 0), len(cfgs), "end-to-end comparisons")

    # ---------------- R-PROCESS: the same configurations in one long-lived process, backwards and forwards
    pcfgs = cfgs + [("Numeral", [16, 1, 4]), ("Integer", [0, 255])]
    e2e.process_order(ctx, model, "R-PROCESS", pcfgs)
    ctx.floor("R-PROCESS", ctx.rule_counts.get("R-PROCESS", 0), len(pcfgs), "configurations replayed in one process")

