"""C17 - Numeral and Word patterns enforce alphabet, length and affix exactly.

R-NUM-ALPHABET   for every base 2..16 the digit class denotes the first `base` hex digits (both cases)
R-NUM-BOUNDS     n_min/n_max (min_chars/max_chars) arrive as the repetition range of that class
R-WORD-SKELETON  Word = W{min,max}; WordContains = W* (a1|..|ak) W*; StartsWith = (..) W*; EndsWith = W* (..);
                 all enclosed in word boundaries iff not is_extensible; affixes are literals; is_global forwarded
R-ARGS           out-of-range / ill-typed parameters raise the documented exceptions
"""
from __future__ import annotations

from .. import finlang as FL
from ..finlang import Alt, Bnd, Cls, Lit, Rep, WORD
from ..model import AnalysisError

ESS = "pregex.meta.essentials"
HEX = "0123456789abcdef"
T_EXC = "InvalidArgumentTypeException"
V_EXC = "InvalidArgumentValueException"


def expected_digits(base):
    s = set(HEX[:base])
    return s | {c.upper() for c in s}


def core_of(t):
    lead, core, trail = FL.strip_looks(t)
    return lead, core, trail


def rep_parts(t):
    """term -> (inner, lo, hi) reading X as X{1,1} and '' as X{0,0}"""
    if isinstance(t, Rep):
        return t.t, t.lo, t.hi
    if t == FL.EMPTY:
        return None, 0, 0
    return t, 1, 1


def single_chars(t):
    try:
        lang = FL.language(t)
    except FL.Unbounded:
        return None
    if any(len(s) != 1 for s in lang):
        return None
    return lang


def run(ctx, model):
    from . import signatures as _sig
    _n_sig = _sig.check(ctx, model, "R-SIGNATURE", lambda k: any(x in k for x in (':Numeral.', ':Word.', ':WordContains.', ':WordStartsWith.', ':WordEndsWith.')))
    ctx.floor("R-SIGNATURE", _n_sig, 1, "public entry points")
    ctx.explanation = (
        "Numeral, Word, WordContains, WordStartsWith, WordEndsWith and __Word are walked by the abstract interpreter "
        "in meta mode (E6).  `base` is bounded by the guard 2..16 (its presence is checked by R-ARGS), so all 15 "
        "configurations are evaluated: the digit expression (Either('0','1') or the unrolled union loop over "
        "digit_map) must denote exactly the first `base` hex digits in both cases.  Length bounds are evaluated on a "
        "complete set of order types ((1,None), (0,k), (k,k), (1,1), (j,k)) and must be the repetition range of the "
        "digit / word-character class.  Word skeletons are compared for affix lists of length 1, 2, 3 (Either is a left "
        "fold) and for str input; word boundaries iff not is_extensible; the is_global flag must reach AnyWordChar.")
    ctx.assumptions += ["'maximal runs' and 'standalone' follow from re's \\b and \\w semantics",
                        "affix strings are taken literally because operators escape str operands (C01)"]
    ctx.exhaustive = True
    # ---------------- Numeral
    ci = model.cls(ESS, "Numeral")
    f = ci.methods["__init__"]
    for base in range(2, 17):
        k, t = FL.build(model, "Numeral", [base, 1, None, True])
        inp = f"Numeral(base={base})"
        if k != "term":
            ctx.instance("R-NUM-ALPHABET", key=base)
            ctx.violation("R-NUM-ALPHABET", f.relpath, f.short, "<constructor>", f"{inp} raises {t.name}", f.node.lineno, inp=inp)
            continue
        inner, lo, hi = rep_parts(t)
        chars = single_chars(inner) if inner is not None else None
        ctx.instance("R-NUM-ALPHABET", key=base, sample=f"{inp}: digits {''.join(sorted(chars)) if chars else None} range=({lo},{hi})")
        want = expected_digits(base)
        if chars != want:
            ctx.violation("R-NUM-ALPHABET", f.relpath, f.short, "digit class",
                          f"the digits of base {base} are not exactly the first {base} hex digits (either case)",
                          f.node.lineno, inp=inp,
                          detail=f"extra {sorted((chars or set()) - want)} missing {sorted(want - (chars or set()))}")
        if (lo, hi) != (1, None):
            ctx.violation("R-NUM-BOUNDS", f.relpath, f.short, "length bounds", f"{inp}: default length is not 1..unbounded",
                          f.node.lineno, inp=inp)
    bounds = [(1, None), (0, None), (0, 3), (2, 2), (1, 1), (2, 5), (0, 0), (4, None)]
    # multi-digit bounds, the regex engine's repeat limits and the neighbours of every integer constant of the chain
    from ..consts import interesting_ints, around
    chain = [c.methods["__init__"] for c in [ci] + list(ci.mro()) if "__init__" in c.methods]
    special = [c for c in around(interesting_ints(chain, lo=2, hi=2 ** 40), lo=2) if c > 16]
    bounds += [(10, 12), (17, 17), (1, 100), (99, None), (1, 65535), (3, 65536), (1, 2 ** 32 - 1)] + [(1, c) for c in special] + [(c, None) for c in special]
    for base in (2, 10, 16):
        for lo, hi in bounds:
            for ext in (True, False):
                k, t = FL.build(model, "Numeral", [], {"base": base, "n_min": lo, "n_max": hi, "is_extensible": ext})
                inp = f"Numeral(base={base}, n_min={lo}, n_max={hi}, is_extensible={ext})"
                ctx.instance("R-NUM-BOUNDS", key=inp, sample=f"{inp}: {FL.show(t)[:80] if k == 'term' else t.name}")
                if k != "term":
                    ctx.violation("R-NUM-BOUNDS", f.relpath, f.short, "<constructor>", f"{inp} raises {t.name}", f.node.lineno, inp=inp)
                    continue
                lead, core, trail = core_of(t)
                _boundaries(ctx, "R-NUM-BOUNDS", f, lead, trail, ext, inp, allow_empty=(lo, hi) == (0, 0))
                ct = FL.cat(*core) if len(core) != 1 else core[0]
                if (lo, hi) == (2, 2) and len(core) == 2:
                    ct = Rep(core[0], 2, 2) if core[0] == core[1] else ct
                inner, glo, ghi = rep_parts(ct)
                if (glo, ghi) != (lo, hi):
                    ctx.violation("R-NUM-BOUNDS", f.relpath, f.short, "length bounds",
                                  "n_min / n_max are not the repetition range of the digit class", f.node.lineno, inp=inp,
                                  detail=f"got range ({glo},{ghi}): {FL.show(t)[:100]}")
                elif inner is not None and single_chars(inner) != expected_digits(base):
                    ctx.violation("R-NUM-ALPHABET", f.relpath, f.short, "digit class",
                                  "digit class changes with the length bounds", f.node.lineno, inp=inp)
    _args(ctx, model, "Numeral", f, [
        ({"base": "x"}, T_EXC), ({"base": 1.5}, T_EXC), ({"base": None}, T_EXC), ({"base": 1}, V_EXC), ({"base": 17}, V_EXC),
        ({"base": 0}, V_EXC), ({"base": -2}, V_EXC),
        ({"n_min": "x"}, T_EXC), ({"n_min": True}, T_EXC), ({"n_min": None}, T_EXC), ({"n_min": -1}, V_EXC),
        ({"n_max": "x"}, T_EXC), ({"n_max": True}, T_EXC), ({"n_max": -1}, V_EXC), ({"n_min": 3, "n_max": 2}, V_EXC),
    ])

    # ---------------- Word
    ci = model.cls(ESS, "Word")
    f = ci.methods["__init__"]
    wbounds = [(1, None), (1, 1), (2, 2), (2, 5), (1, 7), (3, None), (10, 12), (17, 17), (1, 100), (99, None), (1, 65535), (3, 65536)]
    chain = [c.methods["__init__"] for c in [ci] + list(ci.mro()) if "__init__" in c.methods]
    wbounds += [(1, c) for c in around(interesting_ints(chain, lo=2, hi=2 ** 40), lo=2) if c > 16]
    for lo, hi in wbounds:
        for glob in (True, False):
            for ext in (True, False):
                k, t, log = _build_logged(model, "Word", {"min_chars": lo, "max_chars": hi, "is_global": glob, "is_extensible": ext})
                inp = f"Word(min_chars={lo}, max_chars={hi}, is_global={glob}, is_extensible={ext})"
                ctx.instance("R-WORD-SKELETON", key=inp, sample=f"{inp}: {FL.show(t)[:80] if k == 'term' else t.name}")
                if k != "term":
                    ctx.violation("R-WORD-SKELETON", f.relpath, f.short, "<constructor>", f"{inp} raises {t.name}", f.node.lineno, inp=inp)
                    continue
                lead, core, trail = core_of(t)
                _boundaries(ctx, "R-WORD-SKELETON", f, lead, trail, ext, inp)
                ct = FL.cat(*core) if len(core) != 1 else core[0]
                if (lo, hi) == (2, 2) and len(core) == 2 and core[0] == core[1]:
                    ct = Rep(core[0], 2, 2)
                inner, glo, ghi = rep_parts(ct)
                if (glo, ghi) != (lo, hi) or not _is_word_class(inner):
                    ctx.violation("R-WORD-SKELETON", f.relpath, f.short, "word skeleton",
                                  "Word is not min_chars..max_chars word characters", f.node.lineno, inp=inp,
                                  detail=FL.show(t)[:120])
                _global(ctx, f, log, glob, inp)
    _args(ctx, model, "Word", f, [
        ({"min_chars": "x"}, T_EXC), ({"min_chars": None}, T_EXC), ({"min_chars": 0}, V_EXC), ({"min_chars": -1}, V_EXC),
        ({"max_chars": "x"}, T_EXC), ({"max_chars": 1.5}, T_EXC), ({"max_chars": 0}, V_EXC),
        ({"min_chars": 3, "max_chars": 2}, V_EXC),
    ])

    # ---------------- affix words
    # incl. affixes that contain one another at prefix / suffix / inner positions, and a duplicate
    affixes = [["ab"], ["ab", "c.d"], ["x", "(y", "z|"], "solo", ["at", "cat"], ["ate", "at"], ["a", "ea", "la"], ["ab", "abc", "cab"], ["q", "q"]]
    for cname, shape in (("WordContains", "W*AW*"), ("WordStartsWith", "AW*"), ("WordEndsWith", "W*A")):
        ci = model.cls(ESS, cname)
        f = ci.methods["__init__"]
        for aff in affixes:
            for glob in (True, False):
                for ext in (True, False):
                    k, t, log = _build_logged(model, cname, [aff, glob, ext])
                    inp = f"{cname}({aff!r}, is_global={glob}, is_extensible={ext})"
                    ctx.instance("R-WORD-SKELETON", key=inp, sample=f"{inp}: {FL.show(t)[:90] if k == 'term' else t.name}")
                    if k != "term":
                        ctx.violation("R-WORD-SKELETON", f.relpath, f.short, "<constructor>", f"{inp} raises {t.name}", f.node.lineno, inp=inp)
                        continue
                    lead, core, trail = core_of(t)
                    _boundaries(ctx, "R-WORD-SKELETON", f, lead, trail, ext, inp)
                    lits = [aff] if isinstance(aff, str) else list(aff)
                    # the affix part: an alternation (or single literal, possibly flattened into several Lit items)
                    want_alt = FL.alt(*[Lit(s) for s in lits])
                    wstar = lambda x: isinstance(x, Rep) and (x.lo, x.hi) == (0, None) and _is_word_class(x.t)
                    ok = False
                    if shape == "W*AW*" and len(core) >= 3 and wstar(core[0]) and wstar(core[-1]):
                        ok = FL.cat(*core[1:-1]) == want_alt
                    elif shape == "AW*" and len(core) >= 2 and wstar(core[-1]):
                        ok = FL.cat(*core[:-1]) == want_alt
                    elif shape == "W*A" and len(core) >= 2 and wstar(core[0]):
                        ok = FL.cat(*core[1:]) == want_alt
                    if not ok:
                        ctx.violation("R-WORD-SKELETON", f.relpath, f.short, "word skeleton",
                                      f"{cname} is not {shape} with A = the given strings taken literally and W = word character",
                                      f.node.lineno, inp=inp, detail=FL.show(t)[:140])
                    _global(ctx, f, log, glob, inp)
        _args(ctx, model, cname, f, [({"__pos": [5]}, T_EXC), ({"__pos": [["ab", 5]]}, T_EXC), ({"__pos": [[None]]}, T_EXC)])
    ctx.floor("R-WORD-SKELETON", ctx.rule_counts.get("R-WORD-SKELETON", 0), 60, "word skeleton evaluations")

    # ---------------- R-E2E: the text emitted by the real core builders denotes the composed term
    from . import e2e
    cfgs = [("Numeral", [b, lo, hi], {"is_extensible": ext}) for b, lo, hi, ext in ((2, 1, None, False), (10, 2, 4, False), (16, 1, 4, False), (16, 2, None, True), (7, 0, 3, False), (11, 12, 12, False))] + \
           [("Word", [lo, hi, g, ext]) for lo, hi, g, ext in ((1, None, True, False), (2, 5, False, False), (3, 3, True, True), (10, 12, False, False))] + \
           [(cn, [aff, g, ext]) for cn in ("WordContains", "WordStartsWith", "WordEndsWith")
            for aff, g, ext in ((["ab", "c.d"], True, False), ("solo", False, False), (["x\\b"], True, False), (["\\B", "$", "^a"], False, False),
                                (["x", "(y", "z|"], True, True), (["\\w", "a|b", "[c]"], True, False))]
    # affixes handed over as instances of str subclasses (a str-valued enum member shows a label under str() / format())
    from ..witness import SubStr, LabelStr
    cfgs += [(cn, [aff, True, False]) for cn in ("WordContains", "WordStartsWith", "WordEndsWith")
             for aff in (LabelStr("kb"), [LabelStr("ing")], SubStr("a.b"), [LabelStr("x.y"), "z"])]
    if ctx.tier == "thorough":
        cfgs += [("Numeral", [b]) for b in range(2, 17)] + [("Word", [1, 70])]
    ctx.parallel(cfgs, lambda c, cfg: e2e.compare(c, model, "R-E2E", *cfg), min_items=2)
    ctx.floor("R-E2E", ctx.rule_counts.get("R-E2E", 0), len(cfgs), "end-to-end comparisons")

    # ---------------- R-PROCESS: the same configurations in one long-lived process, backwards and forwards
    pcfgs = cfgs + [("Numeral", [b]) for b in (2, 3, 5, 8, 10, 12, 16)] + \
        [("Numeral", [b]) for b in (10.0, True, 16.0, "10", 1, 17)] + [("Word", [2.0, 5]), ("WordContains", ["AB", True]), ("WordContains", ["ab ", True])]   # arguments that compare / hash equal to (or resemble) valid ones
    e2e.process_order(ctx, model, "R-PROCESS", pcfgs)
    ctx.floor("R-PROCESS", ctx.rule_counts.get("R-PROCESS", 0), len(pcfgs), "configurations replayed in one process")



def _is_word_class(t):
    return isinstance(t, Cls) and not t.negated and set(t.chars) == set(WORD)


def _boundaries(ctx, rule, f, lead, trail, ext, inp, allow_empty=False):
    if ext:
        if lead or trail:
            ctx.violation(rule, f.relpath, f.short, "enclosure", "an extensible pattern still carries word boundaries",
                          f.node.lineno, inp=inp)
    else:
        if not (lead == [Bnd("b")] and trail == [Bnd("b")]) and not (allow_empty and lead + trail == [Bnd("b"), Bnd("b")]):
            ctx.violation(rule, f.relpath, f.short, "enclosure", "a non-extensible pattern is not enclosed in word boundaries",
                          f.node.lineno, inp=inp, detail=f"lead={lead} trail={trail}")


def _build_logged(model, cname, args):
    """FL.build + log of AnyWordChar constructions (is_global forwarding)."""
    from ..interp import Interp, PyRaise
    env = FL.MetaEnv(model)
    log = []
    orig = env.construct_core

    def wrapped(interp, ci, a, kw):
        if ci.name in ("AnyWordChar", "AnyButWordChar"):
            log.append((ci.name, tuple(a), dict(kw)))
        return orig(interp, ci, a, kw)
    env.construct_core = wrapped
    hooks = FL.MetaHooks(model, env)
    it = Interp(model, hooks)
    ci = model.cls(ESS, cname)
    try:
        o = it.construct(ci, list(args) if isinstance(args, list) else [], dict(args) if isinstance(args, dict) else {})
    except PyRaise as e:
        return "raise", e, log
    return "term", o.fields["term"], log


def _global(ctx, f, log, glob, inp):
    vals = [(a[0] if a else kw.get("is_global", False)) for _, a, kw in log]
    if not vals or any(v is not glob for v in vals):
        ctx.violation("R-WORD-SKELETON", f.relpath, f.short, "is_global forwarding",
                      "is_global does not reach AnyWordChar", f.node.lineno, inp=inp, detail=str(log))


def _args(ctx, model, cname, f, rows):
    for kw, exc in rows:
        kw = dict(kw)
        pos = kw.pop("__pos", [])
        k, t = FL.build(model, cname, pos, kw)
        inp = f"{cname}({', '.join(map(repr, pos))}{', ' if pos and kw else ''}{', '.join(f'{a}={b!r}' for a, b in kw.items())})"
        ctx.instance("R-ARGS", key=inp, sample=f"{inp}: {k} {getattr(t, 'name', '')}")
        if not (k == "raise" and t.name == exc):
            ctx.violation("R-ARGS", f.relpath, f.short, f"validation of {', '.join(kw) or 'affix'}",
                          f"an invalid argument must raise {exc}", f.node.lineno, inp=inp,
                          detail=f"{k} {getattr(t, 'name', '')}")
