"""E4 - constant folding of string expressions in the source and regex-constant helpers."""
from __future__ import annotations

import ast
import re
import string

from .model import FuncInfo, Model

_STD = {"string.whitespace": string.whitespace, "string.punctuation": string.punctuation,
        "string.digits": string.digits, "string.ascii_letters": string.ascii_letters}


def _local_assignments(func_node, name):
    out = []
    for node in ast.walk(func_node):
        if isinstance(node, ast.Assign):
            for t in node.targets:
                if isinstance(t, ast.Name) and t.id == name:
                    out.append(node.value)
                elif isinstance(t, ast.Tuple) and isinstance(node.value, ast.Tuple) and len(t.elts) == len(node.value.elts):
                    for te, ve in zip(t.elts, node.value.elts):
                        if isinstance(te, ast.Name) and te.id == name:
                            out.append(ve)
        elif isinstance(node, ast.AnnAssign) and isinstance(node.target, ast.Name) and node.target.id == name \
                and node.value is not None:
            out.append(node.value)
        elif isinstance(node, (ast.For, ast.comprehension)) and any(
                isinstance(n, ast.Name) and n.id == name for n in ast.walk(node.target)):
            out.append(None)
        elif isinstance(node, ast.AugAssign) and isinstance(node.target, ast.Name) and node.target.id == name:
            out.append(None)
    return out


def fold_str(model: Model, func: FuncInfo | None, expr, module=None, depth=0):
    """Return the string value of a constant expression, or None."""
    if expr is None or depth > 8:
        return None
    module = module or (func.module if func else None)
    if isinstance(expr, ast.Constant):
        return expr.value if isinstance(expr.value, str) else None
    if isinstance(expr, ast.BinOp) and isinstance(expr.op, ast.Add):
        a = fold_str(model, func, expr.left, module, depth + 1)
        b = fold_str(model, func, expr.right, module, depth + 1)
        return a + b if a is not None and b is not None else None
    if isinstance(expr, ast.JoinedStr):
        parts = []
        for p in expr.values:
            if isinstance(p, ast.Constant):
                parts.append(p.value)
            elif isinstance(p, ast.FormattedValue) and p.format_spec is None and p.conversion == -1:
                v = fold_str(model, func, p.value, module, depth + 1)
                if v is None:
                    return None
                parts.append(v)
            else:
                return None
        return "".join(parts)
    if isinstance(expr, ast.Call) and isinstance(expr.func, ast.Attribute) and expr.func.attr == "sub" \
            and isinstance(expr.func.value, ast.Name) and module is not None \
            and module.imports.get(expr.func.value.id) == "re" and len(expr.args) == 3 and not expr.keywords:
        a = [fold_str(model, func, x, module, depth + 1) for x in expr.args]
        if all(x is not None for x in a):
            try:
                return re.sub(a[0], a[1], a[2])
            except re.error:
                return None
        return None
    if isinstance(expr, ast.Name):
        if func is not None:
            f = func
            while f is not None:
                vals = _local_assignments(f.node, expr.id)
                if vals:
                    if len(vals) == 1 and vals[0] is not None:
                        return fold_str(model, f, vals[0], module, depth + 1)
                    return None
                f = f.outer
        if module is not None:
            if expr.id in module.assigns:
                return fold_str(model, None, module.assigns[expr.id], module, depth + 1)
            if expr.id in module.from_imports:
                mod, nm = module.from_imports[expr.id]
                return _STD.get(f"{mod}.{nm}")
    return None


def regex_class_chars(tree_in):
    """IN node items (re._parser, normalised tuples) -> set of code points, or None if unsupported."""
    out = set()
    neg = False
    for it in tree_in:
        if it[0] == "NEGATE":
            neg = True
        elif it[0] == "LITERAL":
            out.add(it[1])
        elif it[0] == "RANGE":
            out.update(range(it[1][0], it[1][1] + 1))
        else:
            return None, None
    return out, neg


def call_closure(model, roots):
    """Functions reachable from `roots` through self.X() / __class__.X() / nested-function calls inside the same class."""
    from .model import mangle
    seen, todo = [], list(roots)
    while todo:
        f = todo.pop()
        if f in seen:
            continue
        seen.append(f)
        for n in ast.walk(f.node):
            if isinstance(n, ast.Call) and isinstance(n.func, ast.Attribute) and isinstance(n.func.value, ast.Name) \
                    and n.func.value.id in ("self", "__class__", "pre", "pre1", "pre2") and f.cls is not None:
                g = None
                for ci in [f.cls] + [c for c in f.cls.mro()] + ([model.pregex] if model.pregex not in f.cls.mro() else []):
                    g = ci.find_method(mangle(n.func.attr, ci.name))
                    if g is not None:
                        break
                if g is not None and g not in seen:
                    todo.append(g)
    return seen


def interesting_ints(funcs, lo=-1000, hi=100000):
    """Integer constants the given functions compare or compute with (not slice bounds, defaults or subscripts):
    values at which their behaviour may change.  Used to extend witness grids: c-1, c, c+1 for each constant c."""
    out = set()
    for f in funcs:
        for n in ast.walk(f.node):
            cands = []
            if isinstance(n, ast.Compare):
                cands = [n.left] + list(n.comparators)
            elif isinstance(n, ast.BinOp) and isinstance(n.op, (ast.Add, ast.Sub, ast.Mult, ast.Mod, ast.FloorDiv, ast.Div, ast.Pow)):
                cands = [n.left, n.right]
            elif isinstance(n, ast.Call) and isinstance(n.func, ast.Name) and n.func.id in ("range", "divmod", "min", "max", "round"):
                cands = list(n.args)
            for c in cands:
                if isinstance(c, ast.UnaryOp) and isinstance(c.op, ast.USub) and isinstance(c.operand, ast.Constant):
                    v = c.operand.value
                    v = -v if isinstance(v, int) and not isinstance(v, bool) else None
                elif isinstance(c, ast.Constant):
                    v = c.value
                elif isinstance(c, ast.Name) and isinstance(f.module.assigns.get(c.id), ast.Constant):
                    v = f.module.assigns[c.id].value     # a module-level constant used by name
                elif isinstance(c, ast.Attribute) and isinstance(c.value, ast.Name) and f.cls is not None and \
                        c.value.id in ("self", "cls", "__class__", f.cls.name):
                    from .model import mangle as _mangle
                    v = None                              # a class-level constant used through the instance / the class
                    for ci in f.cls.mro():
                        e = ci.attrs.get(_mangle(c.attr, ci.name))
                        if isinstance(e, ast.Constant):
                            v = e.value
                            break
                    if v is None:
                        continue
                else:
                    continue
                if isinstance(v, int) and not isinstance(v, bool) and lo <= v <= hi:
                    out.add(v)
    return out


def around(values, lo=None, hi=None):
    out = set()
    for v in values:
        for x in (v - 1, v, v + 1):
            if (lo is None or x >= lo) and (hi is None or x <= hi):
                out.add(x)
    return sorted(out)
