"""E1 - resolved program model of /repo/src/pregex.

Parses every module of the package (never imports it), builds the class table
with resolved bases / MRO, models name mangling, and offers lookup helpers used
by every rule.  Anything that cannot be resolved raises AnalysisError, which the
driver turns into exit code 2 (never a silent pass).
"""
from __future__ import annotations

import ast
import os
import warnings

EXPECTED_MODULES = {
    "pregex.core", "pregex.core.pre", "pregex.core.classes", "pregex.core.groups",
    "pregex.core.operators", "pregex.core.quantifiers", "pregex.core.assertions",
    "pregex.core.tokens", "pregex.core.exceptions", "pregex.meta",
    "pregex.meta.essentials",
}


class AnalysisError(Exception):
    """The analysis cannot give a verdict (anchor vanished, unsupported construct)."""


def mangle(name: str, clsname: str | None) -> str:
    """Python's private-name mangling."""
    if clsname is None:
        return name
    if not name.startswith("__") or name.endswith("__") or "." in name:
        return name
    stripped = clsname.lstrip("_")
    if not stripped:
        return name
    return "_" + stripped + name


class FuncInfo:
    def __init__(self, module, cls, node, name, qualname, is_static=False, outer=None):
        self.module = module
        self.cls = cls            # ClassInfo or None
        self.node = node          # ast.FunctionDef / ast.Lambda
        self.name = name          # (mangled) name under which it is stored
        self.qualname = qualname  # e.g. pregex.core.pre::Pregex.exactly
        self.is_static = is_static
        self.outer = outer        # enclosing FuncInfo for nested defs
        decos = [d.id if isinstance(d, ast.Name) else d.attr if isinstance(d, ast.Attribute) else None
                 for d in getattr(node, "decorator_list", [])]
        self.is_classmethod = "classmethod" in decos
        self.is_property = "property" in decos or "cached_property" in decos

    @property
    def params(self):
        a = self.node.args
        return [x.arg for x in a.posonlyargs + a.args]

    def __repr__(self):
        return f"<Func {self.qualname}>"

    @property
    def short(self):
        return self.qualname.split("::", 1)[1]

    @property
    def relpath(self):
        return self.module.relpath


class ClassInfo:
    def __init__(self, module, node):
        self.module = module
        self.node = node
        self.name = node.name
        self.qualname = f"{module.name}::{node.name}"
        self.base_exprs = node.bases
        self.bases: list = []          # ClassInfo or str (external)
        self.methods: dict[str, FuncInfo] = {}
        self.attrs: dict[str, ast.AST] = {}   # class-level assignments (mangled name -> value expr)
        self.attr_nodes: dict[str, ast.AST] = {}
        self.fields: list = []         # annotated class-level names in order: (name, default expr | None)  (NamedTuple / dataclass)
        self.decorators = [ast.unparse(d) for d in node.decorator_list]
        self._mro = None

    def mro(self):
        if self._mro is None:
            out = [self]
            for b in self.bases:
                if isinstance(b, ClassInfo):
                    for c in b.mro():
                        if c not in out:
                            out.append(c)
            self._mro = out
        return self._mro

    def external_bases(self):
        out = []
        for c in self.mro():
            out += [b for b in c.bases if isinstance(b, str)]
        return out

    def is_subclass_of(self, other: "ClassInfo") -> bool:
        return other in self.mro()

    def find_method(self, name: str, after: "ClassInfo | None" = None):
        """Look up a (already mangled) method name through the MRO."""
        mro = self.mro()
        if after is not None:
            mro = mro[mro.index(after) + 1:]
        for c in mro:
            if name in c.methods:
                return c.methods[name]
        return None

    def find_attr(self, name: str):
        for c in self.mro():
            if name in c.attrs:
                return c, c.attrs[name]
        return None, None

    def __repr__(self):
        return f"<Class {self.qualname}>"


class ModuleInfo:
    def __init__(self, name, path, relpath, tree, source):
        self.name = name
        self.path = path
        self.relpath = relpath
        self.tree = tree
        self.source = source
        self.lines = source.splitlines()
        self.imports: dict[str, str] = {}          # alias -> module name
        self.from_imports: dict[str, tuple] = {}   # alias -> (module, name)
        self.classes: dict[str, ClassInfo] = {}
        self.functions: dict[str, FuncInfo] = {}
        self.assigns: dict[str, ast.AST] = {}

    def __repr__(self):
        return f"<Module {self.name}>"


def _tuple_item(value, i, n):
    """Expression for the i-th component of a tuple assignment `a, b = value`."""
    if isinstance(value, (ast.Tuple, ast.List)) and len(value.elts) == n and not any(isinstance(e, ast.Starred) for e in value.elts):
        return value.elts[i]
    node = ast.Subscript(value=value, slice=ast.Constant(value=i), ctx=ast.Load())
    return ast.fix_missing_locations(ast.copy_location(node, value))


class Model:
    """The whole package."""

    def __init__(self, root: str = "/repo"):
        self.root = os.path.abspath(root)
        pkg = None
        for cand in (os.path.join(self.root, "src", "pregex"), os.path.join(self.root, "pregex"), self.root):
            if os.path.isdir(os.path.join(cand, "core")) and os.path.isdir(os.path.join(cand, "meta")):
                pkg = cand
                break
        if pkg is None:
            raise AnalysisError(f"package directory src/pregex not found under {root}")
        self.pkgdir = pkg
        self.modules: dict[str, ModuleInfo] = {}
        self._load()
        self._resolve()
        # parent map for every tree
        self.parents: dict[ast.AST, ast.AST] = {}
        for m in self.modules.values():
            for parent in ast.walk(m.tree):
                for child in ast.iter_child_nodes(parent):
                    self.parents[child] = parent

    # ------------------------------------------------------------------
    def _load(self):
        for dirpath, dirnames, filenames in os.walk(self.pkgdir):
            dirnames[:] = sorted(d for d in dirnames if d != "__pycache__")
            for fn in sorted(filenames):
                if not fn.endswith(".py"):
                    continue
                path = os.path.join(dirpath, fn)
                rel = os.path.relpath(path, self.pkgdir)
                parts = ["pregex"] + rel[:-3].split(os.sep)
                if parts[-1] == "__init__":
                    parts.pop()
                name = ".".join(parts)
                with open(path, encoding="utf-8") as f:
                    src = f.read()
                with warnings.catch_warnings():
                    warnings.simplefilter("ignore")
                    try:
                        tree = ast.parse(src, filename=path)
                    except SyntaxError as e:
                        raise AnalysisError(f"cannot parse {path}: {e}")
                relpath = os.path.join("src", "pregex", rel)
                self.modules[name] = ModuleInfo(name, path, relpath, tree, src)
        missing = EXPECTED_MODULES - set(self.modules) - {"pregex"}
        if missing:
            raise AnalysisError(f"modules missing from the analysed package: {sorted(missing)}")

    def _resolve(self):
        for m in self.modules.values():
            for st in m.tree.body:
                if isinstance(st, ast.Import):
                    for a in st.names:
                        m.imports[a.asname or a.name.split(".")[0]] = a.name
                elif isinstance(st, ast.ImportFrom):
                    modname = st.module
                    if st.level:        # relative import: resolve against this module's package
                        pkg = m.name.split(".")
                        pkg = pkg[:len(pkg) - st.level] if not m.relpath.endswith("__init__.py") else pkg[:len(pkg) - st.level + 1]
                        modname = ".".join(pkg + ([st.module] if st.module else []))
                    for a in st.names:
                        if f"{modname}.{a.name}" in self.modules:          # from . import _util
                            m.imports[a.asname or a.name] = f"{modname}.{a.name}"
                        else:
                            m.from_imports[a.asname or a.name] = (modname, a.name)
                elif isinstance(st, ast.ClassDef):
                    ci = ClassInfo(m, st)
                    m.classes[st.name] = ci
                    self._load_class(ci)
                elif isinstance(st, ast.FunctionDef):
                    m.functions[st.name] = FuncInfo(m, None, st, st.name, f"{m.name}::{st.name}")
                elif isinstance(st, ast.Assign):
                    for t in st.targets:
                        if isinstance(t, ast.Name):
                            m.assigns[t.id] = st.value
                        elif isinstance(t, (ast.Tuple, ast.List)):
                            for i, e in enumerate(t.elts):      # a, b = x, y  /  a, b = f()
                                if isinstance(e, ast.Name):
                                    m.assigns[e.id] = _tuple_item(st.value, i, len(t.elts))
                elif isinstance(st, ast.AnnAssign) and isinstance(st.target, ast.Name) and st.value is not None:
                    m.assigns[st.target.id] = st.value
        for m in self.modules.values():
            for ci in m.classes.values():
                for be in ci.base_exprs:
                    r = self.resolve_class_expr(m, be)
                    if r is None:      # external base: spelled through the import it comes from (aliases resolved)
                        r = ast.unparse(be)
                        if isinstance(be, ast.Name) and be.id in m.from_imports:
                            r = ".".join(x for x in m.from_imports[be.id] if x)
                        elif isinstance(be, ast.Attribute) and isinstance(be.value, ast.Name) and be.value.id in m.imports:
                            r = f"{m.imports[be.value.id]}.{be.attr}"
                    ci.bases.append(r)

    def _load_class(self, ci: ClassInfo):
        for st in ci.node.body:
            if isinstance(st, ast.FunctionDef):
                name = mangle(st.name, ci.name)
                is_static = any(isinstance(d, ast.Name) and d.id == "staticmethod" for d in st.decorator_list)
                ci.methods[name] = FuncInfo(ci.module, ci, st, name,
                                            f"{ci.module.name}::{ci.name}.{st.name}", is_static)
            elif isinstance(st, ast.Assign):
                for t in st.targets:
                    if isinstance(t, ast.Name):
                        ci.attrs[mangle(t.id, ci.name)] = st.value
                        ci.attr_nodes[mangle(t.id, ci.name)] = st
                    elif isinstance(t, (ast.Tuple, ast.List)):
                        for i, e in enumerate(t.elts):
                            if isinstance(e, ast.Name):
                                ci.attrs[mangle(e.id, ci.name)] = _tuple_item(st.value, i, len(t.elts))
                                ci.attr_nodes[mangle(e.id, ci.name)] = st
            elif isinstance(st, ast.AnnAssign) and isinstance(st.target, ast.Name):
                if "ClassVar" not in ast.unparse(st.annotation):
                    ci.fields.append((st.target.id, st.value))
                if st.value is not None:
                    ci.attrs[mangle(st.target.id, ci.name)] = st.value
                    ci.attr_nodes[mangle(st.target.id, ci.name)] = st

    # ------------------------------------------------------------------
    def resolve_class_expr(self, module: ModuleInfo, expr: ast.AST):
        """Resolve `Name` / `alias.Name` at module level to a ClassInfo (or None)."""
        if isinstance(expr, ast.Name):
            if expr.id in module.classes:
                return module.classes[expr.id]
            if expr.id in module.from_imports:
                mod, nm = module.from_imports[expr.id]
                if mod in self.modules and nm in self.modules[mod].classes:
                    return self.modules[mod].classes[nm]
            return None
        if isinstance(expr, ast.Attribute) and isinstance(expr.value, ast.Name):
            target = module.imports.get(expr.value.id)
            if target in self.modules:
                return self.modules[target].classes.get(expr.attr)
        return None

    # convenience ---------------------------------------------------------
    def module(self, name) -> ModuleInfo:
        try:
            return self.modules[name]
        except KeyError:
            raise AnalysisError(f"module {name} not found")

    def cls(self, modname, clsname) -> ClassInfo:
        m = self.module(modname)
        if clsname not in m.classes:
            # moved to another module of the package and re-exported (`from ._infer import _Type`)
            if clsname in m.from_imports:
                mod, nm = m.from_imports[clsname]
                if mod in self.modules and nm in self.modules[mod].classes:
                    return self.modules[mod].classes[nm]
            raise AnalysisError(f"anchor vanished: class {clsname} not found in {modname}")
        return m.classes[clsname]

    def method(self, modname, clsname, meth) -> FuncInfo:
        ci = self.cls(modname, clsname)
        f = ci.methods.get(mangle(meth, clsname))
        if f is None:
            f = self._by_role(ci, meth)      # a private helper may have been renamed: find it by what it is used for
        if f is None:
            raise AnalysisError(f"anchor vanished: method {clsname}.{meth} not found in {modname}")
        return f

    # -- private anchors located by role (tolerates renaming of name-mangled helpers) -----------------
    def _private_callees(self, f: FuncInfo, within=None):
        """Library functions that f calls, in source order: methods of its class (self.X / __class__.X / ClassName.X),
        module-level functions of its module or imported from another module of the package (X(...), alias.X(...))."""
        out = []
        ci = f.cls
        m = f.module
        for node in ast.walk(within if within is not None else f.node):
            if not isinstance(node, ast.Call):
                continue
            g = None
            fn = node.func
            if isinstance(fn, ast.Attribute) and isinstance(fn.value, ast.Name):
                if ci is not None and fn.value.id in ("self", "__class__", ci.name, "cls"):
                    if not (fn.attr.startswith("__") and fn.attr.endswith("__")):
                        g = ci.find_method(mangle(fn.attr, ci.name))
                elif m.imports.get(fn.value.id) in self.modules:
                    g = self.modules[m.imports[fn.value.id]].functions.get(fn.attr)
            elif isinstance(fn, ast.Name):
                if fn.id in m.functions:
                    g = m.functions[fn.id]
                elif fn.id in m.from_imports:
                    mod, nm = m.from_imports[fn.id]
                    if mod in self.modules:
                        g = self.modules[mod].functions.get(nm)
            if g is not None and g not in out:
                out.append(g)
        return out

    def _by_role(self, ci: ClassInfo, meth: str):
        get = lambda n: ci.methods.get(mangle(n, ci.name))
        try:
            if ci.name == "Pregex" and meth == "__escape":
                init = get("__init__")
                for node in ast.walk(init.node):
                    if isinstance(node, (ast.If, ast.IfExp)) and any(isinstance(n, ast.Name) and n.id == "escape" for n in ast.walk(node.test)):
                        for st in (node.body if isinstance(node, ast.If) else [node.body]):
                            c = self._private_callees(init, st)
                            if c:
                                return c[0]
            if ci.name == "Pregex" and meth == "__infer_type":
                init = get("__init__")
                for node in ast.walk(init.node):
                    if isinstance(node, ast.Assign) and isinstance(node.targets[0], ast.Tuple) and len(node.targets[0].elts) == 2:
                        c = self._private_callees(init, node.value)
                        if c:
                            return c[0]
                esc = self._by_role(ci, "__escape") or get("__escape")
                cands = [g for g in self._private_callees(init) if g is not esc]
                if len(cands) == 1:
                    return cands[0]
            if ci.name == "Pregex" and meth in ("__extract_text", "__iterate_match_objects"):
                want = "open" if meth == "__extract_text" else "finditer"
                cands = []
                for g in ci.methods.values():
                    if not g.node.name.startswith("_") or g.node.name.endswith("__"):
                        continue
                    for node in ast.walk(g.node):
                        if isinstance(node, ast.Call) and ((isinstance(node.func, ast.Name) and node.func.id == want) or
                                                           (isinstance(node.func, ast.Attribute) and node.func.attr == want)):
                            cands.append(g)
                            break
                if len(cands) == 1:
                    return cands[0]
            if ci.name == "__Class" and meth in ("__or", "__sub"):
                a, b = get("__or__"), get("__sub__")
                ca, cb = self._private_callees(a), self._private_callees(b)
                mine, other = (ca, cb) if meth == "__or" else (cb, ca)
                only = [g for g in mine if g not in other]
                if len(only) == 1:
                    return only[0]
        except (AttributeError, IndexError):
            return None
        return None

    @property
    def pregex(self) -> ClassInfo:
        return self.cls("pregex.core.pre", "Pregex")

    def all_classes(self):
        for m in self.modules.values():
            yield from m.classes.values()

    def all_functions(self, include_nested=True):
        """Every def (methods, module functions, nested defs)."""
        for m in self.modules.values():
            for f in m.functions.values():
                yield f
                if include_nested:
                    yield from self._nested(f)
            for ci in m.classes.values():
                for f in ci.methods.values():
                    yield f
                    if include_nested:
                        yield from self._nested(f)

    def _nested(self, f: FuncInfo):
        for st in ast.walk(f.node):
            if st is f.node:
                continue
            if isinstance(st, ast.FunctionDef) and self._owner_def(st, f.node) is f.node:
                nm = mangle(st.name, f.cls.name if f.cls else None)
                g = FuncInfo(f.module, f.cls, st, nm, f"{f.qualname}.{st.name}", outer=f)
                yield g
                yield from self._nested(g)

    def _owner_def(self, node, stop):
        p = self.parents.get(node)
        while p is not None and not isinstance(p, (ast.FunctionDef, ast.Lambda)):
            p = self.parents.get(p)
        return p

    def subclasses_of(self, ci: ClassInfo):
        return [c for c in self.all_classes() if c is not ci and c.is_subclass_of(ci)]

    def loc(self, module: ModuleInfo, node: ast.AST) -> str:
        return f"{module.relpath}:{getattr(node, 'lineno', 0)}"

    def enclosing_function(self, node):
        p = self.parents.get(node)
        while p is not None and not isinstance(p, ast.FunctionDef):
            p = self.parents.get(p)
        return p

    def enclosing_class(self, node):
        p = self.parents.get(node)
        while p is not None and not isinstance(p, ast.ClassDef):
            p = self.parents.get(p)
        return p


def norm_text(node: ast.AST) -> str:
    """Normalised statement text used to key findings (no line numbers)."""
    try:
        return " ".join(ast.unparse(node).split())
    except Exception:
        return type(node).__name__


def strip_docstring(body):
    if body and isinstance(body[0], ast.Expr) and isinstance(body[0].value, ast.Constant) \
            and isinstance(body[0].value.value, str):
        return body[1:]
    return body
