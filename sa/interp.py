"""E3 - abstract interpreter (AST evaluator) for the Python subset used by pregex.

The repository is never imported or executed by CPython.  This module walks the
*syntax trees* held by sa.model and evaluates them over a mixed domain:

* ordinary Python constants (bounds, flags, witness strings) - the finite
  representatives chosen by each rule, whose sufficiency the rule proves by a
  syntactic def-use scan before relying on them;
* `Obj` - an abstract instance of a repository class (a bag of fields);
* `Lazy` - a field whose value is unknown; the first use forks the path over all
  its options (trace partitioning), so every outcome reachable for *some* value is
  explored;
* `Native` - objects supplied by a rule (e.g. the regular-language terms of E6).

Unknown/unsupported constructs raise `Incomplete`, which the driver reports as
ANALYSIS-INCOMPLETE (exit 2), never as a pass.
"""
from __future__ import annotations

import ast
import builtins
import re
import string

from .model import AnalysisError, ClassInfo, FuncInfo, Model, ModuleInfo, mangle


class Incomplete(AnalysisError):
    pass


class PyRaise(Exception):
    """The interpreted code raises."""

    def __init__(self, cls, args=(), node=None, where=None):
        super().__init__(getattr(cls, "name", getattr(cls, "__name__", str(cls))))
        self.cls = cls
        self.args_ = args
        self.node = node
        self.where = where

    @property
    def name(self):
        return self.cls.name if isinstance(self.cls, ClassInfo) else self.cls.__name__

    @property
    def is_library(self):
        return isinstance(self.cls, ClassInfo)


class NonTerminationMarker:
    """Placeholder so that budget exhaustion is never caught by interpreted handlers."""


class _ExcValue:
    """`except X as e`: what interpreted code may do with e (str(), .args, re-raise)."""

    def __init__(self, e: "PyRaise"):
        self.e = e
        self.args = tuple(e.args_)

    def __str__(self):
        return str(self.args[0]) if len(self.args) == 1 else (str(self.args) if self.args else "")


class _Return(Exception):
    def __init__(self, value):
        self.value = value


class _Break(Exception):
    pass


class _Continue(Exception):
    pass


class Obj:
    _n = 0

    def __init__(self, cls: ClassInfo):
        self.cls = cls
        self.fields: dict = {}
        Obj._n += 1
        self.oid = Obj._n
        self.tag = None   # free for rules

    def __repr__(self):
        return f"<Obj {self.cls.name}#{self.oid} {self.tag or ''}>"


class ClassRef:
    def __init__(self, ci: ClassInfo):
        self.ci = ci

    def __eq__(self, other):
        return isinstance(other, ClassRef) and other.ci is self.ci

    def __hash__(self):
        return hash(id(self.ci))

    def __repr__(self):
        return f"<ClassRef {self.ci.name}>"


class FuncRef:
    def __init__(self, func: FuncInfo, self_obj=None, bound=False):
        self.func = func
        self.self_obj = self_obj
        self.bound = bound

    def __repr__(self):
        return f"<FuncRef {self.func.qualname}>"


class Closure:
    def __init__(self, node, env, frame, name="<lambda>"):
        self.node = node
        self.env = env
        self.frame = frame
        self.name = name

    def __repr__(self):
        return f"<Closure {self.name}@{getattr(self.node, 'lineno', 0)}>"


class ModuleRef:
    def __init__(self, module: ModuleInfo):
        self.module = module


class EnumVal:
    def __init__(self, ci, name, value):
        self.ci = ci
        self.name = name
        self.value = value

    def __eq__(self, other):
        return isinstance(other, EnumVal) and other.ci is self.ci and other.name == self.name

    def __hash__(self):
        return hash((id(self.ci), self.name))

    def __repr__(self):
        return f"{self.ci.name}.{self.name}"

    __str__ = __repr__


class SuperProxy:
    def __init__(self, obj, after):
        self.obj = obj
        self.after = after


class Lazy:
    """Unknown field value: forked over `options` at first use."""

    def __init__(self, options, tag):
        self.options = list(options)
        self.tag = tag


class Native:
    """Base class of rule-supplied abstract objects."""

    def sa_getattr(self, interp, name):
        raise Incomplete(f"attribute {name} of {type(self).__name__} not modelled")

    def sa_binop(self, interp, op, other, reflected):
        return NotImplemented

    def sa_str(self, interp):
        raise Incomplete(f"str() of {type(self).__name__} not modelled")

    def sa_call(self, interp, args, kwargs):
        raise Incomplete(f"call of {type(self).__name__} not modelled")


class NativeMethod:
    def __init__(self, fn):
        self.fn = fn


class Env:
    __slots__ = ("vars", "parent")

    def __init__(self, parent=None):
        self.vars = {}
        self.parent = parent

    def lookup(self, name):
        e = self
        while e is not None:
            if name in e.vars:
                return e.vars[name]
            e = e.parent
        raise KeyError(name)


class Frame:
    __slots__ = ("module", "cls", "self_obj", "func", "depth", "yields")

    def __init__(self, module, cls, self_obj, func, depth):
        self.module = module
        self.cls = cls
        self.self_obj = self_obj
        self.func = func
        self.depth = depth
        self.yields = None


class Hooks:
    def intercept(self, interp, target, args, kwargs, node):
        """target: FuncInfo about to be interpreted, or ClassInfo about to be constructed."""
        return NotImplemented

    def intercept_py(self, interp, f, args, kwargs, node):
        """f: a stdlib callable about to be applied."""
        return NotImplemented

    def join_parts(self, interp, parts, node):
        """An f-string has a part that is not a plain str (a rule-supplied text object)."""
        raise Incomplete("f-string over a non-string text object")

    def open_file(self, interp, args, kwargs, node):
        """The interpreted code calls open(...): return an abstract file object or raise Incomplete."""
        raise Incomplete("open() not interpreted")

    def on_text(self, interp, node, frame, value):
        pass

    def on_raise(self, interp, exc):
        pass


_PY_EXC = (TypeError, ValueError, NameError, IndexError, KeyError, AttributeError, ZeroDivisionError,
           OverflowError, RecursionError, re.error, UnicodeError, StopIteration)

_SAFE_BUILTINS = {
    "len", "int", "bool", "tuple", "list", "set", "dict", "frozenset", "range", "enumerate", "zip",
    "ord", "chr", "max", "min", "sorted", "any", "all", "abs", "sum", "reversed", "float", "object",
    "True", "False", "None", "Exception", "TypeError", "ValueError", "divmod", "round", "pow", "hex", "oct", "bin",
    "slice", "bytes", "callable", "ascii", "filter", "KeyError", "IndexError", "AttributeError", "NotImplementedError",
    "RuntimeError", "StopIteration", "AssertionError", "id",
}

import io as _io_mod
import types as _types
# only pure, side-effect free names of external modules are visible to interpreted code
import functools as _functools_mod
import itertools as _itertools_mod
import collections as _collections_mod


class _Partial:
    """functools.partial over interpreted callables."""

    def __init__(self, func, args, kwargs):
        self.func, self.args, self.kwargs = func, list(args), dict(kwargs)


class _OpFn:
    """A function of the `operator` module, applied through the interpreter (operands may be library objects)."""

    def __init__(self, name, *cfg, **kcfg):
        self.name, self.cfg, self.kcfg = name, cfg, kcfg

    def __call__(self, *cfg, **kcfg):          # operator.methodcaller("m", 1) / attrgetter("a") / itemgetter(0)
        return _OpFn(self.name + "()", *cfg, **kcfg)


_OP_BIN = {"add": ast.Add, "sub": ast.Sub, "mul": ast.Mult, "or_": ast.BitOr, "and_": ast.BitAnd, "mod": ast.Mod,
           "floordiv": ast.FloorDiv, "truediv": ast.Div, "pow": ast.Pow, "concat": ast.Add}
_OP_CMP = {"eq": ast.Eq, "ne": ast.NotEq, "lt": ast.Lt, "le": ast.LtE, "gt": ast.Gt, "ge": ast.GtE, "is_": ast.Is,
           "is_not": ast.IsNot}
_OPERATOR_NS = _types.SimpleNamespace(**{n: _OpFn(n) for n in list(_OP_BIN) + list(_OP_CMP) +
                                        ["methodcaller", "attrgetter", "itemgetter", "not_", "truth", "contains", "getitem", "neg"]})

# only pure, side-effect free names of external modules are visible to interpreted code
_EXT_MODULES = {"re": re, "string": string,
                "functools": _types.SimpleNamespace(reduce=_functools_mod.reduce, partial=_Partial,
                                                    # the interpreter never caches: a cache wrapper IS the wrapped function (call form
                                                    # `NAME = functools.lru_cache(maxsize=N)(f)` as well as the decorator form)
                                                    cache=lambda f: f,
                                                    lru_cache=lambda *a, **k: a[0] if len(a) == 1 and not k and not isinstance(a[0], (int, type(None))) else (lambda f: f),
                                                    wraps=lambda *a, **k: (lambda f: f)),
                "itertools": _types.SimpleNamespace(**{n: getattr(_itertools_mod, n) for n in (
                    "chain", "pairwise", "product", "groupby", "takewhile", "dropwhile", "islice", "zip_longest", "repeat",
                    "accumulate", "starmap", "combinations", "permutations", "count", "cycle", "compress", "filterfalse", "tee")}),
                "operator": _OPERATOR_NS,
                "bisect": _types.SimpleNamespace(**{n: getattr(__import__("bisect"), n) for n in (
                    "bisect", "bisect_left", "bisect_right", "insort", "insort_left", "insort_right")}),
                "collections": _types.SimpleNamespace(deque=_collections_mod.deque, OrderedDict=dict, namedtuple=_collections_mod.namedtuple),
                "collections.abc": _types.SimpleNamespace(**{n: getattr(__import__("collections.abc").abc, n) for n in (
                    "Iterable", "Iterator", "Sequence", "Mapping", "Set", "Collection", "Container", "Sized", "Hashable", "Callable",
                    "Generator", "Reversible", "MutableSequence", "MutableMapping", "MutableSet")}),
                "types": _types.SimpleNamespace(MappingProxyType=lambda d: d, SimpleNamespace=_types.SimpleNamespace),
                "dataclasses": _types.SimpleNamespace(dataclass="<dataclass>", field="<field>"),
                "io": _types.SimpleNamespace(DEFAULT_BUFFER_SIZE=_io_mod.DEFAULT_BUFFER_SIZE, SEEK_SET=0, SEEK_CUR=1, SEEK_END=2)}


_EXT_MODULES["collections"].abc = _EXT_MODULES["collections.abc"]
_EXT_MODULES["collections"].Counter = _collections_mod.Counter
_EXT_MODULES["collections"].defaultdict = _collections_mod.defaultdict
_EXT_MODULES["collections"].ChainMap = _collections_mod.ChainMap


class _SilentLogger:
    """logging.getLogger(...) as seen by interpreted code: every record is dropped, nothing is enabled.  (What is logged
    never flows back into a result; C20 R-NOHIDDEN judges what is handed to it.)"""

    def __getattr__(self, name):
        if name in ("isEnabledFor",):
            return lambda *a, **k: False
        if name in ("level", "disabled", "propagate"):
            return 0
        if name in ("name",):
            return "pregex"
        if name in ("handlers", "filters"):
            return []
        return lambda *a, **k: None


_EXT_MODULES["logging"] = _types.SimpleNamespace(
    getLogger=lambda *a, **k: _SilentLogger(), NullHandler=lambda *a, **k: _SilentLogger(), Logger=_SilentLogger,
    DEBUG=10, INFO=20, WARNING=30, ERROR=40, CRITICAL=50, NOTSET=0,
    debug=lambda *a, **k: None, info=lambda *a, **k: None, warning=lambda *a, **k: None, error=lambda *a, **k: None,
    basicConfig=lambda *a, **k: None)
# clocks are deterministic for interpreted code (a result must not depend on them: C20 R-NOHIDDEN)
_EXT_MODULES["time"] = _types.SimpleNamespace(perf_counter=lambda: 0.0, monotonic=lambda: 0.0, time=lambda: 0.0,
                                              perf_counter_ns=lambda: 0, monotonic_ns=lambda: 0, process_time=lambda: 0.0)


class Interp:
    MAX_DEPTH = 60
    interpret_exception_init = True
    _handling = ()

    def __init__(self, model: Model, hooks: Hooks | None = None, decisions=None, fuel=400000):
        self.model = model
        self.hooks = hooks or Hooks()
        self.decisions = list(decisions or [])
        self.trace: list[tuple[int, int, str]] = []   # (chosen, n, tag)
        self.fuel = fuel
        self._class_attr_cache = {}
        # ClassInfo of a typing.NamedTuple class -> generated namedtuple type; shared by all interpreters of one model, so
        # that a record built by one (an operand prepared by a rule) is understood by another
        self._nt_types = model.__dict__.setdefault("_nt_types", {})
        self._nt_by_type = model.__dict__.setdefault("_nt_by_type", {})
        self.events: list = []
        self.stack: list[Frame] = []

    # ---------------------------------------------------------------- choice
    def choose(self, n: int, tag: str) -> int:
        i = len(self.trace)
        pick = self.decisions[i] if i < len(self.decisions) else 0
        if pick >= n:
            raise Incomplete(f"decision replay mismatch at {tag}")
        self.trace.append((pick, n, tag))
        return pick

    def force(self, v):
        return v

    def settle(self, v):
        """An unresolved value whose resolution is remembered by the value itself (`sticky`: the linked halves of an
        unknown classification) is resolved - forking the exploration - at the point where its VALUE is needed."""
        if isinstance(v, Lazy) and getattr(v, "sticky", False):
            opts = v.options
            return opts[self.choose(len(opts), v.tag) if len(opts) > 1 else 0]
        return v

    # ------------------------------------------------------------ public API
    def call(self, target, args=(), kwargs=None, node=None):
        kwargs = kwargs or {}
        return self._call_value(target, list(args), dict(kwargs), node)

    def construct(self, ci: ClassInfo, args=(), kwargs=None, node=None):
        return self._construct(ci, list(args), dict(kwargs or {}), node)

    def new_obj(self, ci: ClassInfo, fields=None, tag=None):
        o = Obj(ci)
        o.fields.update(fields or {})
        o.tag = tag
        return o

    # ------------------------------------------------------------- internals
    def _tick(self, node=None):
        self.fuel -= 1
        if self.fuel <= 0:
            raise Incomplete(f"fuel exhausted (loop bound) at line {getattr(node, 'lineno', '?')}")

    def _module_env_lookup(self, module: ModuleInfo, name: str, frame: Frame | None):
        if name in module.classes:
            return ClassRef(module.classes[name])
        if name in module.functions:
            return FuncRef(module.functions[name])
        if name in module.imports:
            target = module.imports[name]
            if target in self.model.modules:
                return ModuleRef(self.model.modules[target])
            if target in _EXT_MODULES:
                return _EXT_MODULES[target]
            if target in ("enum", "typing"):
                return __import__(target)
            raise Incomplete(f"import of {target} not modelled")
        if name in module.from_imports:
            mod, nm = module.from_imports[name]
            if mod in self.model.modules:
                return self._module_env_lookup(self.model.modules[mod], nm, frame)
            if mod in _EXT_MODULES:
                return getattr(_EXT_MODULES[mod], nm)
            if mod in ("typing", "enum"):
                return getattr(__import__(mod), nm)
            raise Incomplete(f"from-import of {mod} not modelled")
        if name in module.assigns:
            key = (module.name, name)
            if key not in self._class_attr_cache:
                fr = Frame(module, None, None, None, 0)
                self._class_attr_cache[key] = self.eval(module.assigns[name], Env(), fr)
            return self._class_attr_cache[key]
        if name == "__name__":
            return module.name
        if name == "__class__" and frame is not None and frame.cls is not None:
            return ClassRef(frame.cls)
        if name == "super":
            return "super"
        if name == "str":
            return str
        if name in ("repr", "isinstance", "issubclass", "type", "print", "map", "open", "format", "iter", "next", "hasattr", "getattr"):
            return ("builtin", name)
        if name in _SAFE_BUILTINS:
            return getattr(builtins, name)
        raise Incomplete(f"name {name!r} cannot be resolved in {module.name}")

    def lookup(self, name, env: Env, frame: Frame):
        if frame.cls is not None:
            name = mangle(name, frame.cls.name)
        try:
            return env.lookup(name)
        except KeyError:
            pass
        if frame.func is None and frame.cls is not None and name in frame.cls.attrs:
            return self._class_attr(frame.cls, name)      # class body: earlier class-level names are in scope
        if frame.func is None and frame.cls is not None and name in frame.cls.methods:
            return FuncRef(frame.cls.methods[name])       # class body: a function defined there, as a plain function
        try:
            return self._module_env_lookup(frame.module, name, frame)
        except Incomplete:
            # a name that is assigned somewhere in the running function but not yet bound on this path
            fn = frame.func.node if frame.func is not None else None
            if fn is not None and any(isinstance(n, ast.Name) and isinstance(n.ctx, ast.Store) and
                                      mangle(n.id, frame.cls.name if frame.cls else None) == name
                                      for n in ast.walk(fn)):
                raise PyRaise(UnboundLocalError, (name,), None, where=frame.func)
            raise

    # attribute access ------------------------------------------------------
    def getattr(self, v, name, frame: Frame | None, node=None):
        if frame is not None and frame.cls is not None:
            name = mangle(name, frame.cls.name)
        if isinstance(v, Obj):
            if name in v.fields:
                val = v.fields[name]
                if isinstance(val, Lazy):
                    k = self.choose(len(val.options), val.tag)
                    val = val.options[k]
                    v.fields[name] = val
                return val
            if name == "__class__":
                return ClassRef(v.cls)
            m = v.cls.find_method(name)
            if m is not None:
                if m.is_static:
                    return FuncRef(m)
                if m.is_classmethod:
                    return FuncRef(m, ClassRef(v.cls), True)
                if m.is_property:
                    return self._call_func(m, [v], {}, node)
                return FuncRef(m, v, True)
            c, expr = v.cls.find_attr(name)
            if c is not None:
                return self._class_attr(c, name)
            raise PyRaise(AttributeError, (f"{v.cls.name}.{name}",), node)
        if isinstance(v, ClassRef):
            ci = v.ci
            if name == "__name__":
                return ci.name
            if any("Enum" in b or b.split(".")[-1] in ("Flag", "IntFlag") for b in ci.external_bases()):
                c, expr = ci.find_attr(name)
                if c is not None:
                    return EnumVal(ci, name, self._class_attr(c, name))
                m = ci.find_method(name)
                if m is None:
                    raise PyRaise(AttributeError, (name,), node)
                return FuncRef(m, v, True) if m.is_classmethod else FuncRef(m)
            m = ci.find_method(name)
            if m is not None:
                if m.is_classmethod:
                    return FuncRef(m, v, True)
                return FuncRef(m)
            if name == "_fields" and any(b.split(".")[-1] == "NamedTuple" for b in ci.external_bases()):
                return tuple(n for n, _ in ci.fields)
            c, expr = ci.find_attr(name)
            if c is not None:
                return self._class_attr(c, name)
            raise PyRaise(AttributeError, (f"{ci.name}.{name}",), node)
        if isinstance(v, ModuleRef):
            return self._module_env_lookup(v.module, name, None)
        if isinstance(v, SuperProxy):
            m = v.obj.cls.find_method(name, after=v.after)
            if m is None:
                # external base (object / Exception)
                return ("external-super", name)
            return FuncRef(m, v.obj, True)
        if isinstance(v, Native):
            return v.sa_getattr(self, name)
        if isinstance(v, EnumVal):
            if name == "name":
                return v.name
            if name == "value":
                return v.value
            m = v.ci.find_method(name)
            if m is not None:
                if m.is_static:
                    return FuncRef(m)
                if m.is_classmethod:
                    return FuncRef(m, ClassRef(v.ci), True)
                if m.is_property:
                    return self._call_func(m, [v], {}, node)
                return FuncRef(m, v, True)
            c, expr = v.ci.find_attr(name)
            if c is not None:
                return EnumVal(v.ci, name, self._class_attr(c, name))
            init = v.ci.find_method("__init__")
            if init is not None:
                # an Enum with an __init__: every member is initialised once from its (tuple) value and keeps the attributes
                # that __init__ stored on it
                key = (v.ci.qualname, v.name)
                cache = self.__dict__.setdefault("_enum_member_fields", {})
                if key not in cache:
                    cache[key] = None         # (guards against recursion through __init__)
                    holder = Obj(v.ci)
                    vals = list(v.value) if isinstance(v.value, tuple) else [v.value]
                    self._call_func(init, [holder] + vals, {}, node)
                    cache[key] = dict(holder.fields)
                if cache[key] is not None and name in cache[key]:
                    return cache[key][name]
        nt = self._nt_by_type.get(type(v))
        if nt is not None and name not in ("count", "index"):
            m = nt.find_method(name)
            if m is not None:
                if m.is_static:
                    return FuncRef(m)
                if m.is_classmethod:
                    return FuncRef(m, ClassRef(nt), True)
                if m.is_property:
                    return self._call_func(m, [v], {}, node)
                return FuncRef(m, v, True)
            if name == "_replace":
                return NativeMethod(lambda it, a, kw: v._replace(**kw))
        if isinstance(v, (Closure, FuncRef)):
            if name in ("cache_clear",):        # functools cache wrapper API: the interpreter never caches, so clearing is a no-op
                return NativeMethod(lambda it, a, kw: None)
            if name == "__wrapped__":
                return v
            if name in ("__name__", "__qualname__") and isinstance(v, FuncRef):
                return v.func.node.name if name == "__name__" else v.func.qualname
            raise Incomplete(f"attribute {name} of function not modelled")
        try:
            return getattr(v, name)      # (a linked unresolved value stays unresolved until its value is needed)
        except AttributeError:
            raise PyRaise(AttributeError, (f"{type(v).__name__}.{name}",), node)

    def _class_attr(self, ci: ClassInfo, name):
        key = (ci.qualname, name)
        if key not in self._class_attr_cache:
            fr = Frame(ci.module, ci, None, None, 0)
            self._class_attr_cache[key] = self.eval(ci.attrs[name], Env(), fr)
        return self._class_attr_cache[key]

    # calls ------------------------------------------------------------------
    def _call_value(self, f, args, kwargs, node, frame=None):
        self._tick(node)
        if isinstance(f, FuncRef):
            if f.bound:
                args = [f.self_obj] + args
            return self._call_func(f.func, args, kwargs, node)
        if isinstance(f, Closure):
            return self._call_closure(f, args, kwargs, node)
        if isinstance(f, ClassRef):
            return self._construct(f.ci, args, kwargs, node)
        if f is _Partial:
            return _Partial(args[0], args[1:], kwargs)
        if isinstance(f, _Partial):
            return self._call_value(f.func, f.args + list(args), {**f.kwargs, **kwargs}, node, frame)
        if isinstance(f, _OpFn):
            return self._call_opfn(f, args, kwargs, node)
        if isinstance(f, Native):
            return f.sa_call(self, args, kwargs)
        if isinstance(f, NativeMethod):
            return f.fn(self, args, kwargs)
        if isinstance(f, tuple) and len(f) == 2 and f[0] == "builtin":
            return self._builtin(f[1], args, kwargs, node, frame)
        if isinstance(f, tuple) and len(f) == 2 and f[0] == "external-super":
            return None
        if f == "super":
            if frame is None or frame.cls is None or frame.self_obj is None:
                raise Incomplete("super() outside a method")
            return SuperProxy(frame.self_obj, frame.cls)
        if f is str:
            return self._builtin("str", args, kwargs, node, frame)
        if callable(f):
            return self._call_python(f, args, kwargs, node)
        raise PyRaise(TypeError, (f"{f!r} is not callable",), node)

    def _call_opfn(self, f, args, kwargs, node):
        n = f.name
        if n in ("methodcaller", "attrgetter", "itemgetter"):
            return _OpFn(n + "()", *args, **kwargs)
        if n == "methodcaller()":
            m = self.getattr(args[0], f.cfg[0], None, node)
            return self._call_value(m, list(f.cfg[1:]), dict(f.kcfg), node)
        if n == "attrgetter()":
            outs = []
            for path in f.cfg:
                v = args[0]
                for part in path.split("."):
                    v = self.getattr(v, part, None, node)
                outs.append(v)
            return outs[0] if len(outs) == 1 else tuple(outs)
        if n == "itemgetter()":
            outs = [self.subscript(args[0], k, node) for k in f.cfg]
            return outs[0] if len(outs) == 1 else tuple(outs)
        if n in _OP_BIN:
            return self.binop(_OP_BIN[n](), args[0], args[1], node)
        if n in _OP_CMP:
            return self.compare(_OP_CMP[n](), args[0], args[1], node)
        if n == "not_":
            return not self.truth(args[0], node)
        if n == "truth":
            return self.truth(args[0], node)
        if n == "contains":
            return self.compare(ast.In(), args[1], args[0], node)
        if n == "getitem":
            return self.subscript(args[0], args[1], node)
        if n == "neg":
            return -args[0]
        raise Incomplete(f"operator.{n} not modelled")

    def subscript(self, v, k, node=None):
        v, k = self.settle(v), self.settle(k)
        if isinstance(v, (Obj, ClassRef, Closure, FuncRef)):
            raise PyRaise(TypeError, ("object is not subscriptable",), node)
        if isinstance(v, Native):
            g = getattr(v, "sa_getitem", None)
            if g is None:
                raise Incomplete("subscript of native object")
            return g(self, k)
        try:
            return v[k]
        except _PY_EXC as ex:
            raise PyRaise(type(ex), ex.args, node)

    def _call_python(self, f, args, kwargs, node):
        args = [self.settle(a) for a in args]
        kwargs = {k: self.settle(v) for k, v in kwargs.items()}
        r = self.hooks.intercept_py(self, f, args, kwargs, node)
        if r is not NotImplemented:
            return r
        if f is bool and len(args) == 1 and not kwargs:
            return self.truth(args[0], node)
        if f is set and not kwargs and len(args) <= 1:
            return _OrderedSet(self.iterate(args[0], node)) if args else _OrderedSet()
        if f is _functools_mod.reduce and not kwargs and len(args) in (2, 3):
            it = iter(self.iterate(args[1], node))
            if len(args) == 3:
                acc = args[2]
            else:
                try:
                    acc = next(it)
                except StopIteration:
                    raise PyRaise(TypeError, ("reduce() of empty iterable with no initial value",), node)
            for x in it:
                self._tick(node)
                acc = self._call_value(args[0], [acc, x], {}, node)
            return acc
        # callbacks from the interpreted program given to stdlib functions
        def conv(a):
            if isinstance(a, (Closure, FuncRef, ClassRef, _Partial, _OpFn)):
                return lambda *xs, **kw: self._call_value(a, list(xs), dict(kw), node)
            return a
        # "...{}...".format(x) / sep.join(xs) with library objects: str() is applied through the interpreted __str__
        owner = getattr(f, "__self__", None)
        if isinstance(owner, str) and getattr(f, "__name__", "") == "join" and len(args) == 1 and not kwargs:
            items = list(self.iterate(args[0], node))
            if any(isinstance(x, Native) for x in items):       # rule-supplied text objects among the pieces
                parts = []
                for i, x in enumerate(items):
                    if i and owner:
                        parts.append(owner)
                    parts.append(x)
                return self.hooks.join_parts(self, parts, node)
            args = [items]
        if isinstance(owner, str) and getattr(f, "__name__", "") == "format":
            args = [self.to_str(a, node) if isinstance(a, (Obj, Native)) else a for a in args]
            kwargs = {k: (self.to_str(v, node) if isinstance(v, (Obj, Native)) else v) for k, v in kwargs.items()}
        if isinstance(getattr(f, "__self__", None), _SilentLogger) or getattr(f, "__qualname__", "").startswith("_SilentLogger."):
            return None
        for a in list(args) + list(kwargs.values()):
            if isinstance(a, (Obj, Native, Lazy)):
                if f in (tuple, list, set, frozenset, dict, id) or \
                        isinstance(getattr(f, "__self__", None), (list, dict, set, _collections_mod.deque)) or \
                        f is _collections_mod.deque or getattr(f, "__module__", None) == "itertools" or \
                        (isinstance(f, type) and f.__module__ == "itertools") or isinstance(getattr(f, "__self__", None), type) and \
                        getattr(f.__self__, "__module__", None) == "itertools":
                    continue
                raise Incomplete(f"library object passed to stdlib callable {getattr(f, '__name__', f)} "
                                 f"at line {getattr(node, 'lineno', '?')}")
        args = [conv(a) for a in args]
        kwargs = {k: conv(v) for k, v in kwargs.items()}
        if f is builtins.open:
            return self.hooks.open_file(self, args, kwargs, None)
        try:
            return f(*args, **kwargs)
        except PyRaise:
            raise
        except Incomplete:
            raise
        except _PY_EXC as e:
            raise PyRaise(type(e), e.args, node)

    def _builtin(self, name, args, kwargs, node, frame):
        if name == "str":
            if not args:
                return ""
            return self.to_str(args[0], node)
        if name == "repr":
            return self.to_repr(args[0], node)
        if name == "format":
            return self.to_str(args[0], node)
        if name == "isinstance":
            return self.isinstance(args[0], args[1])
        if name == "issubclass":
            return self.issubclass(args[0], args[1])
        if name == "type":
            v = args[0]
            if isinstance(v, Obj):
                return ClassRef(v.cls)
            if isinstance(v, Native):
                raise Incomplete("type() of native object")
            return type(v)
        if name == "print":
            return None
        if name == "map":
            fn, *its = args
            return [self._call_value(fn, list(xs), {}, node) for xs in zip(*[self.iterate(i, node) for i in its])]
        if name == "hasattr":
            try:
                self.getattr(args[0], args[1], None, node)
                return True
            except PyRaise:
                return False
        if name == "getattr":
            try:
                return self.getattr(args[0], args[1], None, node)
            except PyRaise:
                if len(args) > 2:
                    return args[2]
                raise
        if name == "open":
            return self.hooks.open_file(self, args, kwargs, node)
        if name == "iter":
            return iter(list(self.iterate(args[0], node)))
        if name == "next":
            it = args[0]
            if not hasattr(it, "__next__"):
                raise PyRaise(TypeError, (f"{type(it).__name__} object is not an iterator",), node)
            try:
                return next(it)
            except StopIteration:
                if len(args) > 1:
                    return args[1]
                raise PyRaise(StopIteration, (), node)
        raise Incomplete(f"builtin {name} not modelled")

    def isinstance(self, v, t):
        if isinstance(t, tuple):
            return any(self.isinstance(v, x) for x in t)
        v = self.settle(v)
        if isinstance(v, Lazy):
            raise Incomplete("isinstance on unresolved value")
        if isinstance(t, ClassRef):
            if type(v) in self._nt_by_type:
                return t.ci in self._nt_by_type[type(v)].mro()
            if isinstance(v, EnumVal):
                return t.ci in v.ci.mro()
            if isinstance(v, Obj):
                return t.ci in v.cls.mro()
            if isinstance(v, Native):
                r = getattr(v, "sa_isinstance", None)
                if r is None:
                    raise Incomplete(f"isinstance({type(v).__name__}, {t.ci.name}) not modelled")
                return r(self, t.ci)
            return False
        if isinstance(t, type):
            if isinstance(v, (Obj, ClassRef, Closure, FuncRef, EnumVal)):
                return t is object
            if isinstance(v, Native):
                r = getattr(v, "sa_isinstance_py", None)
                if r is None:
                    return t is object
                return r(self, t)
            return isinstance(v, t)
        raise Incomplete(f"isinstance against {t!r} not modelled")

    def issubclass(self, c, t):
        if isinstance(t, tuple):
            return any(self.issubclass(c, x) for x in t)
        if isinstance(c, ClassRef) and isinstance(t, ClassRef):
            return t.ci in c.ci.mro()
        if isinstance(c, type) and isinstance(t, type):
            return issubclass(c, t)
        if isinstance(c, type) and isinstance(t, ClassRef):
            return False
        if isinstance(c, ClassRef) and isinstance(t, type):
            return t is object
        raise Incomplete(f"issubclass({c!r}, {t!r}) not modelled")

    def to_str(self, v, node=None):
        if isinstance(v, Obj):
            m = v.cls.find_method("__str__")
            if m is None:
                if any(b in ("Exception",) for b in v.cls.external_bases()):
                    return f"<{v.cls.name}>"
                raise Incomplete(f"str() of {v.cls.name} without __str__")
            return self._call_func(m, [v], {}, node)
        if isinstance(v, Native):
            return v.sa_str(self)
        if isinstance(v, EnumVal):
            return str(v)
        if isinstance(v, (ClassRef, Closure, FuncRef, Lazy, ModuleRef)):
            raise Incomplete(f"str() of {v!r}")
        if isinstance(v, _ExcValue):
            return str(v)
        nt = self._nt_by_type.get(type(v))
        if nt is not None:
            m = nt.find_method("__str__") or nt.find_method("__repr__")
            if m is not None:
                return self._call_func(m, [v], {}, node)
        return str(v)

    def to_repr(self, v, node=None):
        if isinstance(v, Obj):
            m = v.cls.find_method("__repr__")
            if m is None:
                raise Incomplete(f"repr() of {v.cls.name} without __repr__")
            return self._call_func(m, [v], {}, node)
        if isinstance(v, Native):
            raise Incomplete("repr() of native object")
        return repr(v)

    def _is_flag(self, ev):
        return any(b.split(".")[-1] in ("Flag", "IntFlag") for c in ev.ci.mro() for b in c.external_bases())

    def truth(self, v, node=None):
        v = self.settle(v)
        if isinstance(v, EnumVal) and self._is_flag(v):
            return bool(v.value)
        if isinstance(v, (Obj, ClassRef, Closure, FuncRef, EnumVal)):
            return True
        if isinstance(v, Native):
            t = getattr(v, "sa_truth", None)
            if t is None:
                return True
            return t(self)
        if isinstance(v, Lazy):
            raise Incomplete("truth of unresolved value")
        return bool(v)

    def _bind(self, fnode, args, kwargs, env: Env, frame: Frame, what, node):
        a = fnode.args
        params = a.posonlyargs + a.args
        names = [p.arg for p in params]
        clsname = frame.cls.name if frame.cls is not None else None
        defaults = a.defaults
        n_required = len(params) - len(defaults)
        bound = {}
        if len(args) > len(params) and a.vararg is None:
            raise PyRaise(TypeError, (f"{what}: too many positional arguments",), node)
        for i, p in enumerate(params):
            if i < len(args):
                bound[p.arg] = args[i]
        extra = args[len(params):]
        for k, v in kwargs.items():
            if k in bound:
                raise PyRaise(TypeError, (f"{what}: multiple values for {k}",), node)
            if k in names or any(k == ko.arg for ko in a.kwonlyargs):
                bound[k] = v
            elif a.kwarg is not None:
                bound.setdefault(a.kwarg.arg, {})[k] = v
            else:
                raise PyRaise(TypeError, (f"{what}: unexpected keyword {k}",), node)
        for i, p in enumerate(params):
            if p.arg not in bound:
                if i >= n_required:
                    bound[p.arg] = self.eval(defaults[i - n_required], env.parent or Env(), frame)
                else:
                    raise PyRaise(TypeError, (f"{what}: missing argument {p.arg}",), node)
        for ko, d in zip(a.kwonlyargs, a.kw_defaults):
            if ko.arg not in bound:
                if d is None:
                    raise PyRaise(TypeError, (f"{what}: missing keyword-only {ko.arg}",), node)
                bound[ko.arg] = self.eval(d, env.parent or Env(), frame)
        if a.vararg is not None:
            bound[a.vararg.arg] = tuple(extra)
        if a.kwarg is not None and a.kwarg.arg not in bound:
            bound[a.kwarg.arg] = {}
        for k, v in bound.items():
            env.vars[mangle(k, clsname)] = v

    def _call_func(self, func: FuncInfo, args, kwargs, node):
        r = self.hooks.intercept(self, func, args, kwargs, node)
        if r is not NotImplemented:
            return r
        depth = (self.stack[-1].depth + 1) if self.stack else 0
        if depth > self.MAX_DEPTH:
            raise PyRaise(RecursionError, (func.qualname,), node)
        is_gen = _is_generator(func.node)
        self_obj = None
        if func.cls is not None and not func.is_static and args:
            first = func.params[0] if func.params else None
            if first == "self":
                self_obj = args[0]
        frame = Frame(func.module, func.cls, self_obj, func, depth)
        env = Env(getattr(func, "closure_env", None))
        self._bind(func.node, args, kwargs, env, frame, func.qualname, node)
        if is_gen:
            # generators are evaluated eagerly: the list of yielded values stands for the iterator
            frame.yields = []
            self._run_body(func.node.body, env, frame)
            return iter(frame.yields)
        return self._run_body(func.node.body, env, frame)

    def _call_closure(self, c: Closure, args, kwargs, node):
        depth = (self.stack[-1].depth + 1) if self.stack else 0
        if depth > self.MAX_DEPTH:
            raise PyRaise(RecursionError, (c.name,), node)
        frame = Frame(c.frame.module, c.frame.cls, c.frame.self_obj, c.frame.func, depth)
        env = Env(c.env)
        self._bind(c.node, args, kwargs, env, frame, c.name, node)
        if isinstance(c.node, ast.Lambda):
            self.stack.append(frame)
            try:
                return self.eval(c.node.body, env, frame)
            finally:
                self.stack.pop()
        if _is_generator(c.node):
            frame.yields = []
            self._run_body(c.node.body, env, frame)
            return iter(frame.yields)
        return self._run_body(c.node.body, env, frame)

    def _run_body(self, body, env, frame):
        self.stack.append(frame)
        try:
            self.exec_block(body, env, frame)
        except _Return as r:
            return r.value
        finally:
            self.stack.pop()
        return None

    def _construct(self, ci: ClassInfo, args, kwargs, node):
        r = self.hooks.intercept(self, ci, args, kwargs, node)
        if r is not NotImplemented:
            return r
        ext = ci.external_bases()
        if any("Enum" in b or b.split(".")[-1] in ("Flag", "IntFlag") for b in ext):
            if len(args) == 1 and not kwargs:      # Kind(value): the member with that value
                for nm in ci.attrs:
                    if self._equal(self._class_attr(ci, nm), args[0]):
                        return EnumVal(ci, nm, self._class_attr(ci, nm))
                raise PyRaise(ValueError, (f"{args[0]!r} is not a valid {ci.name}",), node)
            raise Incomplete("enum construction not modelled")
        if any(b.split(".")[-1] == "NamedTuple" for b in ext):
            return self._make_record(ci, args, kwargs, node, as_tuple=True)
        if any("dataclass" in d for d in ci.decorators) and ci.find_method("__init__") is None:
            return self._make_record(ci, args, kwargs, node, as_tuple=False)
        o = Obj(ci)
        if any(b.split(".")[-1] in ("Exception", "BaseException", "ValueError", "TypeError") for b in ext):
            o.fields["args"] = tuple(args)
            # the constructor is interpreted too: if building the message fails, that failure is what the caller sees
            init = ci.find_method("__init__")
            if init is not None and self.interpret_exception_init:
                fuel = self.fuel
                try:
                    self._call_func(init, [o] + args, kwargs, node)
                except Incomplete:
                    self.fuel = max(self.fuel, fuel // 2)
            return o
        init = ci.find_method("__init__")
        if init is not None:
            self._call_func(init, [o] + args, kwargs, node)
        elif args or kwargs:
            raise PyRaise(TypeError, (f"{ci.name}() takes no arguments",), node)
        return o

    def _make_record(self, ci, args, kwargs, node, as_tuple):
        """Instance of a typing.NamedTuple class (a real namedtuple, methods looked up in the class) or of a
        dataclass without a hand-written __init__ (an object whose fields are bound in declaration order)."""
        fields = []
        for c in reversed(ci.mro()):
            for n, d in c.fields:
                if n not in [x for x, _ in fields]:
                    fields.append((n, (c, d)))
        names = [n for n, _ in fields]
        if len(args) > len(names):
            raise PyRaise(TypeError, (f"{ci.name}() takes {len(names)} positional arguments but {len(args)} were given",), node)
        vals = dict(zip(names, args))
        for k, v in kwargs.items():
            if k not in names or k in vals:
                raise PyRaise(TypeError, (f"{ci.name}() got an unexpected or duplicate argument {k!r}",), node)
            vals[k] = v
        for n, (c, d) in fields:
            if n not in vals:
                if d is None:
                    raise PyRaise(TypeError, (f"{ci.name}() missing required argument {n!r}",), node)
                vals[n] = self._class_attr(c, mangle(n, c.name))
        if as_tuple:
            typ = self._nt_types.get(ci)
            if typ is None:
                typ = _collections_mod.namedtuple(ci.name, names, rename=True)
                self._nt_types[ci] = typ
                self._nt_by_type[typ] = ci
            return typ(*[vals[n] for n in names])
        o = Obj(ci)
        for n in names:
            o.fields[n] = vals[n]
        post = ci.find_method("__post_init__")
        if post is not None:
            self._call_func(post, [o], {}, node)
        return o

    # iteration ----------------------------------------------------------------
    def iterate(self, v, node=None):
        if isinstance(v, (Obj, ClassRef, Closure, FuncRef, EnumVal)) or v is None:
            raise PyRaise(TypeError, (f"{v!r} is not iterable",), node)
        if isinstance(v, Native):
            it = getattr(v, "sa_iter", None)
            if it is None:
                raise Incomplete(f"iteration over {type(v).__name__}")
            return it(self)
        if isinstance(v, Lazy):
            raise Incomplete("iteration over unresolved value")
        try:
            return iter(v)
        except TypeError as e:
            raise PyRaise(TypeError, e.args, node)

    # statements -------------------------------------------------------------
    def exec_block(self, body, env, frame):
        for st in body:
            self.exec_stmt(st, env, frame)

    def exec_stmt(self, st, env: Env, frame: Frame):
        self._tick(st)
        t = type(st)
        if t is ast.Expr:
            self.eval(st.value, env, frame)
        elif t is ast.Assign:
            v = self.eval(st.value, env, frame)
            for tgt in st.targets:
                self.assign(tgt, v, env, frame)
        elif t is ast.AnnAssign:
            if st.value is not None:
                self.assign(st.target, self.eval(st.value, env, frame), env, frame)
        elif t is ast.AugAssign:
            cur = self.eval(_load(st.target), env, frame)
            v = self.binop(st.op, cur, self.eval(st.value, env, frame), st)
            self.assign(st.target, v, env, frame)
        elif t is ast.Return:
            raise _Return(self.eval(st.value, env, frame) if st.value is not None else None)
        elif t is ast.If:
            if self.truth(self.eval(st.test, env, frame), st):
                self.exec_block(st.body, env, frame)
            else:
                self.exec_block(st.orelse, env, frame)
        elif t is ast.Raise:
            if st.exc is None:
                if self._handling:
                    raise self._handling[-1]
                raise Incomplete("bare raise outside a handler")
            exc = st.exc
            if isinstance(exc, ast.Call):
                cls = self.eval(exc.func, env, frame)
                args, kwargs = self.eval_args(exc, env, frame)
            else:
                cls = self.eval(exc, env, frame)
                args, kwargs = [], {}
            if isinstance(cls, _ExcValue):
                raise cls.e
            if isinstance(exc, ast.Call) and isinstance(cls, (FuncRef, Closure)):
                # `raise helper(...)`: the helper builds the exception instance
                cls = self._call_value(cls, args, kwargs, st, frame)
                args, kwargs = [], {}
            if isinstance(cls, Obj) and any(b.split(".")[-1] in ("Exception", "BaseException", "ValueError", "TypeError")
                                             for b in cls.cls.external_bases()):
                e = PyRaise(cls.cls, tuple(cls.fields.get("args", ())), st, where=frame.func)
                self.hooks.on_raise(self, e)
                raise e
            if isinstance(cls, ClassRef):
                # the exception's own constructor runs first: if building the message fails, that failure propagates
                init = cls.ci.find_method("__init__")
                if init is not None and self.interpret_exception_init and any(b.split(".")[-1] in ("Exception", "BaseException", "ValueError", "TypeError") for b in cls.ci.external_bases()):
                    fuel = self.fuel
                    try:
                        self._call_func(init, [Obj(cls.ci)] + list(args), dict(kwargs), st)
                    except Incomplete:
                        self.fuel = max(self.fuel, fuel // 2)
                e = PyRaise(cls.ci, tuple(args), st, where=frame.func)
            elif isinstance(cls, type) and issubclass(cls, BaseException):
                e = PyRaise(cls, tuple(args), st, where=frame.func)
            else:
                raise Incomplete(f"raise of {cls!r}")
            self.hooks.on_raise(self, e)
            raise e
        elif t is ast.For:
            it = self.iterate(self.eval(st.iter, env, frame), st)
            broke = False
            for item in it:
                self._tick(st)
                self.assign(st.target, item, env, frame)
                try:
                    self.exec_block(st.body, env, frame)
                except _Break:
                    broke = True
                    break
                except _Continue:
                    continue
            if not broke:
                self.exec_block(st.orelse, env, frame)
        elif t is ast.While:
            broke = False
            while self.truth(self.eval(st.test, env, frame), st):
                self._tick(st)
                try:
                    self.exec_block(st.body, env, frame)
                except _Break:
                    broke = True
                    break
                except _Continue:
                    continue
            if not broke:
                self.exec_block(st.orelse, env, frame)
        elif t is ast.Break:
            raise _Break()
        elif t is ast.Continue:
            raise _Continue()
        elif t is ast.Pass:
            pass
        elif t is ast.FunctionDef:
            name = mangle(st.name, frame.cls.name if frame.cls else None)
            env.vars[name] = Closure(st, env, frame, st.name)
        elif t is ast.Try:
            self._exec_try(st, env, frame)
        elif t is ast.Match:
            self._exec_match(st, env, frame)
        elif t is ast.With:
            entered = []
            try:
                for item in st.items:
                    cm = self.eval(item.context_expr, env, frame)
                    enter = getattr(cm, "sa_enter", None)
                    if enter is None:
                        raise Incomplete(f"context manager {cm!r} at {frame.module.relpath}:{st.lineno} is not modelled")
                    v = enter(self)
                    entered.append(cm)
                    if item.optional_vars is not None:
                        self.assign(item.optional_vars, v, env, frame)
                self.exec_block(st.body, env, frame)
            finally:
                for cm in reversed(entered):
                    cm.sa_exit(self)
        elif t is ast.Assert:
            if not self.truth(self.eval(st.test, env, frame), st):
                raise PyRaise(AssertionError, (), st)
        else:
            raise Incomplete(f"statement {t.__name__} at {frame.module.relpath}:{st.lineno} is not modelled")

    # try / except ----------------------------------------------------------------
    def _handler_matches(self, h, e: PyRaise, env, frame):
        if h.type is None:
            return True
        t = self.eval(h.type, env, frame)
        for x in (t if isinstance(t, tuple) else (t,)):
            if isinstance(x, ClassRef):
                if isinstance(e.cls, ClassInfo) and x.ci in e.cls.mro():
                    return True
            elif isinstance(x, type) and issubclass(x, BaseException):
                if isinstance(e.cls, type) and issubclass(e.cls, x):
                    return True
                if isinstance(e.cls, ClassInfo) and x in (Exception, BaseException):
                    return True
                if e.cls is NonTerminationMarker:
                    return False
            else:
                raise Incomplete(f"except clause with {x!r}")
        return False

    def _exec_try(self, st, env, frame):
        try:
            try:
                self.exec_block(st.body, env, frame)
            except PyRaise as e:
                for h in st.handlers:
                    if self._handler_matches(h, e, env, frame):
                        if h.name:
                            env.vars[mangle(h.name, frame.cls.name if frame.cls else None)] = _ExcValue(e)
                        self._handling = tuple(self._handling) + (e,)
                        try:
                            self.exec_block(h.body, env, frame)
                        finally:
                            self._handling = self._handling[:-1]
                        break
                else:
                    raise
            else:
                self.exec_block(st.orelse, env, frame)
        finally:
            if st.finalbody:
                self.exec_block(st.finalbody, env, frame)

    # match / case -----------------------------------------------------------------
    def _exec_match(self, st, env, frame):
        subject = self.eval(st.subject, env, frame)
        for case in st.cases:
            if self._match(case.pattern, subject, env, frame) and \
                    (case.guard is None or self.truth(self.eval(case.guard, env, frame), case.guard)):
                self.exec_block(case.body, env, frame)
                return

    _BUILTIN_SELF_MATCH = (bool, bytearray, bytes, dict, float, frozenset, int, list, set, str, tuple)

    def _match(self, pat, v, env, frame):
        t = type(pat)
        bind = lambda name, val: env.vars.__setitem__(mangle(name, frame.cls.name if frame.cls else None), val)
        if t is ast.MatchValue:
            return self.compare(ast.Eq(), v, self.eval(pat.value, env, frame), pat)
        if t is ast.MatchSingleton:
            return self._identical(v, pat.value)
        if t is ast.MatchAs:
            if pat.pattern is not None and not self._match(pat.pattern, v, env, frame):
                return False
            if pat.name is not None:
                bind(pat.name, v)
            return True
        if t is ast.MatchOr:
            return any(self._match(p, v, env, frame) for p in pat.patterns)
        if t is ast.MatchSequence:
            if isinstance(v, Lazy):
                raise Incomplete("match on unresolved value")
            if not isinstance(v, (list, tuple)):
                return False
            items = list(v)
            star = [i for i, p in enumerate(pat.patterns) if isinstance(p, ast.MatchStar)]
            if star:
                i = star[0]
                after = len(pat.patterns) - i - 1
                if len(items) < len(pat.patterns) - 1:
                    return False
                ok = all(self._match(p, x, env, frame) for p, x in zip(pat.patterns[:i], items[:i])) and \
                    all(self._match(p, x, env, frame) for p, x in zip(pat.patterns[i + 1:], items[len(items) - after:]))
                if ok and pat.patterns[i].name:
                    bind(pat.patterns[i].name, items[i:len(items) - after])
                return ok
            return len(items) == len(pat.patterns) and all(self._match(p, x, env, frame) for p, x in zip(pat.patterns, items))
        if t is ast.MatchMapping:
            if not isinstance(v, dict):
                return False
            for k, p in zip(pat.keys, pat.patterns):
                kv = self.eval(k, env, frame)
                if kv not in v or not self._match(p, v[kv], env, frame):
                    return False
            if pat.rest:
                keys = [self.eval(k, env, frame) for k in pat.keys]
                bind(pat.rest, {k: x for k, x in v.items() if k not in keys})
            return True
        if t is ast.MatchClass:
            if isinstance(v, Lazy):
                raise Incomplete("match on unresolved value")
            cls = self.eval(pat.cls, env, frame)
            if isinstance(cls, type):
                if isinstance(v, (Obj, EnumVal, ClassRef, Native, Closure, FuncRef)) or not isinstance(v, cls):
                    return False
                if cls is int and isinstance(v, bool) and False:
                    return False
                if pat.patterns:
                    if cls in self._BUILTIN_SELF_MATCH and len(pat.patterns) == 1:
                        if not self._match(pat.patterns[0], v, env, frame):
                            return False
                    else:
                        raise Incomplete(f"positional class pattern on {cls.__name__}")
            elif isinstance(cls, ClassRef):
                if not self.isinstance(v, cls):
                    return False
                if pat.patterns:
                    names = [n for n, _ in cls.ci.fields]
                    if len(pat.patterns) > len(names):
                        raise PyRaise(TypeError, ("too many positional sub-patterns",), pat)
                    for p, n in zip(pat.patterns, names):
                        if not self._match(p, self.getattr(v, n, None, pat), env, frame):
                            return False
            else:
                raise Incomplete(f"class pattern with {cls!r}")
            for n, p in zip(pat.kwd_attrs, pat.kwd_patterns):
                try:
                    val = self.getattr(v, n, None, pat)
                except PyRaise:
                    return False
                if not self._match(p, val, env, frame):
                    return False
            return True
        raise Incomplete(f"pattern {t.__name__}")

    def assign(self, tgt, v, env: Env, frame: Frame):
        t = type(tgt)
        if t is ast.Name:
            env.vars[mangle(tgt.id, frame.cls.name if frame.cls else None)] = v
        elif t in (ast.Tuple, ast.List):
            items = list(self.iterate(v, tgt))
            star = [i for i, e in enumerate(tgt.elts) if isinstance(e, ast.Starred)]
            if star:
                i = star[0]
                after = len(tgt.elts) - i - 1
                if len(items) < len(tgt.elts) - 1:
                    raise PyRaise(ValueError, ("not enough values to unpack",), tgt)
                for e, x in zip(tgt.elts[:i], items[:i]):
                    self.assign(e, x, env, frame)
                self.assign(tgt.elts[i].value, items[i:len(items) - after], env, frame)
                for e, x in zip(tgt.elts[i + 1:], items[len(items) - after:]):
                    self.assign(e, x, env, frame)
            else:
                if len(items) != len(tgt.elts):
                    raise PyRaise(ValueError, ("unpack length mismatch",), tgt)
                for e, x in zip(tgt.elts, items):
                    self.assign(e, x, env, frame)
        elif t is ast.Attribute:
            o = self.eval(tgt.value, env, frame)
            name = mangle(tgt.attr, frame.cls.name if frame.cls else None)
            if isinstance(o, Obj):
                o.fields[name] = v
                self.events.append(("setattr", o, name, tgt))
            elif isinstance(o, ClassRef) and o.ci.find_attr(name)[0] is o.ci:
                # rebinding a class attribute in its own class (`__class__.__latest = ...`): the class object lives as long as
                # the interpreter instance (= the process), later reads see the new value
                self._class_attr_cache[(o.ci.qualname, name)] = v
                self.events.append(("setattr", o, name, tgt))
            else:
                raise Incomplete(f"attribute store on {o!r}")
        elif t is ast.Subscript:
            o = self.eval(tgt.value, env, frame)
            k = self.eval_slice(tgt.slice, env, frame)
            try:
                o[k] = v
            except _PY_EXC as e:
                raise PyRaise(type(e), e.args, tgt)
        else:
            raise Incomplete(f"assignment target {t.__name__}")

    # expressions -------------------------------------------------------------
    def eval_args(self, call: ast.Call, env, frame):
        args = []
        for a in call.args:
            if isinstance(a, ast.Starred):
                args.extend(self.iterate(self.eval(a.value, env, frame), a))
            else:
                args.append(self.eval(a, env, frame))
        kwargs = {}
        for k in call.keywords:
            if k.arg is None:
                d = self.eval(k.value, env, frame)
                if not isinstance(d, dict):
                    raise Incomplete("** of non-dict")
                kwargs.update(d)
            else:
                kwargs[k.arg] = self.eval(k.value, env, frame)
        return args, kwargs

    def eval_slice(self, s, env, frame):
        if isinstance(s, ast.Slice):
            return slice(self.eval(s.lower, env, frame) if s.lower else None,
                         self.eval(s.upper, env, frame) if s.upper else None,
                         self.eval(s.step, env, frame) if s.step else None)
        if isinstance(s, ast.Tuple):
            return tuple(self.eval_slice(e, env, frame) for e in s.elts)
        return self.eval(s, env, frame)

    def eval(self, e, env: Env, frame: Frame):
        self._tick(e)
        t = type(e)
        if t is ast.Constant:
            return e.value
        if t is ast.Name:
            return self.lookup(e.id, env, frame)
        if t is ast.Attribute:
            v = self.eval(e.value, env, frame)
            return self.getattr(v, e.attr, frame, e)
        if t is ast.Call:
            f = self.eval(e.func, env, frame)
            if getattr(f, "__qualname__", "").startswith("_SilentLogger."):
                return None          # a log record: its arguments are not evaluated (they cannot reach a result)
            args, kwargs = self.eval_args(e, env, frame)
            return self._call_value(f, args, kwargs, e, frame)
        if t is ast.JoinedStr:
            parts = []
            for p in e.values:
                if isinstance(p, ast.Constant):
                    parts.append(p.value)
                else:
                    v = self.eval(p.value, env, frame)
                    if p.conversion == 114:
                        s = self.to_repr(v, p)
                    elif p.conversion in (115, -1):
                        s = self.to_str(v, p)
                    else:
                        raise Incomplete("f-string conversion !a")
                    if p.format_spec is not None:
                        spec = self.eval(p.format_spec, env, frame)
                        if isinstance(v, (Obj, Native)):
                            raise Incomplete("format spec on library object")
                        try:
                            s = format(v, spec)
                        except _PY_EXC as ex:
                            raise PyRaise(type(ex), ex.args, p)
                    parts.append(s)
            if any(not isinstance(x, str) for x in parts):
                return self.hooks.join_parts(self, parts, e)
            out = "".join(parts)
            self.hooks.on_text(self, e, frame, out)
            return out
        if t is ast.BinOp:
            l = self.eval(e.left, env, frame)
            r = self.eval(e.right, env, frame)
            out = self.binop(e.op, l, r, e)
            if isinstance(out, str):
                self.hooks.on_text(self, e, frame, out)
            return out
        if t is ast.BoolOp:
            if isinstance(e.op, ast.And):
                v = True
                for x in e.values:
                    v = self.eval(x, env, frame)
                    if not self.truth(v, x):
                        return v
                return v
            v = False
            for x in e.values:
                v = self.eval(x, env, frame)
                if self.truth(v, x):
                    return v
            return v
        if t is ast.UnaryOp:
            v = self.eval(e.operand, env, frame)
            if isinstance(e.op, ast.Not):
                return not self.truth(v, e)
            if isinstance(e.op, ast.Invert) and isinstance(v, Obj):
                m = v.cls.find_method("__invert__")
                if m is None:
                    raise PyRaise(TypeError, ("bad operand for ~",), e)
                return self._call_func(m, [v], {}, e)
            if isinstance(v, Native):
                r = getattr(v, "sa_unary", None)
                if r is None:
                    raise Incomplete("unary op on native object")
                return r(self, e.op)
            try:
                if isinstance(e.op, ast.USub):
                    return -v
                if isinstance(e.op, ast.UAdd):
                    return +v
                if isinstance(e.op, ast.Invert):
                    return ~v
            except _PY_EXC as ex:
                raise PyRaise(type(ex), ex.args, e)
        if t is ast.Compare:
            left = self.eval(e.left, env, frame)
            for op, rhs in zip(e.ops, e.comparators):
                right = self.eval(rhs, env, frame)
                if not self.compare(op, left, right, e):
                    return False
                left = right
            return True
        if t is ast.IfExp:
            if self.truth(self.eval(e.test, env, frame), e):
                return self.eval(e.body, env, frame)
            return self.eval(e.orelse, env, frame)
        if t is ast.Tuple:
            return tuple(self._elts(e.elts, env, frame))
        if t is ast.List:
            return list(self._elts(e.elts, env, frame))
        if t is ast.Set:
            return _OrderedSet(self._elts(e.elts, env, frame))
        if t is ast.Dict:
            d = {}
            for k, v in zip(e.keys, e.values):
                if k is None:
                    d.update(self.eval(v, env, frame))
                else:
                    d[self.eval(k, env, frame)] = self.eval(v, env, frame)
            return d
        if t is ast.Subscript:
            v = self.settle(self.eval(e.value, env, frame))
            k = self.settle(self.eval_slice(e.slice, env, frame))
            if isinstance(v, (Obj, ClassRef, Closure, FuncRef)) :
                raise PyRaise(TypeError, ("object is not subscriptable",), e)
            if isinstance(v, Native):
                g = getattr(v, "sa_getitem", None)
                if g is None:
                    raise Incomplete("subscript of native object")
                return g(self, k)
            try:
                return v[k]
            except _PY_EXC as ex:
                raise PyRaise(type(ex), ex.args, e)
        if t is ast.Lambda:
            return Closure(e, env, frame)
        if t in (ast.ListComp, ast.GeneratorExp, ast.SetComp):
            out = []
            self._comp(e.generators, 0, env, frame, lambda en: out.append(self.eval(e.elt, en, frame)))
            if t is ast.SetComp:
                return _OrderedSet(out)
            if t is ast.GeneratorExp:
                return iter(out)       # evaluated eagerly, but an iterator like the real thing (next(), single pass)
            return out
        if t is ast.DictComp:
            d = {}

            def add(en):
                d[self.eval(e.key, en, frame)] = self.eval(e.value, en, frame)
            self._comp(e.generators, 0, env, frame, add)
            return d
        if t is ast.Yield:
            if frame.yields is None:
                raise Incomplete("yield outside an interpreted generator")
            frame.yields.append(self.eval(e.value, env, frame) if e.value is not None else None)
            return None
        if t is ast.YieldFrom:
            if frame.yields is None:
                raise Incomplete("yield from outside an interpreted generator")
            for item in self.iterate(self.eval(e.value, env, frame), e):
                frame.yields.append(item)
            return None
        if t is ast.Starred:
            raise Incomplete("starred expression outside call/display")
        if t is ast.NamedExpr:
            v = self.eval(e.value, env, frame)
            self.assign(e.target, v, env, frame)
            return v
        raise Incomplete(f"expression {t.__name__} at {frame.module.relpath}:{getattr(e, 'lineno', '?')} is not modelled")

    def _elts(self, elts, env, frame):
        out = []
        for x in elts:
            if isinstance(x, ast.Starred):
                out.extend(self.iterate(self.eval(x.value, env, frame), x))
            else:
                out.append(self.eval(x, env, frame))
        return out

    def _comp(self, gens, i, env, frame, emit):
        if i == len(gens):
            emit(env)
            return
        g = gens[i]
        it = self.iterate(self.eval(g.iter, env, frame), g.iter)
        for item in it:
            self._tick(g.iter)
            en = Env(env)
            self.assign(g.target, item, en, frame)
            if all(self.truth(self.eval(c, en, frame), c) for c in g.ifs):
                self._comp(gens, i + 1, en, frame, emit)

    _BINOPS = {ast.Add: ("__add__", "__radd__", lambda a, b: a + b),
               ast.Sub: ("__sub__", "__rsub__", lambda a, b: a - b),
               ast.Mult: ("__mul__", "__rmul__", lambda a, b: a * b),
               ast.BitOr: ("__or__", "__ror__", lambda a, b: a | b),
               ast.BitAnd: ("__and__", "__rand__", lambda a, b: a & b),
               ast.Mod: ("__mod__", "__rmod__", lambda a, b: a % b),
               ast.FloorDiv: ("__floordiv__", "__rfloordiv__", lambda a, b: a // b),
               ast.Div: ("__truediv__", "__rtruediv__", lambda a, b: a / b),
               ast.Pow: ("__pow__", "__rpow__", lambda a, b: a ** b)}

    def binop(self, op, l, r, node):
        ent = self._BINOPS.get(type(op))
        if ent is None:
            raise Incomplete(f"operator {type(op).__name__}")
        fwd, rev, pyfn = ent
        l, r = self.settle(l), self.settle(r)
        if isinstance(l, EnumVal) and isinstance(r, EnumVal) and l.ci is r.ci and self._is_flag(l) and \
                type(op) in (ast.BitOr, ast.BitAnd, ast.BitXor) and isinstance(l.value, int) and isinstance(r.value, int):
            v = {ast.BitOr: l.value | r.value, ast.BitAnd: l.value & r.value, ast.BitXor: l.value ^ r.value}[type(op)]
            for nm in l.ci.attrs:
                if not nm.startswith("_") and self._equal(self._class_attr(l.ci, nm), v):
                    return EnumVal(l.ci, nm, v)
            names = [nm for nm in l.ci.attrs if not nm.startswith("_") and isinstance(self._class_attr(l.ci, nm), int)
                     and self._class_attr(l.ci, nm) and (self._class_attr(l.ci, nm) & v) == self._class_attr(l.ci, nm)]
            return EnumVal(l.ci, "|".join(names) or "0", v)
        if isinstance(l, Native):
            out = l.sa_binop(self, fwd, r, False)
            if out is not NotImplemented:
                return out
        if isinstance(r, Native):
            out = r.sa_binop(self, rev, l, True)
            if out is not NotImplemented:
                return out
        if isinstance(l, Obj):
            m = l.cls.find_method(fwd)
            if m is not None:
                return self._call_func(m, [l, r], {}, node)
        if isinstance(r, Obj):
            m = r.cls.find_method(rev)
            if m is not None:
                return self._call_func(m, [r, l], {}, node)
        if isinstance(l, (Obj, Native, ClassRef, Closure, FuncRef)) or isinstance(r, (Obj, Native, ClassRef, Closure, FuncRef)):
            raise PyRaise(TypeError, (f"unsupported operand type(s) for {fwd}",), node)
        if isinstance(l, Lazy) or isinstance(r, Lazy):
            raise Incomplete("arithmetic on unresolved value")
        try:
            return pyfn(l, r)          # (set algebra on interpreter-made sets keeps insertion order: _OrderedSet's own operators)
        except _PY_EXC as ex:
            raise PyRaise(type(ex), ex.args, node)

    def compare(self, op, l, r, node):
        t = type(op)
        l, r = self.settle(l), self.settle(r)
        if isinstance(l, Lazy) or isinstance(r, Lazy):
            raise Incomplete("comparison of unresolved value")
        if t is ast.Is:
            return self._identical(l, r)
        if t is ast.IsNot:
            return not self._identical(l, r)
        if t in (ast.In, ast.NotIn) and isinstance(r, EnumVal) and isinstance(l, EnumVal) and self._is_flag(r) and l.ci is r.ci \
                and isinstance(l.value, int) and isinstance(r.value, int):
            res = (l.value & r.value) == l.value
            return res if t is ast.In else not res
        if t in (ast.In, ast.NotIn):
            if isinstance(r, (Obj, ClassRef)):
                raise PyRaise(TypeError, ("argument is not iterable",), node)
            if isinstance(r, Native):
                c = getattr(r, "sa_contains", None)
                if c is None:
                    raise Incomplete("membership in native object")
                res = c(self, l)
            else:
                try:
                    if isinstance(r, (list, tuple, set, frozenset, dict)) and not isinstance(r, str):
                        res = any(self._equal(l, x) for x in r)
                    else:
                        res = l in r
                except _PY_EXC as ex:
                    raise PyRaise(type(ex), ex.args, node)
            return res if t is ast.In else not res
        if t is ast.Eq:
            return self._equal(l, r)
        if t is ast.NotEq:
            return not self._equal(l, r)
        if isinstance(l, (Obj, ClassRef, EnumVal)) or isinstance(r, (Obj, ClassRef, EnumVal)):
            raise PyRaise(TypeError, ("ordering comparison on objects",), node)
        if isinstance(l, Native) or isinstance(r, Native):
            raise Incomplete("ordering comparison on native object")
        try:
            if t is ast.Lt:
                return l < r
            if t is ast.LtE:
                return l <= r
            if t is ast.Gt:
                return l > r
            if t is ast.GtE:
                return l >= r
        except _PY_EXC as ex:
            raise PyRaise(type(ex), ex.args, node)
        raise Incomplete(f"comparison {t.__name__}")

    def _identical(self, l, r):
        if l is None or r is None:
            return l is r
        if isinstance(l, (bool,)) or isinstance(r, bool):
            return l is r
        if isinstance(l, EnumVal) or isinstance(r, EnumVal):
            return l == r
        if isinstance(l, ClassRef) or isinstance(r, ClassRef):
            return l == r
        return l is r

    def _equal(self, l, r):
        if isinstance(l, Native):
            f = getattr(l, "sa_eq", None)
            if f is not None:
                return f(self, r)
        if isinstance(r, Native):
            f = getattr(r, "sa_eq", None)
            if f is not None:
                return f(self, l)
        if isinstance(l, Obj) or isinstance(r, Obj):
            return l is r
        try:
            return l == r
        except _PY_EXC:
            return False


# iteration order used for sets built by interpreted code: 0 source/insertion order, 1 reversed,
# 2 sorted, 3 reverse-sorted, >= 10 a pseudo-random permutation seeded by the mode (stands for a hash seed).
SET_ORDER = 0


class _OrderedSet(set):
    """A set created by interpreted code (display, comprehension, set(...) call, set algebra): iteration follows
    the ORDER OF INSERTION permuted by the current SET_ORDER mode (any order is possible at run time - the modes
    stand for hash seeds; rules that depend on order check commutation).  Every mutator and operator keeps the
    insertion order in step with the contents, so results never depend on the hash seed of the checker itself."""

    def __init__(self, items=()):
        super().__init__()
        self._order = []
        for x in items:
            if not set.__contains__(self, x):
                set.add(self, x)
                self._order.append(x)

    def __iter__(self):
        mode = SET_ORDER
        if mode == 0:
            return iter(list(self._order))
        if mode == 1:
            return iter(list(reversed(self._order)))
        if mode >= 10:
            import random
            lst = list(self._order)
            random.Random(mode * 1000003 + len(lst) * 7919 + sum(len(str(x)) for x in lst)).shuffle(lst)
            return iter(lst)
        try:
            return iter(sorted(self._order, reverse=(mode == 3)))
        except TypeError:
            return iter(list(self._order))

    def _set_order(self, order):
        set.clear(self)
        self._order = []
        for x in order:
            if not set.__contains__(self, x):
                set.add(self, x)
                self._order.append(x)

    # mutators
    def add(self, x):
        if not set.__contains__(self, x):
            set.add(self, x)
            self._order.append(x)

    def discard(self, x):
        if set.__contains__(self, x):
            set.discard(self, x)
            self._order.remove(x)

    def remove(self, x):
        set.remove(self, x)
        self._order.remove(x)

    def pop(self):
        if not self._order:
            raise KeyError("pop from an empty set")
        x = next(iter(self))
        self.remove(x)
        return x

    def clear(self):
        set.clear(self)
        self._order = []

    def update(self, *others):
        for o in others:
            for x in o:
                self.add(x)

    def difference_update(self, *others):
        drop = set()
        for o in others:
            drop |= set(o)
        self._set_order([x for x in self._order if x not in drop])

    def intersection_update(self, *others):
        keep = None
        for o in others:
            keep = set(o) if keep is None else keep & set(o)
        self._set_order([x for x in self._order if keep is None or x in keep])

    def symmetric_difference_update(self, other):
        self._set_order(list(self.symmetric_difference(other)._order))

    def __ior__(self, o):
        self.update(o)
        return self

    def __isub__(self, o):
        self.difference_update(o)
        return self

    def __iand__(self, o):
        self.intersection_update(o)
        return self

    def __ixor__(self, o):
        self.symmetric_difference_update(o)
        return self

    # algebra (new sets)
    def copy(self):
        return _OrderedSet(self._order)

    def union(self, *others):
        out = _OrderedSet(self._order)
        for o in others:
            for x in o:
                out.add(x)
        return out

    def difference(self, *others):
        drop = set()
        for o in others:
            drop |= set(o)
        return _OrderedSet(x for x in self._order if x not in drop)

    def intersection(self, *others):
        out = list(self._order)
        for o in others:
            k = set(o)
            out = [x for x in out if x in k]
        return _OrderedSet(out)

    def symmetric_difference(self, other):
        k = set(other)
        mine = set(self._order)
        return _OrderedSet([x for x in self._order if x not in k] + [x for x in other if x not in mine])

    def __or__(self, o):
        return self.union(o) if isinstance(o, (set, frozenset)) else NotImplemented

    def __ror__(self, o):
        return _OrderedSet(o).union(self) if isinstance(o, (set, frozenset)) else NotImplemented

    def __sub__(self, o):
        return self.difference(o) if isinstance(o, (set, frozenset)) else NotImplemented

    def __rsub__(self, o):
        return _OrderedSet(o).difference(self) if isinstance(o, (set, frozenset)) else NotImplemented

    def __and__(self, o):
        return self.intersection(o) if isinstance(o, (set, frozenset)) else NotImplemented

    def __rand__(self, o):
        return _OrderedSet(o).intersection(self) if isinstance(o, (set, frozenset)) else NotImplemented

    def __xor__(self, o):
        return self.symmetric_difference(o) if isinstance(o, (set, frozenset)) else NotImplemented

    def __rxor__(self, o):
        return _OrderedSet(o).symmetric_difference(self) if isinstance(o, (set, frozenset)) else NotImplemented

    def __reduce__(self):
        return (_OrderedSet, (list(self._order),))


_GEN_CACHE = {}


def _is_generator(fnode):
    r = _GEN_CACHE.get(fnode)
    if r is None:
        r = _GEN_CACHE[fnode] = _is_generator_uncached(fnode)
    return r


def _is_generator_uncached(fnode):
    stack = list(fnode.body)
    while stack:
        n = stack.pop()
        if isinstance(n, (ast.Yield, ast.YieldFrom)):
            return True
        if isinstance(n, (ast.FunctionDef, ast.Lambda, ast.ClassDef)):
            continue
        stack.extend(ast.iter_child_nodes(n))
    return False


def _plain(x):
    return set(x) if isinstance(x, _OrderedSet) else x


def _load(tgt):
    import copy
    n = copy.copy(tgt)
    n.ctx = ast.Load()
    return n


# ------------------------------------------------------------------ path driver
class PathResult:
    def __init__(self, decisions, trace, outcome, value, interp):
        self.decisions = decisions
        self.trace = trace
        self.outcome = outcome    # 'return' | 'raise'
        self.value = value        # returned value or PyRaise
        self.interp = interp

    def choices(self):
        return [f"{tag}={pick}" for pick, n, tag in self.trace]


def explore(model: Model, run, hooks_factory=None, max_paths=800):
    """Enumerate every path of `run(interp)` over all Lazy/choose decisions."""
    results = []
    stack = [[]]
    while stack:
        decisions = stack.pop()
        hooks = hooks_factory() if hooks_factory else None
        it = Interp(model, hooks, decisions)
        try:
            v = run(it)
            res = PathResult(decisions, list(it.trace), "return", v, it)
        except PyRaise as e:
            res = PathResult(decisions, list(it.trace), "raise", e, it)
        results.append(res)
        if len(results) > max_paths:
            raise Incomplete("too many paths")
        for i in range(len(decisions), len(it.trace)):
            pick, n, tag = it.trace[i]
            for alt in range(1, n):
                stack.append([p for p, _, _ in it.trace[:i]] + [alt])
    return results
