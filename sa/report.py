"""Verdict plumbing: rule instances, violations, known findings, evidence, exit codes.

Exit codes: 0 held (known findings printed), 1 new violation, 2 analysis error/incomplete.
Findings are keyed by (property, rule, file, function, construct) plus the set of
abstract inputs on which the construct fails - never by line number.
"""
from __future__ import annotations

import json
import os
import sys
import time

VERIF = os.path.dirname(os.path.dirname(os.path.abspath(__file__)))
KNOWN_FILE = os.path.join(VERIF, "known_findings.jsonl")


class Violation:
    def __init__(self, rule, file, function, construct, message, line=None):
        self.rule = rule
        self.file = file
        self.function = function
        self.construct = construct
        self.message = message
        self.line = line
        self.inputs: list[str] = []
        self.details: list[str] = []

    @property
    def key(self):
        return (self.rule, self.file, self.function, self.construct)

    def to_json(self, pid):
        return {"property": pid, "rule": self.rule, "file": self.file, "function": self.function,
                "construct": self.construct, "inputs": sorted(set(self.inputs)), "message": self.message,
                "line_now": self.line, "details": self.details[:40]}


_PAR = None


class _Recorder:
    """Stand-in for Ctx inside a forked worker: records the calls, exposes the read-only attributes."""

    def __init__(self, ctx):
        self.calls = []
        self.tier, self.root, self.pid, self.jobs, self.seed = ctx.tier, ctx.root, ctx.pid, 1, ctx.seed
        self.rule_counts = dict(ctx.rule_counts)
        self.extra = {}
        self.violations = {}

    def instance(self, *a, **kw):
        self.calls.append(("instance", a, kw))
        self.rule_counts[a[0]] = self.rule_counts.get(a[0], 0) + kw.get("n", 1)

    def violation(self, *a, **kw):
        self.calls.append(("violation", tuple(str(x) if not isinstance(x, (int, type(None))) else x for x in a),
                           {k: (str(v) if v is not None else None) for k, v in kw.items()}))
        self.violations[len(self.violations)] = True

    def note(self, s):
        self.calls.append(("note", (s,), {}))

    def parallel(self, items, body, min_items=0):
        return [body(self, it) for it in items]


def _par_chunk(rng):
    body, items, ctx = _PAR
    out = []
    for i in range(*rng):
        rec = _Recorder(ctx)
        try:
            val = body(rec, items[i])
            err = None
        except BaseException as e:   # reported in the parent, in order
            val, err = None, (type(e).__name__, str(e))
        out.append((rec.calls, val, err))
        if err is not None:
            break
    return out


class Ctx:
    """Per-run context handed to the rule module."""

    def __init__(self, pid, tier="quick", root="/repo", seed=0, write_evidence=True, jobs=1):
        self.pid = pid
        self.tier = tier
        self.root = root
        self.seed = seed
        self.jobs = jobs
        self.write_evidence = write_evidence
        self.t0 = time.time()
        self.violations: dict[tuple, Violation] = {}
        self.rule_counts: dict[str, int] = {}
        self.rule_nontrivial: dict[str, set] = {}
        self.samples: list = []
        self.assumptions: list[str] = []
        self.explanation = ""
        self.notes: list[str] = []
        self.analysed: dict[str, list] = {}
        self.extra: dict = {}
        self.exhaustive = None

    # -- bookkeeping -----------------------------------------------------
    def instance(self, rule, key=None, nontrivial=True, sample=None, n=1):
        """One evaluated rule instance (an obligation).  `key` identifies distinct ones."""
        self.rule_counts[rule] = self.rule_counts.get(rule, 0) + n
        if nontrivial:
            s = self.rule_nontrivial.setdefault(rule, set())
            s.add(key if key is not None else (rule, self.rule_counts[rule]))
        if sample is not None and sum(1 for x in self.samples if x.get("rule") == rule) < 4:
            self.samples.append({"rule": rule, "case": sample})

    def analysed_item(self, kind, item):
        self.analysed.setdefault(kind, []).append(item)

    def violation(self, rule, file, function, construct, message, line=None, inp=None, detail=None):
        v = Violation(rule, file, function, construct, message, line)
        v = self.violations.setdefault(v.key, v)
        if inp is not None:
            v.inputs.append(str(inp))
        if detail is not None:
            v.details.append(str(detail))
        return v

    def floor(self, rule, count, minimum, what):
        from .model import AnalysisError
        if self.violations:
            return   # the run already reports violations; a reduced count is a consequence, not a vanished anchor
        if count < minimum:
            raise AnalysisError(f"{rule}: only {count} {what} matched; at least {minimum} were confirmed by hand "
                                f"on the pinned tree - the rule would pass vacuously (anchor moved?)")

    def note(self, s):
        self.notes.append(s)

    # -- parallel evaluation of independent rule instances -------------------
    def parallel(self, items, body, min_items=24):
        """body(ctx, item) -> value, for every item, in forked worker processes.  Inside the body only ctx.instance /
        ctx.violation / ctx.note may be used; these calls are recorded in the worker and replayed here in item order,
        so the result does not depend on scheduling.  Returns the list of values (picklable)."""
        items = list(items)
        n = max(1, min(self.jobs, 16))
        if n == 1 or len(items) < min_items:
            return [body(self, it) for it in items]
        import multiprocessing as mp
        global _PAR
        _PAR = (body, items, self)
        size = max(1, len(items) // (n * 6))
        ranges = [(i, min(i + size, len(items))) for i in range(0, len(items), size)]
        with mp.get_context("fork").Pool(n) as pool:
            parts = pool.map(_par_chunk, ranges, chunksize=1)
        out = []
        for part in parts:
            for calls, val, err in part:
                for name, a, kw in calls:
                    getattr(self, name)(*a, **kw)
                if err is not None:
                    from .model import AnalysisError
                    kind, msg = err
                    if kind == "AnalysisError":
                        raise AnalysisError(msg)
                    raise RuntimeError(f"{kind}: {msg}")
                out.append(val)
        return out

    # -- finish ------------------------------------------------------------
    def finish(self, error: str | None = None) -> int:
        known, fixed = load_known(self.pid)
        new, matched = [], []
        for v in self.violations.values():
            k = match_known(v, known)
            if k is None:
                new.append(v)
            else:
                matched.append((v, k))
        total_inst = sum(self.rule_counts.values())
        nontriv = sum(len(s) for s in self.rule_nontrivial.values())
        wall = time.time() - self.t0
        if self.write_evidence:
            self._write_evidence(wall, len(new), len(matched), error)
        try:
            return self._print_verdict(new, matched, error, total_inst, nontriv, wall)
        except BrokenPipeError:
            return 2 if error is not None else (1 if new else 0)

    def _print_verdict(self, new, matched, error, total_inst, nontriv, wall):
        print(f"[{self.pid}] tier={self.tier} root={self.root} rules={len(self.rule_counts)} "
              f"instances={total_inst} nontrivial={nontriv} wall={wall:.2f}s")
        for r in sorted(self.rule_counts):
            print(f"  rule {r}: {self.rule_counts[r]} instances, {len(self.rule_nontrivial.get(r, ()))} distinct non-trivial")
        for n in self.notes:
            print(f"  note: {n}")
        for v, k in matched:
            print(f"KNOWN-FINDING: property={self.pid} rule={v.rule} {v.file}::{v.function} [{v.construct}] "
                  f"{k.get('what', v.message)}")
        code = 0
        report_path = None
        if error is not None:
            print(f"ANALYSIS-ERROR: property={self.pid} {error}")
            code = 2
        if new:
            os.makedirs(os.path.join(VERIF, "out"), exist_ok=True)
            report_path = os.path.join(VERIF, "out", f"{self.pid}-violations.json")
            with open(report_path, "w") as f:
                json.dump({"property": self.pid, "root": self.root, "tier": self.tier,
                           "violations": [v.to_json(self.pid) for v in new]}, f, indent=1, ensure_ascii=False)
            for v in new:
                loc = f"{v.file}:{v.line}" if v.line else v.file
                print(f"  violation rule={v.rule} at {loc} in {v.function}: {v.message}")
                print(f"    construct: {v.construct}")
                if v.inputs:
                    ins = sorted(set(v.inputs))
                    print(f"    abstract inputs ({len(ins)}): {'; '.join(ins[:8])}{' ...' if len(ins) > 8 else ''}")
                for d in v.details[:3]:
                    print(f"    {d}")
                print(f"VIOLATION property={self.pid} replay={report_path}")
            code = 1
        sys.stdout.flush()
        return code

    def _write_evidence(self, wall, n_new, n_known, error):
        total_inst = sum(self.rule_counts.values())
        nontriv = sum(len(s) for s in self.rule_nontrivial.values())
        cov = {
            "explanation": self.explanation or f"static analysis of {self.pid}",
            "evaluations": total_inst,
            "distinct_nontrivial": nontriv,
            "rule": "one evaluation = one rule instance (obligation) decided from the source of /repo; an instance is "
                    "non-trivial when it ends in a comparison with the oracle (not a vacuous/skipped case); distinct = "
                    "distinct (rule, construct, abstract input) keys",
            "samples": self.samples[:24] or [{"rule": "-", "case": "no instance evaluated"}],
            "per_rule": {r: {"instances": self.rule_counts[r], "distinct_nontrivial": len(self.rule_nontrivial.get(r, ()))}
                         for r in sorted(self.rule_counts)},
            "analysed": {k: (v if len(v) <= 60 else v[:60] + [f"... {len(v) - 60} more"]) for k, v in self.analysed.items()},
            "known_findings_matched": n_known,
            "technique": "static analysis (AST/dataflow/abstract interpretation); /repo is parsed, never imported or executed",
        }
        if self.exhaustive is not None:
            cov["exhaustive"] = bool(self.exhaustive)
        cov.update(self.extra)
        if error:
            cov["analysis_error"] = error
        ev = {
            "property_id": self.pid,
            "tier": self.tier,
            "seed": int(self.seed),
            "level": "other",
            "coverage": cov,
            "assumptions": self.assumptions,
            "wall_s": round(wall, 3),
            "violations": n_new,
        }
        d = os.path.join(VERIF, "evidence")
        os.makedirs(d, exist_ok=True)
        tmp = os.path.join(d, f".{self.pid}.json.tmp")
        with open(tmp, "w") as f:
            json.dump(ev, f, indent=1, ensure_ascii=False)
        os.replace(tmp, os.path.join(d, f"{self.pid}.json"))


def load_known(pid):
    known, fixed = [], []
    if os.path.exists(KNOWN_FILE):
        with open(KNOWN_FILE) as f:
            for line in f:
                line = line.strip()
                if not line or line.startswith("#"):
                    continue
                rec = json.loads(line)
                if rec.get("property") != pid:
                    continue
                (known if rec.get("status") == "known" else fixed).append(rec)
    return known, fixed


def match_known(v: Violation, known):
    for k in known:
        if k.get("rule") != v.rule or k.get("file") != v.file or k.get("function") != v.function:
            continue
        if k.get("construct") != v.construct:
            continue
        allowed = k.get("inputs")
        if allowed is not None and not set(v.inputs) <= set(allowed):
            continue
        return k
    return None
