"""Code-point sets of the constant character classes and tokens, read from the source (E4).

Each named class of classes.py passes a string constant to `__Class.__init__`; each token
class passes a constant to `__Token.__init__`.  The constants are folded from the AST and
parsed with CPython's regex parser into interval sets (whole Unicode range, no sampling).
"""
from __future__ import annotations

import ast
import re

from .absdom import parse_regex
from .consts import fold_str
from .model import AnalysisError, Model

CLS_MOD = "pregex.core.classes"
TOK_MOD = "pregex.core.tokens"
MAXU = 0x10FFFF


def _super_init_call(ci):
    init = ci.methods.get("__init__")
    if init is None:
        return None, None
    for n in ast.walk(init.node):
        if isinstance(n, ast.Call) and isinstance(n.func, ast.Attribute) and n.func.attr == "__init__" \
                and isinstance(n.func.value, ast.Call) and isinstance(n.func.value.func, ast.Name) \
                and n.func.value.func.id == "super":
            return init, n
    return init, None


def intervals_of_class_text(text: str):
    """'[a-z0-9_]' / '[^...]' / '.' -> (sorted disjoint intervals, negated flag, is_any)"""
    if text == ".":
        return [(0, MAXU)], False, True
    tree = parse_regex(text, 0)[0]
    if len(tree) != 1:
        raise AnalysisError(f"class constant {text!r} is not a single class")
    node = tree[0]
    items = None
    if node[0] == "IN":
        items = node[1]
    elif node[0] == "LITERAL":
        items = (node,)
    elif node[0] == "NOT_LITERAL":
        items = (("NEGATE", None), ("LITERAL", node[1]))
    else:
        raise AnalysisError(f"class constant {text!r} parses to {node[0]}")
    neg = False
    iv = []
    for it in items:
        if it[0] == "NEGATE":
            neg = True
        elif it[0] == "LITERAL":
            iv.append((it[1], it[1]))
        elif it[0] == "RANGE":
            iv.append((it[1][0], it[1][1]))
        elif it[0] == "CATEGORY":
            raise AnalysisError(f"class constant {text!r} uses a shorthand category")
        else:
            raise AnalysisError(f"class constant {text!r}: unsupported item {it[0]}")
    return merge(iv), neg, False


def merge(iv):
    iv = sorted(iv)
    out = []
    for a, b in iv:
        if out and a <= out[-1][1] + 1:
            out[-1] = (out[-1][0], max(out[-1][1], b))
        else:
            out.append((a, b))
    return out


def of_chars(chars):
    return merge([(ord(c), ord(c)) for c in chars])


def named_classes(model: Model):
    """{class name: dict(text, intervals, negated_text, is_negated_flag, simplify, init, call)} for every
    subclass of __Class whose __init__ passes a constant text."""
    base = model.cls(CLS_MOD, "__Class")
    out = {}
    for ci in model.module(CLS_MOD).classes.values():
        if ci is base or not ci.is_subclass_of(base):
            continue
        init, call = _super_init_call(ci)
        if call is None or not call.args:
            continue
        text = fold_str(model, init, call.args[0])
        if text is None:
            continue   # computed text (AnyFrom, AnyBetween ...)
        kw = {k.arg: k.value for k in call.keywords}
        flag = kw.get("is_negated", call.args[1] if len(call.args) > 1 else None)
        if not (isinstance(flag, ast.Constant) and isinstance(flag.value, bool)):
            raise AnalysisError(f"{ci.name}: is_negated is not a boolean constant")
        iv, neg, is_any = intervals_of_class_text(text)
        out[ci.name] = {"text": text, "intervals": iv, "negated_text": neg, "is_negated_flag": flag.value,
                        "is_any": is_any, "init": init, "call": call, "ci": ci}
    return out


def token_classes(model: Model):
    """{token class name: dict(text, codepoint | None, init, call)}"""
    base = model.cls(TOK_MOD, "__Token")
    out = {}
    for ci in model.module(TOK_MOD).classes.values():
        if ci is base or not ci.is_subclass_of(base):
            continue
        init, call = _super_init_call(ci)
        if call is None or not call.args:
            raise AnalysisError(f"token {ci.name}: no constant passed to __Token.__init__")
        text = fold_str(model, init, call.args[0])
        if text is None:
            raise AnalysisError(f"token {ci.name}: text is not a constant")
        cp = None
        try:
            tree = parse_regex(text, 0)[0]
            if len(tree) == 1 and tree[0][0] == "LITERAL":
                cp = tree[0][1]
        except re.error:
            cp = None
        out[ci.name] = {"text": text, "codepoint": cp, "init": init, "call": call, "ci": ci}
    return out
