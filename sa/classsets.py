"""Code-point sets of the constant character classes and tokens, read from the source (E4).

Each named class of classes.py passes a string constant to `__Class.__init__`; each token
class passes a constant to `__Token.__init__`.  The constants are folded from the AST and
parsed with CPython's regex parser into interval sets (whole Unicode range, no sampling).
"""
from __future__ import annotations

import ast
import functools
import re

from .absdom import parse_regex
from .consts import fold_str
from .model import AnalysisError, Model

CLS_MOD = "pregex.core.classes"
TOK_MOD = "pregex.core.tokens"
MAXU = 0x10FFFF


def _super_init_call(ci):
    init = ci.methods.get("__init__")
    if init is None:
        return None, None
    for n in ast.walk(init.node):
        if isinstance(n, ast.Call) and isinstance(n.func, ast.Attribute) and n.func.attr == "__init__" \
                and isinstance(n.func.value, ast.Call) and isinstance(n.func.value.func, ast.Name) \
                and n.func.value.func.id == "super":
            return init, n
    return init, None


def intervals_of_class_text(text: str):
    """'[a-z0-9_]' / '[^...]' / '.' -> (sorted disjoint intervals, negated flag, is_any)"""
    if text == ".":
        return [(0, MAXU)], False, True
    tree = parse_regex(text, 0)[0]
    if len(tree) != 1:
        raise AnalysisError(f"class constant {text!r} is not a single class")
    node = tree[0]
    items = None
    if node[0] == "IN":
        items = node[1]
    elif node[0] == "LITERAL":
        items = (node,)
    elif node[0] == "NOT_LITERAL":
        items = (("NEGATE", None), ("LITERAL", node[1]))
    else:
        raise AnalysisError(f"class constant {text!r} parses to {node[0]}")
    neg = False
    iv = []
    for it in items:
        if it[0] == "NEGATE":
            neg = True
        elif it[0] == "LITERAL":
            iv.append((it[1], it[1]))
        elif it[0] == "RANGE":
            iv.append((it[1][0], it[1][1]))
        elif it[0] == "CATEGORY":
            raise AnalysisError(f"class constant {text!r} uses a shorthand category")
        else:
            raise AnalysisError(f"class constant {text!r}: unsupported item {it[0]}")
    return merge(iv), neg, False


def merge(iv):
    iv = sorted(iv)
    out = []
    for a, b in iv:
        if out and a <= out[-1][1] + 1:
            out[-1] = (out[-1][0], max(out[-1][1], b))
        else:
            out.append((a, b))
    return out


def of_chars(chars):
    return merge([(ord(c), ord(c)) for c in chars])


def named_classes(model: Model):
    """{class name: dict(text, intervals, negated_text, is_negated_flag, simplify, init, call)} for every
    subclass of __Class whose __init__ passes a constant text."""
    base = model.cls(CLS_MOD, "__Class")
    out = {}
    for ci in model.module(CLS_MOD).classes.values():
        if ci is base or not ci.is_subclass_of(base):
            continue
        init, call = _super_init_call(ci)
        if call is None or not call.args:
            continue
        text = fold_str(model, init, call.args[0])
        if text is None:
            continue   # computed text (AnyFrom, AnyBetween ...)
        kw = {k.arg: k.value for k in call.keywords}
        flag = kw.get("is_negated", call.args[1] if len(call.args) > 1 else None)
        if not (isinstance(flag, ast.Constant) and isinstance(flag.value, bool)):
            raise AnalysisError(f"{ci.name}: is_negated is not a boolean constant")
        iv, neg, is_any = intervals_of_class_text(text)
        out[ci.name] = {"text": text, "intervals": iv, "negated_text": neg, "is_negated_flag": flag.value,
                        "is_any": is_any, "init": init, "call": call, "ci": ci}
    return out


def token_classes(model: Model):
    """{token class name: dict(text, codepoint | None, init, call)}"""
    base = model.cls(TOK_MOD, "__Token")
    out = {}
    for ci in model.module(TOK_MOD).classes.values():
        if ci is base or not ci.is_subclass_of(base):
            continue
        init, call = _super_init_call(ci)
        if call is None or not call.args:
            raise AnalysisError(f"token {ci.name}: no constant passed to __Token.__init__")
        text = fold_str(model, init, call.args[0])
        if text is None:
            raise AnalysisError(f"token {ci.name}: text is not a constant")
        cp = None
        try:
            tree = parse_regex(text, 0)[0]
            if len(tree) == 1 and tree[0][0] == "LITERAL":
                cp = tree[0][1]
        except re.error:
            cp = None
        out[ci.name] = {"text": text, "codepoint": cp, "init": init, "call": call, "ci": ci}
    return out


# ---------------------------------------------------------------------------
_CATS = {
    "CATEGORY_DIGIT": lambda c: c.isdigit() if ord(c) > 127 else c in "0123456789",
    "CATEGORY_SPACE": lambda c: c.isspace() if ord(c) > 127 else c in " \t\n\r\x0b\x0c",
    "CATEGORY_WORD": lambda c: (c.isalnum() or c == "_"),
}


def member_fn(text: str, flags=0):
    """text must be a one-character matcher (class, shorthand, escaped or plain single character, '.'):
    -> (predicate over characters, uses_category) or None."""
    try:
        tree = parse_regex(text, flags)[0]
    except re.error:
        return None
    if len(tree) != 1:
        return None
    node = tree[0]
    kind = node[0]
    if kind == "LITERAL":
        return (lambda c, v=node[1]: ord(c) == v), False
    if kind == "NOT_LITERAL":
        return (lambda c, v=node[1]: ord(c) != v), False
    if kind == "ANY":
        return (lambda c: True), False
    if kind != "IN":
        return None
    items = list(node[1])
    neg = bool(items) and items[0][0] == "NEGATE"
    if neg:
        items = items[1:]
    preds = []
    uses_cat = False
    for it in items:
        if it[0] == "LITERAL":
            preds.append(lambda c, v=it[1]: ord(c) == v)
        elif it[0] == "RANGE":
            preds.append(lambda c, a=it[1][0], b=it[1][1]: a <= ord(c) <= b)
        elif it[0] == "CATEGORY":
            uses_cat = True
            name = str(it[1])
            base = name.replace("_NOT", "")
            fn = _CATS.get(base)
            if fn is None:
                return None
            if "_NOT_" in name:
                preds.append(lambda c, fn=fn: not fn(c))
            else:
                preds.append(fn)
        else:
            return None
    return (lambda c: any(p(c) for p in preds) != neg), uses_cat


def denotes(text: str, want_intervals, want_neg: bool, flags=0):
    return _denotes(text, tuple(tuple(x) for x in want_intervals), bool(want_neg), flags)


@functools.lru_cache(maxsize=200000)
def _denotes(text: str, want_intervals, want_neg: bool, flags=0):
    """Does the one-character matcher `text` denote exactly the set (intervals, polarity)?  When the text uses a
    Unicode-aware shorthand (\\d \\s \\w) only ASCII is compared (the property leaves the rest unspecified).
    -> (ok, explanation)"""
    mf = member_fn(text, flags)
    if mf is None:
        return False, f"{text!r} is not a single-character matcher"
    pred, uses_cat = mf
    probe = set(range(0, 128))
    if not uses_cat:
        for a, b in want_intervals:
            for x in (a - 1, a, a + 1, (a + b) // 2, b - 1, b, b + 1):
                if 0 <= x <= MAXU and not (0xD800 <= x <= 0xDFFF):
                    probe.add(x)
        probe.update([0xE9, 0x3B1, 0x4E00, 0xFFFF, 0x10000, MAXU])

    def want(cp):
        return any(a <= cp <= b for a, b in want_intervals) != want_neg
    bad = [cp for cp in sorted(probe) if pred(chr(cp)) != want(cp)]
    if bad:
        ex = ", ".join(f"U+{cp:04X}({'in' if pred(chr(cp)) else 'out'})" for cp in bad[:6])
        return False, f"{text!r} differs from the requested set at {ex}"
    return True, ""
