"""E6 - algebraic interpretation of the meta constructors (essentials.py).

The code of pregex.meta.essentials is walked by the abstract interpreter, but every call
into pregex.core (classes, operators, quantifiers, assertions, groups, Pregex methods) is
given its *documented denotation* in a small regular-expression algebra with look-around
and boundary nodes (the implementation of those operators is the business of C01-C10).
The resulting term can be (a) compared structurally, (b) enumerated when it denotes a finite
language, (c) matched against candidate strings (look-arounds honoured).
"""
from __future__ import annotations

import itertools
from dataclasses import dataclass
from typing import Optional, Tuple

from .absdom import PregexHooks
from .classsets import named_classes, token_classes
from .interp import (ClassRef, EnumVal, Incomplete, Interp, Native, NativeMethod, Obj, PyRaise)
from .model import AnalysisError, ClassInfo, FuncInfo, Model

WORD = frozenset("abcdefghijklmnopqrstuvwxyzABCDEFGHIJKLMNOPQRSTUVWXYZ0123456789_")


# ------------------------------------------------------------------ terms
@dataclass(frozen=True)
class Lit:
    s: str


@dataclass(frozen=True)
class Cls:
    chars: frozenset
    negated: bool = False
    label: str = ""

    def __repr__(self):
        body = "".join(sorted(self.chars)) if len(self.chars) <= 24 else f"{len(self.chars)} chars"
        return f"[{'^' if self.negated else ''}{body}]"


@dataclass(frozen=True)
class Cat:
    items: tuple


@dataclass(frozen=True)
class Alt:
    items: tuple


@dataclass(frozen=True)
class Rep:
    t: object
    lo: int
    hi: Optional[int]
    lazy: bool = False


@dataclass(frozen=True)
class Look:
    behind: bool
    neg: bool
    t: object


@dataclass(frozen=True)
class Bnd:
    kind: str      # 'b' | 'B'


@dataclass(frozen=True)
class Grp:
    t: object
    capture: bool
    name: Optional[str] = None
    flag_i: bool = False


@dataclass(frozen=True)
class Atom:
    sym: str
    info: tuple = ()

    def __repr__(self):
        return f"<{self.sym}>"


EMPTY = Lit("")


def cat(*items):
    out = []
    for it in items:
        if isinstance(it, Cat):
            out.extend(it.items)
        elif it == EMPTY:
            continue
        else:
            out.append(it)
    if not out:
        return EMPTY
    if len(out) == 1:
        return out[0]
    return Cat(tuple(out))


def alt(*items):
    out = []
    for it in items:
        if isinstance(it, Alt):
            out.extend(it.items)
        else:
            out.append(it)
    if len(out) == 1:
        return out[0]
    return Alt(tuple(out))


def show(t, depth=0):
    if isinstance(t, Lit):
        return repr(t.s)
    if isinstance(t, Cat):
        return "(" + " ".join(show(x) for x in t.items) + ")"
    if isinstance(t, Alt):
        return "(" + " | ".join(show(x) for x in t.items) + ")"
    if isinstance(t, Rep):
        return f"{show(t.t)}{{{t.lo},{'' if t.hi is None else t.hi}}}{'?' if t.lazy else ''}"
    if isinstance(t, Look):
        return f"(?{'<' if t.behind else ''}{'!' if t.neg else '='}{show(t.t)})"
    if isinstance(t, Bnd):
        return "\\" + t.kind
    if isinstance(t, Grp):
        return f"({'?P<' + t.name + '>' if t.name else ('' if t.capture else '?:')}{show(t.t)})"
    return repr(t)


# ------------------------------------------------------------------ semantics
class Unbounded(Exception):
    pass


def gen(t, cap=400000):
    """The finite language of a look-around-free reading of t (look-arounds/boundaries = epsilon)."""
    if isinstance(t, Lit):
        return {t.s}
    if isinstance(t, Atom):
        return {t.sym}
    if isinstance(t, Cls):
        if t.negated or len(t.chars) > 128:
            raise Unbounded(f"class {t!r}")
        return set(t.chars)
    if isinstance(t, Cat):
        acc = {""}
        for it in t.items:
            g = gen(it, cap)
            acc = {a + b for a in acc for b in g}
            if len(acc) > cap:
                raise Unbounded("language too large")
        return acc
    if isinstance(t, Alt):
        acc = set()
        for it in t.items:
            acc |= gen(it, cap)
        return acc
    if isinstance(t, Rep):
        if t.hi is None:
            raise Unbounded("unbounded repetition")
        g = gen(t.t, cap)
        acc = set()
        cur = {""}
        for k in range(0, t.hi + 1):
            if k >= t.lo:
                acc |= cur
            if k < t.hi:
                cur = {a + b for a in cur for b in g}
                if len(cur) > cap:
                    raise Unbounded("language too large")
        return acc
    if isinstance(t, (Look, Bnd)):
        return {""}
    if isinstance(t, Grp):
        return gen(t.t, cap)
    raise Unbounded(f"term {type(t).__name__}")


def _isword(c):
    return c in WORD


def ends(t, s, i):
    """Set of end positions of matches of t in s starting at i."""
    if isinstance(t, Lit):
        return {i + len(t.s)} if s.startswith(t.s, i) else set()
    if isinstance(t, Atom):
        return {i + len(t.sym)} if s.startswith(t.sym, i) else set()
    if isinstance(t, Cls):
        if i < len(s) and ((s[i] in t.chars) != t.negated):
            return {i + 1}
        return set()
    if isinstance(t, Cat):
        cur = {i}
        for it in t.items:
            nxt = set()
            for j in cur:
                nxt |= ends(it, s, j)
            cur = nxt
            if not cur:
                break
        return cur
    if isinstance(t, Alt):
        out = set()
        for it in t.items:
            out |= ends(it, s, i)
        return out
    if isinstance(t, Rep):
        out = set()
        cur = {i}
        k = 0
        seen = set()
        while cur and (t.hi is None or k <= t.hi):
            if k >= t.lo:
                out |= cur
            if t.hi is not None and k == t.hi:
                break
            nxt = set()
            for j in cur:
                nxt |= ends(t.t, s, j)
            key = frozenset(nxt)
            if nxt <= seen and k >= t.lo:
                break
            seen |= nxt
            cur = nxt
            k += 1
            if k > len(s) + 2 and t.hi is None:
                break
        return out
    if isinstance(t, Look):
        if t.behind:
            ok = any(i in ends(t.t, s, k) for k in range(0, i + 1))
        else:
            ok = bool(ends(t.t, s, i))
        return {i} if ok != t.neg else set()
    if isinstance(t, Bnd):
        left = i > 0 and _isword(s[i - 1])
        right = i < len(s) and _isword(s[i])
        at = left != right
        return {i} if at == (t.kind == "b") else set()
    if isinstance(t, Grp):
        return ends(t.t, s, i)
    raise Incomplete(f"matcher: term {type(t).__name__}")


def fullmatch(t, s):
    return len(s) in ends(t, s, 0)


def language(t, cap=400000):
    """Exact finite language: candidates from gen(), filtered by the matcher (look-arounds honoured)."""
    return {s for s in gen(t, cap) if fullmatch(t, s)}


def flatten(t):
    """Top-level sequence with exact repetitions unrolled and groups dropped."""
    if isinstance(t, Cat):
        out = []
        for it in t.items:
            out.extend(flatten(it))
        return out
    if isinstance(t, Rep) and t.hi is not None and t.lo == t.hi and t.lo <= 16:
        return flatten(t.t) * t.lo
    if isinstance(t, Grp) and not t.capture and not t.flag_i:
        return flatten(t.t)
    if t == EMPTY:
        return []
    return [t]


def strip_looks(t):
    """(leading look-arounds/boundaries, core items, trailing ones) of the top-level sequence."""
    seq = flatten(t)
    lead, trail = [], []
    while seq and isinstance(seq[0], (Look, Bnd)):
        lead.append(seq.pop(0))
    while seq and isinstance(seq[-1], (Look, Bnd)):
        trail.insert(0, seq.pop())
    return lead, seq, trail


# ------------------------------------------------------------------ text <-> term (for string-level composition in meta code)
_META = set(".^$*+?{}[]()|\\")


def _esc(c):
    return "\\" + c if c in _META else c


def _esc_cls(c):
    return "\\" + c if c in "\\]^-[" else c


def to_text(t, ctx="top"):
    """Regex text of a term with exactly the groups precedence requires (what the core DSL would emit)."""
    if isinstance(t, Lit):
        s = "".join(_esc(c) for c in t.s)
        return f"(?:{s})" if ctx == "rep" and len(t.s) != 1 else s
    if isinstance(t, Atom):
        return chr(0xE100 + (sum(map(ord, t.sym)) % 200))
    if isinstance(t, Cls):
        if t.negated and not t.chars:
            return "."
        return "[" + ("^" if t.negated else "") + "".join(_esc_cls(c) for c in sorted(t.chars)) + "]"
    if isinstance(t, Cat):
        s = "".join(to_text(x, "cat") for x in t.items)
        return f"(?:{s})" if ctx == "rep" else s
    if isinstance(t, Alt):
        s = "|".join(to_text(x, "top") for x in t.items)
        return f"(?:{s})" if ctx in ("cat", "rep") else s
    if isinstance(t, Rep):
        q = "{%d,%s}" % (t.lo, "" if t.hi is None else t.hi)
        s = to_text(t.t, "rep") + q + ("?" if t.lazy else "")
        return f"(?:{s})" if ctx == "rep" else s
    if isinstance(t, Look):
        return f"(?{'<' if t.behind else ''}{'!' if t.neg else '='}{to_text(t.t, 'top')})"
    if isinstance(t, Bnd):
        return "\\" + t.kind
    if isinstance(t, Grp):
        inner = to_text(t.t, "top")
        if t.capture:
            return f"(?P<{t.name}>{inner})" if t.name else f"({inner})"
        return f"(?i:{inner})" if t.flag_i else f"(?:{inner})"
    raise Incomplete(f"printer: term {type(t).__name__}")


def from_text(text):
    """Parse regex text (CPython's parser) back into a term; precedence decides the structure."""
    import re as _re
    from .absdom import parse_regex
    try:
        tree = parse_regex(text)[0]
    except _re.error as e:
        raise PyRaise(_re.error, (str(e),))
    return _seq(tree)


def _seq(items):
    out = []
    for it in items:
        x = _node(it)
        if isinstance(x, Lit) and out and isinstance(out[-1], Lit):
            out[-1] = Lit(out[-1].s + x.s)
        else:
            out.append(x)
    return cat(*out)


def _node(it):
    k, v = it
    if k == "LITERAL":
        c = chr(v)
        if 0xE100 <= v < 0xE100 + 200:
            return Atom(f"atom#{v - 0xE100}")
        return Lit(c)
    if k == "NOT_LITERAL":
        return Cls(frozenset(chr(v)), True)
    if k == "ANY":
        return Cls(frozenset(), True, "Any")
    if k == "IN":
        chars, neg = set(), False
        for j in v:
            if j[0] == "NEGATE":
                neg = True
            elif j[0] == "LITERAL":
                chars.add(chr(j[1]))
            elif j[0] == "RANGE":
                if j[1][1] - j[1][0] > 70000:
                    raise Incomplete("range too large")
                chars.update(chr(c) for c in range(j[1][0], j[1][1] + 1))
            elif j[0] == "CATEGORY" and "_NOT_" in str(j[1]) and len(v) == 1:
                base = {"CATEGORY_NOT_DIGIT": set("0123456789"), "CATEGORY_NOT_WORD": set(WORD),
                        "CATEGORY_NOT_SPACE": set(" \t\n\r\x0b\x0c")}.get(str(j[1]))
                if base is None:
                    raise Incomplete(f"category {j[1]}")
                return Cls(frozenset(base), True)
            elif j[0] == "CATEGORY":
                name = str(j[1])
                base = {"CATEGORY_DIGIT": set("0123456789"), "CATEGORY_WORD": set(WORD), "CATEGORY_SPACE": set(" \t\n\r\x0b\x0c")}.get(name)
                if base is None:
                    raise Incomplete(f"category {name}")
                chars |= base
            else:
                raise Incomplete(f"class item {j[0]}")
        return Cls(frozenset(chars), neg)
    if k == "BRANCH":
        return alt(*[_seq(a) for a in v[1]])
    if k in ("MAX_REPEAT", "MIN_REPEAT"):
        lo, hi, body = v
        hi = None if (isinstance(hi, str) or hi >= 4294967295) else hi
        return Rep(_seq(body), lo, hi, k == "MIN_REPEAT" and lo != hi)
    if k in ("ASSERT", "ASSERT_NOT"):
        return Look(v[0] < 0, k == "ASSERT_NOT", _seq(v[1]))
    if k == "AT":
        name = str(v)
        if name == "AT_BOUNDARY":
            return Bnd("b")
        if name == "AT_NON_BOUNDARY":
            return Bnd("B")
        return Atom(name)
    if k == "SUBPATTERN":
        group, add, dele, body = v
        return Grp(_seq(body), group is not None, None, bool(add & 2))
    if k == "GROUPREF":
        return Atom(f"backref{v}")
    raise Incomplete(f"parser: node {k}")


# ------------------------------------------------------------------ DSL denotations
class TermText(Native):
    """str(term): the regex text of a term.  Concatenating it with other text re-parses the result, so that
    string-level composition in meta code gets the structure regex precedence gives it."""

    def __init__(self, t, raw=None):
        self.t = t
        self.raw = raw

    def text(self):
        return self.raw if self.raw is not None else to_text(self.t, "top")

    def sa_str(self, interp):
        return self

    def sa_eq(self, interp, other):
        if isinstance(other, TermText):
            return other.t == self.t or other.text() == self.text()
        if isinstance(other, str):
            return self.text() == other
        return False

    def sa_getattr(self, interp, name):
        if name == "join":
            def join(it, a, kw):
                items = list(it.iterate(a[0]))
                parts = []
                for i, x in enumerate(items):
                    if i:
                        parts.append(self)
                    parts.append(x)
                return join_text(parts) if parts else ""
            return NativeMethod(join)
        raise Incomplete(f"attribute {name} of TermText not modelled")

    def sa_binop(self, interp, op, other, reflected):
        if op not in ("__add__", "__radd__"):
            return NotImplemented
        o = other.text() if isinstance(other, TermText) else other if isinstance(other, str) else None
        if o is None:
            return NotImplemented
        return join_text([o, self] if reflected else [self, o])


def join_text(parts):
    raw = "".join(p.text() if isinstance(p, TermText) else p for p in parts)
    return TermText(from_text(raw), raw)


class MT(Native):
    """A Pregex value in meta mode: wraps a term and implements the documented DSL."""

    def __init__(self, t, env: "MetaEnv", is_global=None, cls_name=None):
        self.t = t
        self.env = env
        self.is_global = is_global
        self.cls_name = cls_name

    def __repr__(self):
        return f"MT({show(self.t)})"

    # -- protocol
    def sa_str(self, interp):
        return TermText(self.t)

    def sa_isinstance(self, interp, ci):
        if ci.name == "Pregex":
            return True
        if self.cls_name is not None:
            c = self.env.find_core_class(self.cls_name)
            return c is not None and ci in c.mro()
        return False

    def sa_isinstance_py(self, interp, t):
        return t is object

    def sa_eq(self, interp, other):
        return other is self

    def sa_getattr(self, interp, name):
        if name == "__class__":
            c = self.env.find_core_class(self.cls_name or "Pregex")
            return ClassRef(c)
        if hasattr(self, "m_" + name):
            fn = getattr(self, "m_" + name)
            return NativeMethod(lambda it, a, kw: fn(*a, **kw))
        raise Incomplete(f"DSL method {name} has no denotation in meta mode")

    def sa_binop(self, interp, op, other, reflected):
        e = self.env
        if op in ("__add__", "__radd__"):
            o = e.term(other)
            return e.mk(cat(o, self.t) if reflected else cat(self.t, o))
        if op in ("__mul__", "__rmul__"):
            return self.m_exactly(other)
        if op in ("__or__", "__ror__"):
            return e.class_op(self, other, "or", reflected)
        if op in ("__sub__", "__rsub__"):
            return e.class_op(self, other, "sub", reflected)
        return NotImplemented

    def sa_unary(self, interp, op):
        import ast
        if isinstance(op, ast.Invert) and isinstance(self.t, Cls):
            return self.env.mk(Cls(self.t.chars, not self.t.negated), is_global=self.is_global, cls_name="__Class")
        raise Incomplete("unary operator on a term")

    # -- DSL
    def _empty(self):
        return self.t == EMPTY

    def m__get_type(self):
        return self.env.type_of(self.t)

    def m__is_repeatable(self):
        return True

    def m__is_global(self):
        return bool(self.is_global)

    # the semi-public text accessors: the term's text with the group the context requires (re-parsing restores the term)
    def m__concat_conditional_group(self):
        return TermText(self.t, to_text(self.t, "cat"))

    def m__quantify_conditional_group(self):
        return TermText(self.t, to_text(self.t, "rep"))

    def m__assert_conditional_group(self):
        return TermText(self.t, to_text(self.t, "cat"))

    def m_concat(self, pre, on_right=True):
        o = self.env.term(pre)
        return self.env.mk(cat(self.t, o) if on_right else cat(o, self.t))

    def m_either(self, pre, on_right=True):
        o = self.env.term(pre)
        if o == EMPTY:
            return self.env.mk(self.t)
        return self.env.mk(alt(self.t, o) if on_right else alt(o, self.t))

    def m_enclose(self, pre):
        o = self.env.term(pre)
        return self.env.mk(cat(o, self.t, o))

    def _rep(self, lo, hi, greedy=True):
        e = self.env
        for v, none_ok in ((lo, False), (hi, True)):
            if v is None and none_ok:
                continue
            if isinstance(v, bool) or not isinstance(v, int):
                raise e.exc("InvalidArgumentTypeException")
            if v < 0:
                raise e.exc("InvalidArgumentValueException")
        if hi is not None and hi < lo:
            raise e.exc("InvalidArgumentValueException")
        if self._empty() or (lo, hi) == (0, 0):
            return e.mk(EMPTY if (lo, hi) == (0, 0) else self.t)
        if (lo, hi) == (1, 1):
            return self
        return e.mk(Rep(self.t, lo, hi, not greedy and lo != hi))

    def m_optional(self, is_greedy=True):
        return self._rep(0, 1, is_greedy)

    def m_indefinite(self, is_greedy=True):
        return self._rep(0, None, is_greedy)

    def m_one_or_more(self, is_greedy=True):
        return self._rep(1, None, is_greedy)

    def m_exactly(self, n):
        if n is None:
            raise self.env.exc("InvalidArgumentTypeException")
        return self._rep(n, n)

    def m_at_least(self, n, is_greedy=True):
        if n is None:
            raise self.env.exc("InvalidArgumentTypeException")
        return self._rep(n, None, is_greedy)

    def m_at_most(self, n, is_greedy=True):
        return self._rep(0, n, is_greedy)

    def m_at_least_at_most(self, n, m, is_greedy=True):
        if n is None:
            raise self.env.exc("InvalidArgumentTypeException")
        return self._rep(n, m, is_greedy)

    def m_capture(self, name=None):
        return self if self._empty() else self.env.mk(Grp(self.t, True, name))

    def m_group(self, is_case_insensitive=False):
        return self if self._empty() else self.env.mk(Grp(self.t, False, None, bool(is_case_insensitive)))

    def _look(self, pre, behind, ahead, neg):
        e = self.env
        o = e.term(pre)
        if o == EMPTY:
            if neg:
                raise e.exc("EmptyNegativeAssertionException")
            return self
        items = []
        if behind:
            items.append(Look(True, neg, o))
        items.append(self.t)
        if ahead:
            items.append(Look(False, neg, o))
        return e.mk(cat(*items))

    def m_followed_by(self, pre):
        return self._look(pre, False, True, False)

    def m_preceded_by(self, pre):
        return self._look(pre, True, False, False)

    def m_enclosed_by(self, pre):
        return self._look(pre, True, True, False)

    def m_not_followed_by(self, pre):
        return self._look(pre, False, True, True)

    def m_not_preceded_by(self, pre):
        return self._look(pre, True, False, True)

    def m_not_enclosed_by(self, pre):
        return self._look(pre, True, True, True)


class MetaEnv:
    """Denotations of the core classes + the hooks that route the interpreter to them."""

    def __init__(self, model: Model, opaque_meta=(), opaque_fn=None):
        self.model = model
        self.opaque_meta = set(opaque_meta)    # names of essentials classes kept as atoms
        self.opaque_fn = opaque_fn             # (class name, args, kwargs) -> Atom
        cache = model.__dict__.setdefault("_metaenv_cache", {})
        if "named" not in cache:
            cache["named"] = named_classes(model)
            cache["tokens"] = token_classes(model)
        self.named = cache["named"]
        self.tokens = cache["tokens"]
        self.ex_mod = model.module("pregex.core.exceptions")

    def find_core_class(self, name):
        for m in self.model.modules.values():
            if m.name.startswith("pregex.core") and name in m.classes:
                return m.classes[name]
        return None

    def exc(self, name):
        ci = self.ex_mod.classes.get(name)
        if ci is None:
            raise AnalysisError(f"anchor vanished: exception class {name}")
        return PyRaise(ci, ())

    def mk(self, t, is_global=None, cls_name=None):
        return MT(t, self, is_global, cls_name)

    def type_of(self, t):
        from .absdom import tval
        if t == EMPTY:
            return tval(self.model, "Empty")
        if isinstance(t, Cls):
            return tval(self.model, "Class")
        if isinstance(t, Lit) and len(t.s) == 1:
            return tval(self.model, "Token")
        if isinstance(t, Grp):
            return tval(self.model, "Group")
        if isinstance(t, Alt):
            return tval(self.model, "Alternation")
        if isinstance(t, Rep):
            return tval(self.model, "Quantifier")
        if isinstance(t, (Look, Bnd)):
            return tval(self.model, "Assertion")
        return tval(self.model, "Other")

    def term(self, v):
        if isinstance(v, str):
            return Lit(v)
        if isinstance(v, MT):
            return v.t
        if isinstance(v, Obj) and "term" in v.fields:
            return v.fields["term"]
        raise PyRaise(self.ex_mod.classes["InvalidArgumentTypeException"], ())

    # -- class algebra (documented meaning: set union / difference on same-polarity classes)
    def class_op(self, a: MT, other, op, reflected):
        if isinstance(other, str):
            if len(other) != 1:
                raise self.exc("CannotBeUnionedException" if op == "or" else "CannotBeSubtractedException")
            o = Cls(frozenset(other))
        else:
            ot = self.term(other)
            if isinstance(ot, Lit) and len(ot.s) == 1:
                o = Cls(frozenset(ot.s))
            elif isinstance(ot, Cls):
                o = ot
            else:
                raise self.exc("CannotBeUnionedException" if op == "or" else "CannotBeSubtractedException")
        x = a.t
        if not isinstance(x, Cls):
            raise Incomplete("class operator on a non-class term")
        l, r = (o, x) if reflected else (x, o)
        if l.negated != r.negated:
            raise self.exc("CannotBeUnionedException" if op == "or" else "CannotBeSubtractedException")
        if op == "or":
            return self.mk(Cls(l.chars | r.chars, l.negated), cls_name="__Class")
        res = l.chars - r.chars
        if not res:
            raise self.exc("EmptyClassException")
        return self.mk(Cls(res, l.negated), cls_name="__Class")

    # -- constructors of pregex.core
    def construct_core(self, interp, ci: ClassInfo, args, kwargs):
        n = ci.name
        mod = ci.module.name
        e = self
        if mod == "pregex.core.pre" and n == "Pregex":
            pattern = args[0] if args else kwargs.get("pattern", "")
            escape = args[1] if len(args) > 1 else kwargs.get("escape", True)
            if isinstance(pattern, TermText):
                return e.mk(pattern.t)
            if not isinstance(pattern, str):
                raise e.exc("InvalidArgumentTypeException")
            if escape:
                return e.mk(Lit(pattern))
            if pattern == "\\b":
                return e.mk(Bnd("b"))
            if pattern == "\\B":
                return e.mk(Bnd("B"))
            raise Incomplete(f"raw pattern {pattern!r} in meta mode")
        if mod == "pregex.core.classes":
            if n in self.named:
                info = self.named[n]
                if info["is_any"]:
                    return e.mk(Cls(frozenset(), True, "Any"), cls_name=n)
                size = sum(b - a + 1 for a, b in info["intervals"])
                if size > 70000:
                    raise Incomplete(f"class {n} too large for enumeration")
                chars = frozenset(chr(c) for a, b in info["intervals"] for c in range(a, b + 1))
                isg = None
                if n in ("AnyWordChar", "AnyButWordChar"):
                    isg = args[0] if args else kwargs.get("is_global", False)
                return e.mk(Cls(chars, info["is_negated_flag"], n), is_global=isg, cls_name=n)
            if n in ("AnyFrom", "AnyButFrom"):
                if not args:
                    raise e.exc("NotEnoughArgumentsException")
                chars = set()
                for a in args:
                    if isinstance(a, str) and len(a) == 1:
                        chars.add(a)
                    elif isinstance(a, (MT, Obj)) and isinstance(e.term(a), Lit) and len(e.term(a).s) == 1:
                        chars.add(e.term(a).s)
                    else:
                        raise e.exc("InvalidArgumentTypeException")
                return e.mk(Cls(frozenset(chars), n == "AnyButFrom", n), cls_name=n)
            if n in ("AnyBetween", "AnyButBetween"):
                if len(args) != 2:
                    raise PyRaise(TypeError, ("AnyBetween arity",))
                cs = []
                for a in args:
                    if isinstance(a, str) and len(a) == 1:
                        cs.append(a)
                    elif isinstance(a, (MT, Obj)) and isinstance(e.term(a), Lit) and len(e.term(a).s) == 1:
                        cs.append(e.term(a).s)
                    else:
                        raise e.exc("InvalidArgumentTypeException")
                if ord(cs[0]) >= ord(cs[1]):
                    raise e.exc("InvalidRangeException")
                return e.mk(Cls(frozenset(chr(c) for c in range(ord(cs[0]), ord(cs[1]) + 1)), n == "AnyButBetween", n), cls_name=n)
            raise Incomplete(f"class {n} has no denotation")
        if mod == "pregex.core.tokens":
            info = self.tokens.get(n)
            if info is None or info["codepoint"] is None:
                raise Incomplete(f"token {n} has no denotation")
            return e.mk(Lit(chr(info["codepoint"])), cls_name=n)
        if mod == "pregex.core.operators":
            ts = [a for a in args]
            if n == "Enclose":
                if not ts:
                    raise PyRaise(TypeError, ("Enclose arity",))
            if not ts:
                return e.mk(EMPTY)
            acc = e.mk(e.term(ts[0]))
            for x in ts[1:]:
                acc = {"Concat": acc.m_concat, "Either": acc.m_either, "Enclose": acc.m_enclose}[n](x)
            return acc
        if mod == "pregex.core.quantifiers":
            pre = e.mk(e.term(args[0] if args else kwargs["pre"]))
            rest = list(args[1:])
            names = {"Optional": ["is_greedy"], "Indefinite": ["is_greedy"], "OneOrMore": ["is_greedy"],
                     "Exactly": ["n"], "AtLeast": ["n", "is_greedy"], "AtMost": ["n", "is_greedy"],
                     "AtLeastAtMost": ["n", "m", "is_greedy"]}[n]
            kw = dict(zip(names, rest))
            kw.update({k: v for k, v in kwargs.items() if k != "pre"})
            meth = {"Optional": pre.m_optional, "Indefinite": pre.m_indefinite, "OneOrMore": pre.m_one_or_more,
                    "Exactly": pre.m_exactly, "AtLeast": pre.m_at_least, "AtMost": pre.m_at_most,
                    "AtLeastAtMost": pre.m_at_least_at_most}[n]
            return meth(**kw)
        if mod == "pregex.core.assertions":
            if n == "WordBoundary":
                return e.mk(Bnd("b"))
            if n == "NonWordBoundary":
                return e.mk(Bnd("B"))
            look = {"FollowedBy": "m_followed_by", "PrecededBy": "m_preceded_by", "EnclosedBy": "m_enclosed_by",
                    "NotFollowedBy": "m_not_followed_by", "NotPrecededBy": "m_not_preceded_by",
                    "NotEnclosedBy": "m_not_enclosed_by"}
            if n in look:
                if len(args) < 2:
                    raise e.exc("NotEnoughArgumentsException")
                acc = e.mk(e.term(args[0]))
                for x in args[1:]:
                    acc = getattr(acc, look[n])(x)
                return acc
            raise Incomplete(f"assertion {n} has no denotation in meta mode")
        if mod == "pregex.core.groups":
            if n == "Capture":
                return e.mk(e.term(args[0])).m_capture(*(args[1:2]), **{k: v for k, v in kwargs.items() if k == "name"})
            if n == "Group":
                return e.mk(e.term(args[0])).m_group(*(args[1:2]))
            raise Incomplete(f"group class {n} has no denotation in meta mode")
        raise Incomplete(f"{mod}.{n} has no denotation")


class MetaHooks(PregexHooks):
    def join_parts(self, interp, parts, node):
        conv = []
        for p in parts:
            if isinstance(p, (str, TermText)):
                conv.append(p)
            else:
                raise Incomplete("f-string over an unsupported object in meta mode")
        return join_text(conv)

    def __init__(self, model: Model, env: MetaEnv):
        super().__init__(model)
        self.env = env
        self.P = model.pregex
        self.p_init = model.method("pregex.core.pre", "Pregex", "__init__")

    def intercept(self, interp, target, args, kwargs, node):
        env = self.env
        if isinstance(target, ClassInfo):
            if target.module.name.startswith("pregex.core") and target.module.name != "pregex.core.exceptions":
                return env.construct_core(interp, target, args, kwargs)
            if target.module.name == "pregex.meta.essentials" and target.name in env.opaque_meta:
                return env.mk(env.opaque_fn(target.name, args, kwargs))
            return NotImplemented
        if isinstance(target, FuncInfo) and target.cls is self.P:
            if target is self.p_init:
                o = args[0]
                pattern = args[1] if len(args) > 1 else kwargs.get("pattern", "")
                if isinstance(pattern, TermText):
                    o.fields["term"] = pattern.t
                elif isinstance(pattern, str):
                    o.fields["term"] = Lit(pattern)
                else:
                    raise env.exc("InvalidArgumentTypeException")
                return None
            if args and isinstance(args[0], Obj) and "term" in args[0].fields:
                mt = env.mk(args[0].fields["term"])
                name = target.node.name
                if name == "__str__":
                    return TermText(mt.t)
                if name in ("__add__", "__radd__", "__mul__", "__rmul__"):
                    return mt.sa_binop(interp, name, args[1], name.startswith("__r"))
                if name == "_to_pregex":
                    return NotImplemented
                fn = getattr(mt, "m_" + name, None)
                if fn is None:
                    raise Incomplete(f"Pregex.{name} on a meta object has no denotation")
                return fn(*args[1:], **kwargs)
            if target.node.name == "_to_pregex":
                v = args[-1]
                if isinstance(v, str):
                    return env.mk(Lit(v))
                if isinstance(v, (MT,)) or (isinstance(v, Obj) and "term" in v.fields):
                    return v
                raise env.exc("InvalidArgumentTypeException")
        return NotImplemented


def meta_interp(model: Model, opaque_meta=(), opaque_fn=None, fuel=None):
    """An interpreter in meta mode; one instance stands for one process (module- and class-level objects live on)."""
    env = MetaEnv(model, opaque_meta, opaque_fn)
    return Interp(model, MetaHooks(model, env), **({"fuel": fuel} if fuel else {}))


def build(model: Model, clsname: str, args=(), kwargs=None, opaque_meta=(), opaque_fn=None, module="pregex.meta.essentials", interp=None):
    """Construct a meta class in meta mode -> ('term', term) | ('raise', PyRaise).  `interp`: build inside that
    (longer-lived) interpreter instead of a fresh one."""
    it = interp if interp is not None else meta_interp(model, opaque_meta, opaque_fn)
    ci = model.cls(module, clsname)
    try:
        o = it.construct(ci, list(args), dict(kwargs or {}))
    except PyRaise as e:
        return "raise", e
    if isinstance(o, MT):
        return "term", o.t
    if "term" not in o.fields:
        raise Incomplete(f"{clsname}: constructor did not reach Pregex.__init__")
    return "term", o.fields["term"]


def call_static(model: Model, clsname: str, meth: str, args=(), module="pregex.meta.essentials"):
    """Interpret a (static-like) helper of a meta class in meta mode."""
    from .interp import FuncRef
    env = MetaEnv(model)
    hooks = MetaHooks(model, env)
    it = Interp(model, hooks)
    f = model.method(module, clsname, meth)
    try:
        v = it.call(FuncRef(f), list(args))
    except PyRaise as e:
        return "raise", e
    if isinstance(v, MT):
        return "term", v.t
    if isinstance(v, Obj) and "term" in v.fields:
        return "term", v.fields["term"]
    return "value", v
