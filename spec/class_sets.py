"""Oracle for C06 R-CLASSCONST: documented denotation of every named class and token.

Sets, never source text: respelling a constant in classes.py is not a change.  Sources are the
class docstrings / module documentation of pregex.core.classes and pregex.core.tokens; where
the documentation names a stdlib notion the stdlib constant is used.
"""
import string


def _iv(chars):
    cps = sorted(set(ord(c) for c in chars))
    out = []
    for c in cps:
        if out and c == out[-1][1] + 1:
            out[-1][1] = c
        else:
            out.append([c, c])
    return [tuple(x) for x in out]


# pair name -> intervals of the REGULAR class; the AnyBut* twin must be its complement
CLASSES = {
    "Letter": _iv(string.ascii_letters),                       # "any character from the Latin alphabet"
    "LowercaseLetter": _iv(string.ascii_lowercase),
    "UppercaseLetter": _iv(string.ascii_uppercase),
    "Digit": _iv(string.digits),                               # "any numeric character" (extra \d code points unspecified)
    "WordChar": _iv(string.ascii_letters + string.digits + "_"),
    "Punctuation": _iv(string.punctuation),                    # "punctuation character as defined within the ASCII table"
    "Whitespace": _iv(string.whitespace),
    "GermanLetter": _iv(string.ascii_letters + "äöüßÄÖÜẞ"),
    "GreekLetter": _iv("Ά") + [(0x0388, 0x03CE)],              # 'Έ'-'ώ'; Ano Teleia U+0387 deliberately excluded (source comment)
    "CyrillicLetter": [(0x0400, 0x04FF)],
    "CJK": [(0x4E00, 0x9FD5)],
    "HebrewLetter": [(0x0590, 0x05FF)],
    "KoreanLetter": [(0x3131, 0x314E), (0xAC00, 0xD7A3)],
}

# token class -> the one code point its docstring shows
TOKENS = {
    "Backslash": 0x5C, "Bullet": 0x2022, "CarriageReturn": 0x0D, "Copyright": 0xA9, "Division": 0xF7,
    "Dollar": 0x24, "Euro": 0x20AC, "FormFeed": 0x0C, "Infinity": 0x221E, "Multiplication": 0xD7,
    "Newline": 0x0A, "Pound": 0xA3, "Registered": 0xAE, "Rupee": 0x20B9, "Space": 0x20, "Tab": 0x09,
    "Trademark": 0x2122, "VerticalTab": 0x0B, "WhiteBullet": 0x25E6, "Yen": 0xA5,
}
