#!/venv/bin/python
"""Freeze the PUBLIC call signatures of the pinned tree into spec/signatures.json (reference table of rule R-SIGNATURE).

usage: tools/gen_signatures.py [--root /repo]
Run once on the confirmed tree; the table is data of the checker (never written at check time)."""
import argparse, json, os, sys
sys.path.insert(0, os.path.dirname(os.path.dirname(os.path.abspath(__file__))))
from sa.model import Model
from sa.rules.signatures import public_entries, describe

ap = argparse.ArgumentParser()
ap.add_argument("--root", default="/repo")
a = ap.parse_args()
m = Model(a.root)
table = {key: describe(f) for key, f in sorted(public_entries(m).items())}
out = os.path.join(os.path.dirname(os.path.dirname(os.path.abspath(__file__))), "spec", "signatures.json")
json.dump(table, open(out, "w"), indent=1, sort_keys=True)
print(f"wrote {out}: {len(table)} public entry points")
