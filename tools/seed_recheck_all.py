#!/venv/bin/python
"""Re-run, in parallel and on scratch trees only, every stored seeded change (seeded/*/) against the current /verif:
the check of its own property plus every check that detected it at intake.  The demo / test-suite confirmation of the
intake is not repeated (it does not depend on /verif).  A seed counts as detected when at least one check exits 1 with a
VIOLATION line; the stored `detected_by` is compared with the present result and differences are printed.  Nothing is
written to seeded/*/meta.json unless --update is given (then `detected_by` / `analysis_errors` are re-recorded).
usage: tools/seed_recheck_all.py [--only NAME,..] [--workers N] [--update]"""
import argparse, concurrent.futures as cf, json, os, re, shutil, subprocess, sys, tempfile

VERIF = os.path.dirname(os.path.dirname(os.path.abspath(__file__)))


def sh(cmd, cwd=None):
    p = subprocess.run(cmd, shell=True, cwd=cwd, capture_output=True, text=True)
    return p.returncode, p.stdout + p.stderr


def one(name):
    d = os.path.join(VERIF, "seeded", name)
    meta = json.load(open(os.path.join(d, "meta.json")))
    pid = meta["property"]
    m = re.search(r"benign/([^/]+)/", meta.get("base", ""))
    checks = sorted(set(meta.get("detected_by", {})) | {pid})
    scratch = tempfile.mkdtemp(prefix="seedall-")
    detected, errors = {}, {}
    try:
        rc, out = sh(f"git -C /repo archive HEAD src | tar -x -C {scratch}")
        assert rc == 0, out
        if m:
            rc, out = sh(f"patch -s -p1 < {os.path.join(VERIF, 'benign', m.group(1), 'patch.diff')}", cwd=scratch)
            assert rc == 0, (name, out)
        rc, out = sh(f"patch -s -p1 < {os.path.join(d, 'patch.diff')}", cwd=scratch)
        if rc != 0:
            return name, pid, None, {"patch": out[-300:]}, meta
        for c in checks:
            if c == "C15":
                continue
            rc, out = sh(f"./check {c} --no-evidence --no-selftest --tier quick --jobs 3 --root {scratch}", cwd=VERIF)
            rules = sorted({l.split("rule=")[1].split()[0] for l in out.splitlines() if l.strip().startswith("violation rule=")})
            if rc == 1:
                detected[c] = {"exit": 1, "rules": rules}
            elif rc != 0:
                errors[c] = {"exit": rc, "lines": [l.strip()[:240] for l in out.splitlines() if "ANALYSIS-ERROR" in l][:2]}
    finally:
        shutil.rmtree(scratch, ignore_errors=True)
    return name, pid, detected, errors, meta


def main():
    ap = argparse.ArgumentParser()
    ap.add_argument("--only", default=None)
    ap.add_argument("--workers", type=int, default=5)
    ap.add_argument("--update", action="store_true")
    a = ap.parse_args()
    names = sorted(n for n in os.listdir(os.path.join(VERIF, "seeded")) if os.path.exists(os.path.join(VERIF, "seeded", n, "meta.json")))
    if a.only:
        names = [n for n in names if n in a.only.split(",")]
    missed, lost, n_det = [], [], 0
    with cf.ThreadPoolExecutor(max_workers=a.workers) as ex:
        for name, pid, detected, errors, meta in ex.map(one, names):
            if detected is None:
                print(f"{name}: PATCH DOES NOT APPLY {errors}")
                missed.append(name)
                continue
            before = set(meta.get("detected_by", {}))
            now = set(detected)
            flag = ""
            if not now:
                missed.append(name)
                flag = "  <-- NOT DETECTED"
            else:
                n_det += 1
            if before - now:
                lost.append((name, sorted(before - now)))
                flag += f"  (no longer fired: {sorted(before - now)})"
            print(f"{name}: detected_by={ {k: v['rules'] for k, v in detected.items()} } errors={list(errors)}{flag}", flush=True)
            if a.update:
                meta["detected_by"], meta["analysis_errors"] = detected, errors
                json.dump(meta, open(os.path.join(VERIF, "seeded", name, "meta.json"), "w"), indent=1, ensure_ascii=False)
    print(f"SUMMARY: {n_det} of {len(names)} seeded changes detected; not detected: {missed}; checks that no longer fire: {lost}")
    sys.exit(1 if missed else 0)


if __name__ == "__main__":
    main()
