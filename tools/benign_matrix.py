#!/venv/bin/python
"""Run every quick check against scratch copies of /repo with each stored refactoring (benign/<name>/patch.diff)
applied; print the (refactoring, check) pairs that do not exit 0.  Scratch trees live under a mktemp directory and are
removed afterwards.  usage: tools/benign_matrix.py [--only NAME,..] [--checks C01,..] [--keep DIR]"""
import argparse, concurrent.futures as cf, os, shutil, subprocess, sys, tempfile

VERIF = os.path.dirname(os.path.dirname(os.path.abspath(__file__)))
ALL = ["C01", "C02", "C03", "C04", "C05", "C06", "C07", "C08", "C09", "C10", "C11", "C12", "C13", "C14", "C16", "C17", "C18", "C19", "C20"]


def run(args):
    name, root, pid = args
    p = subprocess.run([os.path.join(VERIF, "check"), pid, "--root", root, "--no-evidence", "--jobs", "2"], capture_output=True, text=True, cwd=VERIF)
    lines = [l.strip()[:260] for l in (p.stdout + p.stderr).splitlines() if "violation rule=" in l or "ANALYSIS-ERROR" in l]
    return name, pid, p.returncode, lines[:4]


def main():
    ap = argparse.ArgumentParser()
    ap.add_argument("--only", default=None)
    ap.add_argument("--checks", default=None)
    ap.add_argument("--dir", default=None, help="use existing scratch trees DIR/<name> (not removed)")
    a = ap.parse_args()
    names = sorted(os.listdir(os.path.join(VERIF, "benign")))
    if a.only:
        names = [n for n in names if n in a.only.split(",")]
    base = a.dir or tempfile.mkdtemp(prefix="benign-")
    try:
        jobs = []
        for n in names:
            root = os.path.join(base, n)
            if not a.dir or not os.path.isdir(root):
                os.makedirs(root, exist_ok=True)
                subprocess.run(f"git -C /repo archive HEAD src | tar -x -C {root}", shell=True, check=True)
                subprocess.run(f"patch -s -p1 < {os.path.join(VERIF, 'benign', n, 'patch.diff')}", shell=True, check=True, cwd=root)
            for pid in (a.checks.split(",") if a.checks else ALL):
                jobs.append((n, root, pid))
        bad = 0
        with cf.ThreadPoolExecutor(max_workers=8) as ex:
            for name, pid, rc, lines in ex.map(run, jobs):
                if rc != 0:
                    bad += 1
                    print(f"{name} {pid} exit={rc}")
                    for l in lines:
                        print("     ", l)
        print(f"benign matrix: {len(jobs) - bad} silent, {bad} not silent, of {len(jobs)}")
        return 1 if bad else 0
    finally:
        if not a.dir:
            shutil.rmtree(base, ignore_errors=True)


if __name__ == "__main__":
    sys.exit(main())
