#!/bin/bash
# Re-run every stored seeded change against the current /repo and /verif (own property's check plus --extra).
cd /verif
for d in seeded/*/; do
  grep -q '"base"' $d/meta.json && continue      # made on top of a refactoring: tools/seed5_recheck.sh
  n=$(basename $d); pid=$(python3 -c "import json;print(json.load(open('$d/meta.json'))['property'])")
  prev=$(python3 -c "import json;print(','.join(sorted(set(json.load(open('$d/meta.json')).get('detected_by',{}))|{'$pid'})))")
  /venv/bin/python tools/seed_intake.py $n /nonexistent $pid --checks $prev --no-copy 2>&1 | python3 -c "
import sys,json
d=json.load(sys.stdin); print(d['name'], 'confirmed=',d['confirmed'], 'detected_by=', {k:v['rules'] for k,v in d['detected_by'].items()}, 'errors=', list(d['analysis_errors']))"
done
