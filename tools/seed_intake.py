#!/venv/bin/python
"""Intake of a seeded breaking change produced by an independent sub-agent.

usage: tools/seed_intake.py <seed-name> <worktree> <property-id> [--checks C01,C02,...]

1. copies <worktree>/_seed/{patch.diff,demo.py,meta.json} to /verif/seeded/<seed-name>/
2. confirms in a fresh scratch worktree of /repo (under mktemp, removed afterwards):
      clean tree: demo exits 0;  patched tree: baseline test-suite passes (689) and demo exits non-zero
3. applies the patch to /repo, runs the quick checks (all, or --checks), reverts /repo (git checkout -- .)
4. records everything in meta.json ("confirmed", "detected_by", "ran")
"""
import argparse
import json
import os
import shutil
import subprocess
import sys
import tempfile

VERIF = os.path.dirname(os.path.dirname(os.path.abspath(__file__)))
ALL = ["C01", "C02", "C03", "C04", "C05", "C06", "C07", "C08", "C09", "C10", "C11", "C12", "C13", "C14", "C16", "C17", "C18", "C19", "C20"]


def sh(cmd, cwd=None, env=None, timeout=900):
    p = subprocess.run(cmd, shell=True, cwd=cwd, env=env, capture_output=True, text=True, timeout=timeout)
    return p.returncode, (p.stdout + p.stderr)


def main():
    ap = argparse.ArgumentParser()
    ap.add_argument("name")
    ap.add_argument("worktree")
    ap.add_argument("pid")
    ap.add_argument("--checks", default=None)
    ap.add_argument("--no-copy", action="store_true", help="keep the files already in /verif/seeded/<name>/ (e.g. a ported patch)")
    a = ap.parse_args()
    src = os.path.join(a.worktree, "_seed")
    dst = os.path.join(VERIF, "seeded", a.name)
    os.makedirs(dst, exist_ok=True)
    for fn in ("patch.diff", "demo.py", "meta.json"):
        if not a.no_copy and os.path.exists(os.path.join(src, fn)):
            shutil.copy(os.path.join(src, fn), os.path.join(dst, fn))
    meta_p = os.path.join(dst, "meta.json")
    try:
        meta = json.load(open(meta_p))
    except Exception:
        meta = {}
    meta["property"] = a.pid
    ran = []
    # -- confirmation in a scratch worktree
    scratch = tempfile.mkdtemp(prefix="seedchk-")
    os.rmdir(scratch)
    rc, out = sh(f"git -C /repo worktree add -q --detach {scratch} HEAD")
    assert rc == 0, out
    env = dict(os.environ, PYTHONPATH=os.path.join(scratch, "src"))
    try:
        rc_clean, out_clean = sh(f"/venv/bin/python -W ignore {os.path.join(dst, 'demo.py')}", cwd=scratch, env=env)
        ran.append(f"clean tree: demo.py -> exit {rc_clean}")
        rc, out = sh(f"git apply {os.path.join(dst, 'patch.diff')}", cwd=scratch)
        ran.append(f"git apply patch.diff -> exit {rc}")
        applies = rc == 0
        rc_t, out_t = sh("/venv/bin/python -W ignore -m pytest -q -p no:cacheprovider 2>&1 | tail -1", cwd=scratch, env=env)
        ran.append(f"patched tree: pytest -> {out_t.strip()}")
        rc_demo, out_demo = sh(f"/venv/bin/python -W ignore {os.path.join(dst, 'demo.py')}", cwd=scratch, env=env)
        ran.append(f"patched tree: demo.py -> exit {rc_demo}: {out_demo.strip().splitlines()[-1][:160] if out_demo.strip() else ''}")
        rc_c, out_c = sh("/venv/bin/python -W ignore -m compileall -q src", cwd=scratch, env=env)
    finally:
        sh(f"git -C /repo worktree remove --force {scratch}")
        shutil.rmtree(scratch, ignore_errors=True)
    confirmed = applies and rc_clean == 0 and rc_demo != 0 and "689 passed" in out_t and rc_c == 0
    meta["confirmed"] = bool(confirmed)
    # -- run our checks against it
    detected = {}
    if confirmed:
        rc, out = sh("git -C /repo status --porcelain")
        assert out.strip() == "", "/repo is not clean: " + out
        rc, out = sh(f"git -C /repo apply {os.path.join(dst, 'patch.diff')}")
        assert rc == 0, out
        try:
            checks = a.checks.split(",") if a.checks else ALL
            for pid in checks:
                rc, out = sh(f"./check {pid} --no-evidence --tier quick", cwd=VERIF)
                rules = sorted({l.split("rule=")[1].split()[0] for l in out.splitlines() if l.strip().startswith("violation rule=")})
                detected[pid] = {"exit": rc, "rules": rules}
        finally:
            sh("git -C /repo checkout -- .")
        rc, out = sh("git -C /repo status --porcelain")
        assert out.strip() == "", "/repo not restored: " + out
    meta["detected_by"] = {k: v for k, v in detected.items() if v["exit"] == 1}
    meta["analysis_errors"] = {k: v for k, v in detected.items() if v["exit"] == 2}
    meta["intake_ran"] = ran
    json.dump(meta, open(meta_p, "w"), indent=1, ensure_ascii=False)
    print(json.dumps({"name": a.name, "confirmed": confirmed, "detected_by": meta["detected_by"],
                      "analysis_errors": meta["analysis_errors"], "ran": ran}, indent=1))


if __name__ == "__main__":
    main()
