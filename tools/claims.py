"""Claims table: which properties have a check, at what level, by which technique."""
_PENDING = "check not built yet in this round (design in DESIGN.md section 3); listed so that no property is silently unclaimed"

CLAIMS = {
    "C04": {
        "text": "Complete case analysis of a finite abstraction: all 16 quantifier entry points x all order types of (n, m) x laziness x receiver kinds are walked by an abstract interpreter over /repo's syntax trees and compared, by parsed meaning, with a specification function; the sufficiency of the order-type domain is re-verified syntactically on every run.",
        "note": "Trusts CPython's ast and re._parser and the /verif/sa interpreter; operand type tags are abstract inputs (Pregex.__infer_type is not interpreted); re's repetition semantics assumed.",
        "technique": "abstract interpretation of the AST with trace partitioning over an order-type domain + regex-parser oracle",
    },
}

NOT_APPLICABLE = {
    "C15": "numeric range / leading-zero semantics of a digit-by-digit generator over unbounded run-time integers; no finite abstraction of (start, end) exists, so a static check would be a run-time test of a re-implementation",
}
for _p in ["C01","C02","C03","C05","C06","C07","C08","C09","C10","C11","C12","C13","C14","C16","C17","C18","C19","C20"]:
    if _p not in CLAIMS:
        NOT_APPLICABLE[_p] = _PENDING
