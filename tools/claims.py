"""Claims table: which properties have a check, at what level, by which technique."""
_PENDING = "check not built yet in this round (design in DESIGN.md section 3); listed so that no property is silently unclaimed"

CLAIMS = {
    "C04": {
        "text": "Complete case analysis of a finite abstraction: all 16 quantifier entry points x all order types of (n, m) x laziness x receiver kinds are walked by an abstract interpreter over /repo's syntax trees and compared, by parsed meaning, with a specification function; the sufficiency of the order-type domain is re-verified syntactically on every run.",
        "note": "Trusts CPython's ast and re._parser and the /verif/sa interpreter; operand type tags are abstract inputs (Pregex.__infer_type is not interpreted); re's repetition semantics assumed.",
        "technique": "abstract interpretation of the AST with trace partitioning over an order-type domain + regex-parser oracle",
    },
    "C02": {
        "text": "Decides the structural core of automatic grouping for all operand categories: the grouping accessors are evaluated per type tag against the minimum that regex precedence requires (R-TABLE); every non-quantifier builder (15 methods + Conditional) is walked by the abstract interpreter for every receiver type x argument type and its emitted text must parse, with CPython's parser, to the tree of the fully parenthesised composition (R-HOLE); every class/operator spelling must emit what the method emits (R-DELEG); depth-2 compositions over adversarial leaves with Pregex.__infer_type interpreted (no type oracle) must keep every operand intact (R-COMPOSE: emitter/classifier agreement on a generated family).",
        "note": "Whether Pregex.__infer_type assigns the right type tag to ARBITRARY run-time text is not decided; R-COMPOSE decides it on the generated family (about 1600 depth-1 expressions x 12 contexts), so coverage there is not exhaustive. Witnesses per syntactic category are representative because a syntactic scan shows builders look at operand text only via emission, prefix tests and constant rewrites. Trusts ast, re._parser, /verif/sa.",
        "technique": "abstract interpretation of builder ASTs over type-tag x witness domain + syntax-tree equality with the parenthesised reference",
    },
    "C05": {
        "text": "Complete case analysis: the Empty abstract operand is substituted in every operand position the property names (16 quantifier entries x all bounds, capture/group, concat/+/Concat, enclose, later alternative of either, 6 look-arounds in method and class form, __Operator with 0/1/many operands) and the interpreter's outcome must be the other operand itself, the empty pattern, or EmptyNegativeAssertionException.",
        "note": "The classification '' -> Empty is read off the first branch of __infer_type (checked structurally on every run); aliasing safety of `return self` rests on C20. Trusts ast, re._parser, /verif/sa.",
        "technique": "abstract interpretation of builder ASTs with the Empty operand in each position",
    },
    "C09": {
        "text": "R-REPEAT: raise-iff-can-repeat for all 16 quantifier entry points x bounds x receiver kinds (projection of C04's outcome table). R-FLAGSRC: who-may-write rule for the repeatable flag and return-shape rule of __infer_type. R-RECOG: every assertion emitter's template (walked on operand witnesses) is accepted by the matching recogniser constant and rejected by the other. R-REPEAT-LIT: with the classifier interpreted, repetition is refused exactly for direct anchors / positive look-arounds over the generated family of C02 R-COMPOSE.",
        "note": "Not decided: false positives/negatives of the recognisers on arbitrary run-time text (e.g. literals ending in '$'), bare anchors from the empty pattern. Trusts ast, re._parser, re, /verif/sa.",
        "technique": "abstract interpretation (outcome table) + ownership rule on a field + writer/reader agreement of templates and regex constants",
    },
    "C11": {
        "text": "The three dual-path sites are walked over an abstract `re` layer from both cache states: same entry point (search/fullmatch/finditer), same text, instance pattern and MULTILINE|DOTALL on the uncompiled arm, results passed through (R-DUAL); flag constant and compile() flags (R-FLAGS); who-may-write rule and get_compiled_pattern semantics over both states (R-CACHE) - together a structural argument that every interleaving of compile/get_compiled_pattern/purge/matching answers identically; get_* == list(iterate_*) for all boolean arguments (R-WRAP); yield shape (R-YIELD).",
        "note": "Not decided: the exported text compile() compiles (repr-based get_pattern()) is equivalent to the internal text used by the uncompiled arm (a string-function fact over all patterns); re's own semantics. Trusts ast, /verif/sa.",
        "technique": "abstract interpretation over a recording model of `re` + ownership (who-may-write) rule on the cache field",
    },
    "C12": {
        "text": "Complete up to re's semantics: the four iterate_*captures* generators are walked over abstract match objects covering {unnamed,named} x {text,'',None} groups with named ordinals != group numbers, for all include_empty x relative_to_match x cache states, and every yielded container is compared with the specification (group identity of positions, exact '' filter, uniform offset, shape).",
        "note": "Uniformity of the loop bodies over groups is checked syntactically; get_* forms follow from C11 R-WRAP. Trusts ast, /verif/sa.",
        "technique": "abstract interpretation over abstract match objects (index-kind agreement decided semantically)",
    },
    "C13": {
        "text": "split_by_match / split_by_capture are walked for every order type of match and capture spans (none, ends, whole, adjacent, empty, optional groups, empty captures) and must return the tiling of the text by those spans; replace must be one re.sub with arguments bound as (instance text, repl, text, count, class flags) behind the count<0 guard.",
        "note": "Positions are only sliced/assigned (syntactic scan), so span order types are a complete abstraction; re.sub/finditer behaviour on empty/adjacent matches is re's. Trusts ast, inspect.signature(re.sub), /verif/sa.",
        "technique": "abstract interpretation over span order types + argument binding of the re.sub call site",
    },
    "C14": {
        "text": "All 20 methods with is_path are walked with (path witness, True) and (text witness, False) for every boolean argument combination and both cache states: equal outcomes, re only sees the text, one read of the path (R-PATHSTATE); reader body opens UTF-8 and returns read() (R-READER); context window compared with text[max(s-nl,0):min(e+nr,len)] on all order types (R-WINDOW); window-size validation (R-WINARGS).",
        "note": "The file reader is replaced by a path->text table (its body is checked structurally); decoding by open() is trusted. Trusts ast, /verif/sa.",
        "technique": "typestate (path vs text) decided by abstract interpretation with distinguishable witnesses; interval order-type analysis of the window",
    },
    "C20": {
        "text": "Whole-package ownership and effect rules decided on the syntax trees: write-once fields (every attribute store enumerated), no mutation of shared tables / instance state / arguments, set-iteration order reaches text only through order-insensitive consumers (classified structurally), no hidden inputs; zero-match rules carry an in-tree positive control that must fire on every run.",
        "note": "Not decided: confluence of the interval worklists under different set orders (assumed for the set-in/set-out worklists, listed in the evidence). The rules are sufficient conditions for history independence given Python semantics. Trusts ast.",
        "technique": "ownership / effect analysis and iteration-order taint over the AST (who-may-write, mutation sites, set-typed flow)",
    },
    "C10": {
        "text": "Structural necessary conditions plus shape-level agreement: every variable-width and fixed-width suffix shape the library's own quantifier emitters can produce (obtained by abstract interpretation of the emitters) is fed to the 4 look-behind and 2 look-ahead builders - refused iff variable, Empty handled first, look-aheads never refuse; the four guard constants parse to the same regex; on a catalogue of operand shapes named by the property the verdict is compared with CPython's own width computation.",
        "note": "The property's core - the width of arbitrary run-time operand text - is NOT decided (the guard is a text search); the check decides emitter-produced shapes and a fixed catalogue, so coverage is not exhaustive. Two defect classes found on the catalogue are listed as known findings. Trusts ast, re._parser (getwidth), /verif/sa.",
        "technique": "abstract interpretation of emitters and guards (must-raise / must-not-raise) + regex-constant AST equality + re._parser width oracle on operand shapes",
    },
    "C16": {
        "text": "Composition decided exactly relative to C15/C17: the five Decimal constructors are walked in meta mode (core DSL calls replaced by documented denotations, Integer family and Numeral kept as argument-recording atoms) for start in {0,1,7} x sign x extensible x fraction bounds; skeleton, variant table, same-named argument binding, NOINT iff start == 0, enumerated sign alphabets, digit/sign guards, validation.",
        "note": "The integer part's own semantics (C15) is not decided; Numeral's is C17's. Trusts ast, /verif/sa, documented meaning of core operators.",
        "technique": "finite-language / structural evaluation of DSL-building code (abstract interpretation with a regular-expression term domain)",
    },
    "C17": {
        "text": "All 15 bases are evaluated: the digit expression (unrolled union loop) denotes exactly the first `base` hex digits in both cases; length bounds arrive as the repetition range for a complete set of order types; Word / WordContains / WordStartsWith / WordEndsWith skeletons for affix lists of length 1-3 and str input, word boundaries iff not extensible, is_global forwarded, affixes as literals; validation rows.",
        "note": "'maximal run' and 'standalone' follow from re's \\b/\\w semantics (trusted). Core operators denote their documented meaning (decided by C01-C10). Trusts ast, /verif/sa.",
        "technique": "finite-language / structural evaluation of DSL-building code over the bounded configuration space",
    },
    "C18": {
        "text": "Exact for the clause it decides: IPv4's term flattens to O.O.O.O and each octet's finite language is enumerated and equals {0..255}; IPv6's constructor (loop unrolled, Numeral abstracted to one symbol H with its arguments checked) denotes a finite language over {H, ':'} that is enumerated completely and compared in both directions with the RFC 4291 shapes; non-extensible guards.",
        "note": "Relative to the documented meaning of the core operators and to C17 for H. Behaviour of the per-group word boundaries inside longer text is not decided. Trusts ast, /verif/sa.",
        "technique": "finite-language enumeration of the constructors' denotation (abstract interpretation with a regular-expression term domain)",
    },
    "C19": {
        "text": "Exact: the format list equals the 48 documented formats; for each format the term splits at its own separator into three parts whose finite languages (enumerated, look-behinds honoured: 9 / 31 / 12 / 100 / 10^4 strings) equal the documented token languages in the format's order; selection semantics (None/str/list/invalid) and word-boundary enclosure on representatives of each kind.",
        "note": "Relative to the documented meaning of the core operators. Search preference among overlapping alternatives is re's rule. Trusts ast, /verif/sa.",
        "technique": "finite-language enumeration of the constructors' denotation + table exhaustiveness (every format token has a handler)",
    },
    "C06": {
        "text": "Constants: the 27 constant classes and 20 tokens are folded from the AST and turned into interval sets over all of Unicode by CPython's regex parser - twin agreement, polarity, documented denotation. Computed constructors: the text AnyFrom/AnyButFrom/AnyBetween/AnyButBetween hand to the class pipeline is obtained by abstract interpretation for every ASCII character (as member, as range start, as range end), all pairs of syntax characters, representatives beyond ASCII and all 20 token instances; it must denote the requested set for re AND be read back unchanged by the pipeline's own reader (interpreted); writer/reader escape tables are compared as sets; twins; argument validation; R-PIPELINE: the constructors interpreted through the whole class pipeline for all arrangements of 2-3 escape-table members under source/reversed/pseudo-random set orders - emitted pattern and verbose text denote the requested set.",
        "note": "The pipeline's data-dependent loops are explored on the generated member families and set orders (not proved for arbitrary member lists or all hash seeds). Trusts ast, re._parser, /verif/sa, spec/class_sets.py (our reading of the documentation).",
        "technique": "regex-constant ASTs as interval sets + writer/reader table agreement + abstract interpretation of the constructors against the interpreted reader",
    },
    "C07": {
        "text": "`|`, `-`, `~` are walked by the abstract interpreter - including the nested interval worklists - on EVERY pair of classes over a small contiguous alphabet (all subsets, every spelling of two-member runs, both polarities, an alphabet of ordinary letters and one of escape-table characters), under several iteration orders of the interpreted sets; the text handed to the class pipeline, the emitted pattern and the stored verbose text must denote exactly the union / difference, `-` raises EmptyClassException iff nothing is left, `~` only toggles the marker (adversarial bodies), plus a 33-row dispatch/exception table (polarity mix, singletons, Any, global word classes).",
        "note": "Complete for operands whose members fit the alphabet (5 letters quick, 6 thorough: every order type of up to ~3 intervals per operand); the loops are not proved for arbitrarily many intervals. True hash-seed independence is not decided (2 set orders quick, 8 thorough, incl. pseudo-random permutations). Trusts ast, re._parser, /verif/sa.",
        "technique": "abstract interpretation of the class-algebra functions, exhaustive over a small abstract alphabet, compared with set algebra via the regex parser",
    },
    "C08": {
        "text": "capture(name)/group(flag), in method and class form, are walked by the abstract interpreter on every kind of receiver - empty, non-group of each type tag, and Group-typed text for each parenthesised construct of the re grammar with and without nested named/unnamed/flagged groups (34 receivers) - and the emitted text must have the syntax tree, group count and name table (CPython's parser) of the specified result; name validation order and exceptions; validators' languages included in re's (thorough: per code point over all of Unicode, the regex constant as pre-filter and the whole guard interpreted on candidates); Backreference/Conditional templates and guards.",
        "note": "What counts as Group-typed is decided by __is_group on run-time text (not decided); receivers are the constructs the DSL can emit as a whole text, so coverage is over those shapes. Trusts ast, re._parser, /verif/sa.",
        "technique": "abstract interpretation over receiver shapes + syntax-tree / group-table comparison with the regex parser",
    },
    "C01": {
        "text": "R-ESC: Pregex.__escape is interpreted on every character (quick: U+0000-U+00FF plus every character its constants mention, all others provably untouched because the body is replace-only; thorough: every code point) and on all pairs of syntax characters under four iteration orders of its step set - each result must parse to exactly the literal; R-SANIT: the sanitiser and constructor defaults; R-CTX: for each of the 40+ public str|Pregex parameters found in the annotations, passing the string emits exactly what passing a Pregex with the escaped text emits, for every type tag and every variadic position; R-AFFIX: affix strings only flow into Either.",
        "note": "Not decided: correctness of the type tag __infer_type assigns to an escaped literal under composition. Trusts ast, re._parser, /verif/sa.",
        "technique": "abstract interpretation of the escape routine against the regex parser + differential (str vs escaped Pregex) abstract interpretation of every builder entry",
    },
    "C03": {
        "text": "R-RAISE: every raise statement raises a library exception class and nothing is caught (whole-package syntax rule with positive control); R-TERM: call graph (resolved calls, operator dispatch only where an operand can be a Pregex) is acyclic apart from direct self-recursion, which must carry a progress test; R-TOTAL/R-DOCEXC/R-COMPILE: abstract interpretation of every public pattern-building entry point (80+ core constructors/methods, all meta constructors in meta mode) with each parameter set to each kind of invalid value - outcome is a return that CPython's regex parser accepts or a library exception documented for that entry, never a builtin error or non-termination; R-GUARD arity rows; R-EXPORT: get_pattern() of every DSL-escaped text over an adversarial alphabet is printable and parses to the same regex.",
        "note": "Not decided: compilability for arbitrary run-time operand texts (C02 decides the grouping discipline), termination of the class-algebra worklists for arbitrary operands (C07 explores small alphabets), hash-seed effects. Trusts ast, re._parser, /verif/sa.",
        "technique": "raise-site and call-graph analysis + abstract interpretation sweep over invalid-argument kinds + regex-parser oracle",
    },
}

NOT_APPLICABLE = {
    "C15": "numeric range / leading-zero semantics of a digit-by-digit generator over unbounded run-time integers; no finite abstraction of (start, end) exists, so a static check would be a run-time test of a re-implementation",
}
for _p in ["C01","C02","C03","C05","C06","C07","C08","C09","C10","C11","C12","C13","C14","C16","C17","C18","C19","C20"]:
    if _p not in CLAIMS:
        NOT_APPLICABLE[_p] = _PENDING
