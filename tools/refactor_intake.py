#!/venv/bin/python
"""Intake of a behaviour-preserving refactoring produced by an independent sub-agent (false-alarm probe).

usage: tools/refactor_intake.py <name> <worktree> <property-id> [--no-copy] [--scratch]

1. copies <worktree>/_refactor/{patch.diff,equiv.py,meta.json} to /verif/benign/<name>/
2. confirms in a fresh scratch worktree of /repo (under mktemp, removed afterwards):
      clean tree: `equiv.py record`;  patched tree: baseline test-suite passes (689) and `equiv.py compare` prints SAME
      (under PYTHONHASHSEED 0 and 1)
3. applies the patch to /repo, runs ALL quick checks, reverts /repo (git checkout -- .)
4. records everything in meta.json ("confirmed", "alarms" = checks that did not exit 0)
Every check must stay silent on a confirmed refactoring; an alarm is a false alarm of the machinery unless the
refactoring turns out to change behaviour after all (then it is not `confirmed`, or is re-classified by hand).
"""
import argparse
import json
import os
import re
import shutil
import subprocess
import tempfile

VERIF = os.path.dirname(os.path.dirname(os.path.abspath(__file__)))
ALL = ["C01", "C02", "C03", "C04", "C05", "C06", "C07", "C08", "C09", "C10", "C11", "C12", "C13", "C14", "C16", "C17", "C18", "C19", "C20"]


def sh(cmd, cwd=None, env=None, timeout=1800):
    p = subprocess.run(cmd, shell=True, cwd=cwd, env=env, capture_output=True, text=True, timeout=timeout)
    return p.returncode, (p.stdout + p.stderr)


def main():
    ap = argparse.ArgumentParser()
    ap.add_argument("name")
    ap.add_argument("worktree")
    ap.add_argument("pid")
    ap.add_argument("--no-copy", action="store_true")
    ap.add_argument("--checks", default=None)
    ap.add_argument("--scratch", action="store_true", help="run the checks with --root on the scratch tree instead of patching /repo "
                                                           "(needed when the patch adds files; nothing touches /repo)")
    a = ap.parse_args()
    src = os.path.join(a.worktree, "_refactor")
    dst = os.path.join(VERIF, "benign", a.name)
    os.makedirs(dst, exist_ok=True)
    for fn in ("patch.diff", "equiv.py", "meta.json"):
        if not a.no_copy and os.path.exists(os.path.join(src, fn)):
            shutil.copy(os.path.join(src, fn), os.path.join(dst, fn))
    meta_p = os.path.join(dst, "meta.json")
    try:
        meta = json.load(open(meta_p))
    except Exception:
        meta = {}
    meta["property"] = a.pid
    ran = []
    scratch = tempfile.mkdtemp(prefix="refchk-")
    if a.scratch:
        rc, out = sh(f"git -C /repo archive HEAD | tar -x -C {scratch}")
    else:
        os.rmdir(scratch)
        rc, out = sh(f"git -C /repo worktree add -q --detach {scratch} HEAD")
    assert rc == 0, out
    alarms = {}
    try:
        # the agent's script hard-codes its own worktree path: rewrite it to the scratch tree
        eq = open(os.path.join(dst, "equiv.py")).read()
        eq = re.sub(r"/tmp/wt\w?-C\d\d", scratch, eq)
        os.makedirs(os.path.join(scratch, "_refactor"), exist_ok=True)
        open(os.path.join(scratch, "_refactor", "equiv.py"), "w").write(eq)
        env = dict(os.environ, PYTHONPATH=os.path.join(scratch, "src"), PYTHONHASHSEED="0")
        rc_rec, out_rec = sh("/venv/bin/python -W ignore _refactor/equiv.py record", cwd=scratch, env=env)
        ran.append(f"clean tree: equiv.py record -> exit {rc_rec}")
        rc, out = sh(f"patch -s -p1 < {os.path.join(dst, 'patch.diff')}" if a.scratch else f"git apply {os.path.join(dst, 'patch.diff')}", cwd=scratch)
        ran.append(f"git apply patch.diff -> exit {rc}")
        applies = rc == 0
        rc_t, out_t = sh("/venv/bin/python -W ignore -m pytest -q -p no:cacheprovider 2>&1 | tail -1", cwd=scratch, env=env)
        ran.append(f"patched tree: pytest -> {out_t.strip()}")
        same = True
        for seed in ("0", "1"):
            env["PYTHONHASHSEED"] = seed
            rc_c, out_c = sh("/venv/bin/python -W ignore _refactor/equiv.py compare", cwd=scratch, env=env)
            ran.append(f"patched tree: equiv.py compare (PYTHONHASHSEED={seed}) -> exit {rc_c}: {out_c.strip().splitlines()[-1][:120] if out_c.strip() else ''}")
            same = same and rc_c == 0
        rc_cc, _ = sh("/venv/bin/python -W ignore -m compileall -q src", cwd=scratch, env=env)
        n_lines = sum(1 for l in open(os.path.join(dst, "patch.diff")) if l[:1] in "+-" and l[:3] not in ("+++", "---"))
        confirmed = applies and rc_rec == 0 and same and "689 passed" in out_t and rc_cc == 0
        if a.scratch and confirmed:
            shutil.rmtree(os.path.join(scratch, "_refactor"), ignore_errors=True)
            for pid in (a.checks.split(",") if a.checks else ALL):
                rc, out = sh(f"./check {pid} --no-evidence --tier quick --root {scratch}", cwd=VERIF)
                if rc != 0:
                    lines = [l for l in out.splitlines() if "violation rule=" in l or "ANALYSIS-ERROR" in l]
                    alarms[pid] = {"exit": rc, "lines": [l.strip()[:300] for l in lines[:6]]}
    finally:
        if not a.scratch:
            sh(f"git -C /repo worktree remove --force {scratch}")
        shutil.rmtree(scratch, ignore_errors=True)
    meta["confirmed"] = bool(confirmed)
    meta["changed_lines"] = n_lines
    if confirmed and not a.scratch:
        rc, out = sh("git -C /repo status --porcelain")
        assert out.strip() == "", "/repo is not clean: " + out
        rc, out = sh(f"git -C /repo apply {os.path.join(dst, 'patch.diff')}")
        assert rc == 0, out
        try:
            for pid in (a.checks.split(",") if a.checks else ALL):
                rc, out = sh(f"./check {pid} --no-evidence --tier quick", cwd=VERIF)
                if rc != 0:
                    lines = [l for l in out.splitlines() if "violation rule=" in l or "ANALYSIS-ERROR" in l]
                    alarms[pid] = {"exit": rc, "lines": [l.strip()[:300] for l in lines[:6]]}
        finally:
            sh("git -C /repo checkout -- .")
        rc, out = sh("git -C /repo status --porcelain")
        assert out.strip() == "", "/repo not restored: " + out
    meta["alarms"] = alarms
    meta["intake_ran"] = ran
    json.dump(meta, open(meta_p, "w"), indent=1, ensure_ascii=False)
    print(json.dumps({"name": a.name, "confirmed": confirmed, "changed_lines": n_lines, "alarms": alarms, "ran": ran}, indent=1))


if __name__ == "__main__":
    main()
