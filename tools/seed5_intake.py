#!/venv/bin/python
"""Intake of a breaking change made ON TOP OF a stored behaviour-preserving refactoring (round 5).

usage: tools/seed5_intake.py <seed-name> <agent-dir> <property-id> --base <benign-name> [--checks C01,..] [--no-copy]

1. copies <agent-dir>/_seed/{patch.diff,demo.py,meta.json} to /verif/seeded/<seed-name>/ and records the base
2. builds a scratch tree (mktemp; removed afterwards): `git archive HEAD` of /repo + benign/<base>/patch.diff;
   refactored base: demo exits 0;  + seed patch: baseline test-suite passes (689) and demo exits non-zero
3. runs the quick checks (all, or --checks) with --root <scratch tree> (nothing is applied to /repo)
4. records everything in meta.json ("confirmed", "detected_by", "ran")
"""
import argparse
import json
import os
import shutil
import subprocess
import tempfile

VERIF = os.path.dirname(os.path.dirname(os.path.abspath(__file__)))
ALL = ["C01", "C02", "C03", "C04", "C05", "C06", "C07", "C08", "C09", "C10", "C11", "C12", "C13", "C14", "C16", "C17", "C18", "C19", "C20"]


def sh(cmd, cwd=None, env=None, timeout=1800):
    p = subprocess.run(cmd, shell=True, cwd=cwd, env=env, capture_output=True, text=True, timeout=timeout)
    return p.returncode, (p.stdout + p.stderr)


def main():
    ap = argparse.ArgumentParser()
    ap.add_argument("name")
    ap.add_argument("agent_dir")
    ap.add_argument("pid")
    ap.add_argument("--base", required=True)
    ap.add_argument("--checks", default=None)
    ap.add_argument("--no-copy", action="store_true")
    a = ap.parse_args()
    src = os.path.join(a.agent_dir, "_seed")
    dst = os.path.join(VERIF, "seeded", a.name)
    os.makedirs(dst, exist_ok=True)
    for fn in ("patch.diff", "demo.py", "meta.json"):
        if not a.no_copy and os.path.exists(os.path.join(src, fn)):
            shutil.copy(os.path.join(src, fn), os.path.join(dst, fn))
    meta_p = os.path.join(dst, "meta.json")
    try:
        meta = json.load(open(meta_p))
    except Exception:
        meta = {}
    meta["property"] = a.pid
    meta["base"] = "none (the pinned tree itself; checked on a scratch copy)" if a.base == "none" else \
        f"benign/{a.base}/patch.diff (apply first; the seed's patch.diff is relative to the refactored tree)"
    ran = []
    scratch = tempfile.mkdtemp(prefix="seed5-")
    detected, errors = {}, {}
    try:
        rc, out = sh(f"git -C /repo archive HEAD | tar -x -C {scratch}")
        assert rc == 0, out
        if a.base != "none":
            rc, out = sh(f"patch -s -p1 < {os.path.join(VERIF, 'benign', a.base, 'patch.diff')}", cwd=scratch)
            assert rc == 0, out
        env = dict(os.environ, PYTHONPATH=os.path.join(scratch, "src"))
        demo = open(os.path.join(dst, "demo.py")).read()
        rc_clean, out_clean = sh(f"/venv/bin/python -W ignore {os.path.join(dst, 'demo.py')}", cwd=scratch, env=env)
        ran.append(f"refactored base: demo.py -> exit {rc_clean}")
        rc, out = sh(f"patch -s -p1 < {os.path.join(dst, 'patch.diff')}", cwd=scratch)
        ran.append(f"seed patch applies -> exit {rc}")
        applies = rc == 0
        rc_t, out_t = sh("/venv/bin/python -W ignore -m pytest -q -p no:cacheprovider 2>&1 | tail -1", cwd=scratch, env=env)
        ran.append(f"patched tree: pytest -> {out_t.strip()}")
        rc_demo, out_demo = sh(f"/venv/bin/python -W ignore {os.path.join(dst, 'demo.py')}", cwd=scratch, env=env)
        ran.append(f"patched tree: demo.py -> exit {rc_demo}: {out_demo.strip().splitlines()[-1][:160] if out_demo.strip() else ''}")
        rc_c, _ = sh("/venv/bin/python -W ignore -m compileall -q src", cwd=scratch, env=env)
        confirmed = applies and rc_clean == 0 and rc_demo != 0 and "689 passed" in out_t and rc_c == 0 and not any(f"/tmp/wt{k}-" in demo for k in "579BCJL")
        meta["confirmed"] = bool(confirmed)
        if confirmed:
            for pid in (a.checks.split(",") if a.checks else ALL):
                rc, out = sh(f"./check {pid} --no-evidence --tier quick --root {scratch}", cwd=VERIF)
                rules = sorted({l.split("rule=")[1].split()[0] for l in out.splitlines() if l.strip().startswith("violation rule=")})
                if rc == 1:
                    detected[pid] = {"exit": rc, "rules": rules}
                elif rc != 0:
                    errors[pid] = {"exit": rc, "lines": [l.strip()[:240] for l in out.splitlines() if "ANALYSIS-ERROR" in l][:2]}
    finally:
        shutil.rmtree(scratch, ignore_errors=True)
    meta["detected_by"] = detected
    meta["analysis_errors"] = errors
    meta["intake_ran"] = ran
    json.dump(meta, open(meta_p, "w"), indent=1, ensure_ascii=False)
    print(json.dumps({"name": a.name, "confirmed": meta["confirmed"], "detected_by": detected, "analysis_errors": errors, "ran": ran}, indent=1))


if __name__ == "__main__":
    main()
