#!/venv/bin/python
"""Regenerates /verif/MANIFEST.json from the claims table below (single source of truth)."""
import json, os, sys
HERE = os.path.dirname(os.path.dirname(os.path.abspath(__file__)))
sys.path.insert(0, HERE)
from tools.claims import CLAIMS, NOT_APPLICABLE

BASELINE = "cd /repo && /venv/bin/python -m pytest -ra -q -p no:cacheprovider --timeout=900 --continue-on-collection-errors"

def main():
    checks = []
    for pid, c in sorted(CLAIMS.items()):
        checks.append({
            "property_id": pid,
            "quick_cmd": f"./check {pid} --tier quick",
            "thorough_cmd": f"./check {pid} --tier thorough",
            "evidence_file": f"/verif/evidence/{pid}.json",
            "replay_cmd_template": f"./check {pid} --replay {{path}}",
            "engine": "sa",
            "level_claimed": {"category": "other", "text": c["text"], "design_ref": c.get("design_ref", f"DESIGN.md section 3, {pid}")},
            "level_note": c["note"],
            "technique": c["technique"],
        })
    man = {
        "version": 1,
        "setup_cmd": "/venv/bin/python -m compileall -q sa tools check >/dev/null 2>&1; /venv/bin/python -c \"import ast, re._parser\"",
        "hooks": {"guard": "PREGEX_VERIF", "enable": "none needed: nothing in /repo is executed or instrumented; checks parse /repo/src/pregex",
                  "baseline_off_cmd": BASELINE, "source_commits": [], "add_only": True},
        "engines": [{"name": "sa", "path": "/verif/sa", "serves_properties": sorted(CLAIMS),
                     "kind_free_text": "repository-specific static analysis in pure Python (ast, re._parser): program model with name mangling and lambda binding, AST abstract interpreter with trace partitioning, regex-constant ASTs, dataflow/typestate rules, finite-language evaluation of the meta constructors"}],
        "checks": checks,
        "not_applicable": [{"property_id": p, "reason": r} for p, r in sorted(NOT_APPLICABLE.items())],
        "notes": "All checks are static analysis: /repo is parsed, never imported. Exit 0 held / 1 VIOLATION / 2 ANALYSIS-ERROR. Known findings: /verif/known_findings.jsonl.",
    }
    with open(os.path.join(HERE, "MANIFEST.json"), "w") as f:
        json.dump(man, f, indent=1)
    print("wrote MANIFEST.json:", len(checks), "checks,", len(NOT_APPLICABLE), "not applicable")

if __name__ == "__main__":
    main()
