#!/bin/bash
# Re-run every round-5 seed (made on top of a stored refactoring) against the current /verif: own check + those that fired before.
cd /verif
for d in seeded/*-d/; do
  n=$(basename $d); pid=$(python3 -c "import json;print(json.load(open('$d/meta.json'))['property'])")
  prev=$(python3 -c "import json;print(','.join(sorted(set(json.load(open('$d/meta.json')).get('detected_by',{}))|{'$pid'})))")
  /venv/bin/python tools/seed5_intake.py $n /nonexistent $pid --base ${pid}-r --checks $prev --no-copy 2>&1 | python3 -c "
import sys,json
d=json.load(sys.stdin); print(d['name'], 'confirmed=',d['confirmed'], 'detected_by=', {k:v['rules'] for k,v in d['detected_by'].items()}, 'errors=', list(d['analysis_errors']))"
done
