#!/bin/bash
# Re-run every seed that was made on top of a stored refactoring (rounds 5, 7 and 9: seeded/*-d, *-e, *-f) against the
# current /verif: own check + those that fired before.  Scratch trees only; /repo is not touched.
cd /verif
for d in seeded/*-d/ seeded/*-e/ seeded/*-f/ seeded/*-g/ seeded/*-i/; do
  [ -f "$d/meta.json" ] || continue
  n=$(basename $d); pid=$(python3 -c "import json;print(json.load(open('$d/meta.json'))['property'])")
  base=$(python3 -c "import json,re;m=re.search(r'benign/([^/]+)/', json.load(open('$d/meta.json'))['base']); print(m.group(1) if m else 'none')")
  prev=$(python3 -c "import json;print(','.join(sorted(set(json.load(open('$d/meta.json')).get('detected_by',{}))|{'$pid'})))")
  /venv/bin/python tools/seed5_intake.py $n /nonexistent $pid --base $base --checks $prev --no-copy 2>&1 | python3 -c "
import sys,json
d=json.load(sys.stdin); print(d['name'], 'confirmed=',d['confirmed'], 'detected_by=', {k:v['rules'] for k,v in d['detected_by'].items()}, 'errors=', list(d['analysis_errors']))"
done
